"""E10 "Tables": declarative data extracted from source text / AST, never by importing the library.

Three groups of services (DESIGN.md section 2, Appendix D.8):

1. A small *symbolic evaluator* for the declarative subset of Python the library uses to
   build tables and voluptuous schemas: literals with constant folding, dict/list/tuple
   displays, module-level table building (``T = {...}``, ``T['k'] = v``, dict comprehensions
   over a known table, ``merge_dicts``/``.copy()``), calls of small helper functions of the
   package (inlined when their body is straight-line), ``Schema(...)``, ``.extend({...})``,
   ``super(K, self).schema_config``, ``Class.schema_config`` and ``self.math_config_options``.
   Result: `Term` trees, and for schemas `SchemaTable`s ``{option: Opt(marker, default, validator)}``.

2. Parsers for the *documentation siblings*: class-docstring option blocks
   (``name (type): ... (default X)``, ``Defaults to X``, ``default changed to X`` ...),
   the fenced "Option(s) Listing" blocks of docs/*.md, the bullet lists of
   docs/grading_math/functions_and_constants.md and the suffix list of formula_grader.md.

3. Literal helpers shared by both (`parse_literal`, `values_equal`).

Everything unknown becomes an `opaque` term (never a guess); callers decide whether an opaque
term is tolerable (evidence note) or an AnalysisError.
"""
import ast
import math
import os
import re
from collections import OrderedDict

from .index import AnalysisError, unparse, short, walk_own

INF = float('inf')


# =============================================================================== values
class Sym(object):
    """A value that is not a literal (e.g. `RealInterval()`), carried as normalised source text."""
    __slots__ = ('text',)

    def __init__(self, text):
        self.text = ' '.join(str(text).split())

    def __eq__(self, other):
        return isinstance(other, Sym) and other.text == self.text

    def __ne__(self, other):
        return not self == other

    def __hash__(self):
        return hash(('Sym', self.text))

    def __repr__(self):
        return '<%s>' % self.text


def is_literal(v):
    if isinstance(v, Sym):
        return False
    if isinstance(v, (list, tuple, set, frozenset)):
        return all(is_literal(x) for x in v)
    if isinstance(v, dict):
        return all(is_literal(k) and is_literal(x) for k, x in v.items())
    return True


def _norm_str(s):
    return ' '.join(s.split())


def values_equal(a, b):
    """Equality of two extracted literals: numbers by value (bool is not a number here),
    strings modulo runs of whitespace, containers element-wise with the same container type."""
    if isinstance(a, Sym) or isinstance(b, Sym):
        return isinstance(a, Sym) and isinstance(b, Sym) and a == b
    if isinstance(a, bool) or isinstance(b, bool):
        return isinstance(a, bool) and isinstance(b, bool) and a == b
    if a is None or b is None:
        return a is None and b is None
    if isinstance(a, (int, float, complex)) and isinstance(b, (int, float, complex)):
        if a == b:
            return True
        try:
            return abs(a - b) <= 1e-12 * max(abs(a), abs(b))
        except (OverflowError, TypeError):
            return False
    if isinstance(a, str) and isinstance(b, str):
        return _norm_str(a) == _norm_str(b)
    if isinstance(a, (list, tuple)) and isinstance(b, (list, tuple)):
        return type(a) is type(b) and len(a) == len(b) and all(values_equal(x, y) for x, y in zip(a, b))
    if isinstance(a, dict) and isinstance(b, dict):
        if len(a) != len(b):
            return False
        for k, v in a.items():
            hit = [k2 for k2 in b if values_equal(k, k2)]
            if not hit or not values_equal(v, b[hit[0]]):
                return False
        return True
    if isinstance(a, (set, frozenset)) and isinstance(b, (set, frozenset)):
        return a == b
    return False


def show(v):
    if isinstance(v, Sym):
        return v.text
    if isinstance(v, float) and v == INF:
        return 'inf'
    return repr(v)


# ================================================================================ terms
class Term(object):
    """Symbolic value of an expression.

    kind    payload
    const   value
    name    name = dotted name of an external / builtin / class object (e.g. 'int', 'numpy.sin')
    func    value = FuncInfo of a package function, name = its qualified name
    call    callee (Term), name = short callee name, args [Term], kwargs {str: Term}
    list / tuple / set      args
    dict    items = [(key Term, value Term)]
    schema  value = SchemaTable
    selfattr  name (attribute of the instance that is not a table: a method used as validator)
    lambda / closure   node
    opaque  anything else (text only)
    """
    __slots__ = ('kind', 'name', 'args', 'kwargs', 'value', 'node', 'module', 'origin', 'items', 'callee')

    def __init__(self, kind, name=None, args=None, kwargs=None, value=None, node=None, module=None,
                 origin=None, items=None, callee=None):
        self.kind = kind
        self.name = name
        self.args = args if args is not None else []
        self.kwargs = kwargs if kwargs is not None else {}
        self.value = value
        self.node = node
        self.module = module
        self.origin = origin      # (helper name, [arg texts]) when the term is the inlined result of a helper call
        self.items = items if items is not None else []
        self.callee = callee

    # -------------------------------------------------------------- rendering
    def text(self):
        k = self.kind
        if k == 'const':
            return show(self.value)
        if k in ('name', 'func'):
            return _short_name(self.name)
        if k == 'call':
            head = self.callee.text() if self.callee is not None and self.callee.kind == 'call' else self.name
            parts = [a.text() for a in self.args] + ['%s=%s' % (n, v.text()) for n, v in sorted(self.kwargs.items())]
            return '%s(%s)' % (head, ', '.join(parts))
        if k == 'list':
            return '[%s]' % ', '.join(a.text() for a in self.args)
        if k == 'tuple':
            return '(%s%s)' % (', '.join(a.text() for a in self.args), ',' if len(self.args) == 1 else '')
        if k == 'set':
            return '{%s}' % ', '.join(a.text() for a in self.args)
        if k == 'dict':
            return '{%s}' % ', '.join('%s: %s' % (a.text(), b.text()) for a, b in self.items)
        if k == 'schema':
            return self.value.text()
        if k == 'selfattr':
            return 'self.' + self.name
        if k in ('lambda', 'closure', 'opaque'):
            return ' '.join(unparse(self.node).split()) if self.node is not None else (self.name or '<opaque>')
        return '<%s>' % k

    def __repr__(self):
        return 'Term<%s %s>' % (self.kind, self.text()[:80])

    # ---------------------------------------------------------------- queries
    def is_call(self, *names):
        return self.kind == 'call' and (not names or self.name in names)

    def is_name(self, *names):
        return self.kind in ('name', 'func') and (not names or _short_name(self.name) in names or self.name in names)

    def get(self, key):
        """Value term of a dict term for a constant key (None if absent)."""
        for k, v in self.items:
            if k.kind == 'const' and k.value == key:
                return v
        return None

    def keys(self):
        return [k.value for k, _ in self.items if k.kind == 'const']

    def loc(self):
        rel = self.module.relpath if self.module is not None else '?'
        return '%s:%d' % (rel, getattr(self.node, 'lineno', 0) or 0)


def _short_name(dotted):
    if dotted is None:
        return '?'
    for prefix in ('builtins.', 'numbers.'):
        if dotted.startswith(prefix):
            return dotted[len(prefix):]
    if dotted.startswith('voluptuous.') or dotted.startswith('mitxgraders.'):
        return dotted.split('.')[-1]
    return dotted


def term_value(t):
    """Python literal denoted by a term, or Sym(text) when it is not a literal."""
    if t is None:
        return Sym('<missing>')
    if t.kind == 'const':
        return t.value
    if t.kind in ('list', 'tuple'):
        vals = [term_value(a) for a in t.args]
        if all(is_literal(v) for v in vals):
            return vals if t.kind == 'list' else tuple(vals)
    if t.kind == 'dict':
        out = OrderedDict()
        ok = True
        for k, v in t.items:
            kv, vv = term_value(k), term_value(v)
            if not (is_literal(kv) and is_literal(vv)):
                ok = False
                break
            try:
                out[kv] = vv
            except TypeError:
                ok = False
                break
        if ok:
            return dict(out)
    if t.kind == 'schema':
        return Sym(t.text())
    return Sym(t.text())


# ========================================================================= schema tables
class Opt(object):
    """One key of a dict schema."""
    __slots__ = ('key', 'marker', 'has_default', 'default', 'validator', 'node', 'module', 'declared_by', 'key_term')

    def __init__(self, key, marker, has_default, default, validator, node, module, key_term=None):
        self.key = key                # str for literal keys, text otherwise
        self.marker = marker          # 'Required' | 'Optional' | 'Extra' | 'plain' | other marker class name
        self.has_default = has_default
        self.default = default        # Term or None
        self.validator = validator    # Term
        self.node = node
        self.module = module
        self.declared_by = None       # qualified class name whose own schema code (re)declares the option
        self.key_term = key_term

    @property
    def default_value(self):
        return term_value(self.default) if self.has_default else None

    @property
    def sub(self):
        """Nested SchemaTable when the validator is itself a dict schema."""
        return self.validator.value if self.validator is not None and self.validator.kind == 'schema' else None

    def loc(self):
        return '%s:%d' % (self.module.relpath if self.module is not None else '?', getattr(self.node, 'lineno', 0) or 0)

    def copy(self):
        o = Opt(self.key, self.marker, self.has_default, self.default, self.validator, self.node, self.module, self.key_term)
        o.declared_by = self.declared_by
        return o

    def text(self):
        d = ', default=%s' % self.default.text() if self.has_default else ''
        if self.marker == 'Extra':
            return 'Extra: %s' % self.validator.text()
        if self.marker == 'plain':
            return '%r: %s' % (self.key, self.validator.text())
        return '%s(%r%s): %s' % (self.marker, self.key, d, self.validator.text())


class SchemaTable(object):
    """A voluptuous schema: dict form ({option: Opt}) or non-dict form (a validator term)."""

    def __init__(self, node=None, module=None):
        self.opts = OrderedDict()
        self.extras = []          # Opt objects with the Extra marker
        self.extra_kw = None      # Term of Schema(..., extra=X) / .extend(..., extra=X) if present
        self.extra_sites = []     # (Term, module, node) for every extra= keyword met while building the table
        self.required_kw = None
        self.other = None         # Term for non-dict schemas
        self.alternatives = []    # further non-dict alternatives of Schema(Any({..}, alt))
        self.node = node
        self.module = module

    @property
    def is_dict(self):
        return self.other is None

    def extend(self, more, owner=None, extra_kw=None, node=None, module=None):
        new = SchemaTable(self.node, self.module)
        new.other = self.other
        new.alternatives = list(self.alternatives)
        new.extra_kw = extra_kw if extra_kw is not None else self.extra_kw
        new.extra_sites = list(self.extra_sites) + list(more.extra_sites)
        if extra_kw is not None:
            new.extra_sites.append((extra_kw, module, node))
        new.required_kw = self.required_kw
        for k, o in self.opts.items():
            new.opts[k] = o
        new.extras = list(self.extras)
        for k, o in more.opts.items():
            o = o.copy()
            if owner is not None:
                o.declared_by = owner
            old = new.opts.get(k)
            if old is not None and old.sub is not None and o.sub is not None:
                merged = old.sub.extend(o.sub, owner)
                o.validator = Term('schema', value=merged, node=o.validator.node, module=o.validator.module)
            if old is not None:
                del new.opts[k]
            new.opts[k] = o
        if more.extras:
            new.extras = []
            for o in more.extras:
                o = o.copy()
                if owner is not None:
                    o.declared_by = owner
                new.extras.append(o)
        return new

    def stamp(self, owner):
        for o in list(self.opts.values()) + self.extras:
            o.declared_by = owner
        return self

    def text(self):
        if not self.is_dict:
            return 'Schema(%s)' % self.other.text()
        body = ', '.join(o.text() for o in list(self.opts.values()) + self.extras)
        return '{%s}' % body

    def walk(self, prefix=''):
        """(dotted option path, Opt) for every option incl. nested dict schemas."""
        for k, o in self.opts.items():
            path = prefix + str(k)
            yield path, o
            if o.sub is not None:
                for x in o.sub.walk(path + '.'):
                    yield x


class Unsupported(Exception):
    """Internal: an expression/statement outside the declarative subset."""


class Scope(object):
    __slots__ = ('module', 'self_cls', 'owner', 'env', 'class_ns', 'depth')

    def __init__(self, module, self_cls=None, owner=None, env=None, class_ns=None, depth=0):
        self.module = module
        self.self_cls = self_cls      # ClassInfo `self` is an instance of (most derived class under analysis)
        self.owner = owner            # ClassInfo whose body / method is being evaluated (for super())
        self.env = env if env is not None else {}
        self.class_ns = class_ns      # ClassInfo whose class body names are visible (class-level statements only)
        self.depth = depth

    def child(self, **kw):
        s = Scope(self.module, self.self_cls, self.owner, dict(self.env), self.class_ns, self.depth)
        for k, v in kw.items():
            setattr(s, k, v)
        return s


SCHEMA_Q = 'voluptuous.schema_builder.Schema'
MARKERS = {'Required', 'Optional', 'Exclusive', 'Inclusive', 'Remove', 'Marker'}
MAX_DEPTH = 12


class Evaluator(object):
    """Symbolic evaluation of the declarative subset (see module docstring)."""

    def __init__(self, index):
        self.idx = index
        self._module_env = {}
        self._in_progress = set()
        self._class_schema = {}
        self._class_attr = {}
        self.notes = []
        self.inlined = set()      # qualified names of package helpers whose bodies were evaluated symbolically

    # ------------------------------------------------------------------ modules
    def module_env(self, module):
        """name -> Term for the module's top-level bindings, evaluated in statement order
        (so that `T['k'] = v` after `T = {...}` is part of T)."""
        if module.name in self._module_env:
            return self._module_env[module.name]
        if module.name in self._in_progress:
            return {}
        self._in_progress.add(module.name)
        env = {}
        scope = Scope(module, env=env)
        try:
            self._run_toplevel(module.tree.body, scope)
        finally:
            self._in_progress.discard(module.name)
        self._module_env[module.name] = env
        return env

    def _written_names(self, stmts):
        """Names bound or mutated by the statements (assignment targets, subscript stores, receivers of method calls)."""
        out = set()
        for st in stmts:
            for n in ast.walk(st):
                if isinstance(n, ast.Name) and isinstance(n.ctx, (ast.Store, ast.Del)):
                    out.add(n.id)
                elif isinstance(n, ast.Subscript) and isinstance(n.ctx, (ast.Store, ast.Del)) and isinstance(n.value, ast.Name):
                    out.add(n.value.id)
                elif isinstance(n, ast.Call) and isinstance(n.func, ast.Attribute) and isinstance(n.func.value, ast.Name) \
                        and n.func.attr in ('update', 'setdefault', 'pop', 'popitem', 'clear', 'append', 'extend', 'insert', 'remove',
                                            '__setitem__', '__delitem__', 'add', 'discard', 'sort', 'reverse'):
                    out.add(n.func.value.id)
        return out

    def _make_opaque(self, names, scope, why, node):
        for nm in names:
            if nm in scope.env:
                old = scope.env[nm]
                scope.env[nm] = Term('opaque', node=old.node if old.node is not None else node, module=scope.module,
                                     name='%s (%s)' % (nm, why))

    def iter_elems(self, t):
        """Elements of a finite literal iterable term (list of Terms) or None."""
        if t.kind in ('list', 'tuple', 'set'):
            return list(t.args)
        if t.kind == 'dict':
            return [k for k, _ in t.items]
        if t.kind == 'const' and isinstance(t.value, str):
            return [Term('const', value=ch, node=t.node, module=t.module) for ch in t.value]
        if t.kind == 'const' and isinstance(t.value, (tuple, list)):
            return [Term('const', value=v, node=t.node, module=t.module) for v in t.value]
        return None

    def _bind_target(self, target, value, env):
        if isinstance(target, ast.Name):
            env[target.id] = value
            return True
        if isinstance(target, (ast.Tuple, ast.List)):
            elems = self.iter_elems(value)
            if elems is None or len(elems) != len(target.elts) or any(isinstance(t, ast.Starred) for t in target.elts):
                return False
            return all(self._bind_target(t, v, env) for t, v in zip(target.elts, elems))
        return False

    def _run_toplevel(self, stmts, scope):
        for s in stmts:
            if isinstance(s, ast.For):
                # a generating loop over literals is unrolled; anything else makes what it writes opaque (never "missing")
                done = False
                if not s.orelse:
                    try:
                        elems = self.iter_elems(self.eval(s.iter, scope))
                    except Unsupported:
                        elems = None
                    if elems is not None and len(elems) <= 2000 and not any(
                            isinstance(n, (ast.Break, ast.Continue, ast.Return)) for st in s.body for n in ast.walk(st)):
                        saved = dict(scope.env)
                        ok = True
                        for e in elems:
                            if not self._bind_target(s.target, e, scope.env):
                                ok = False
                                break
                            self._run_toplevel(s.body, scope)
                        if ok:
                            done = True
                        else:
                            scope.env.clear()
                            scope.env.update(saved)
                if not done:
                    self._make_opaque(self._written_names(s.body + s.orelse), scope, 'written in a loop', s)
                continue
            if isinstance(s, ast.Delete):
                for t in s.targets:
                    if isinstance(t, ast.Name):
                        scope.env.pop(t.id, None)
                    elif isinstance(t, ast.Subscript) and isinstance(t.value, ast.Name):
                        self._make_opaque([t.value.id], scope, 'entry deleted', s)
                continue
            if isinstance(s, ast.While):
                self._make_opaque(self._written_names(s.body + s.orelse), scope, 'written in a loop', s)
                continue
            if isinstance(s, ast.If):
                try:
                    t = self.eval(s.test, scope)
                except Unsupported:
                    t = None
                if t is not None and t.kind == 'const':
                    self._run_toplevel(s.body if t.value else s.orelse, scope)
                else:
                    written = self._written_names(s.body + s.orelse)
                    before = set(scope.env)
                    self._run_toplevel(s.body, scope)
                    self._run_toplevel(s.orelse, scope)
                    self._make_opaque(written & before, scope, 'written under a condition', s)
                continue
            if isinstance(s, ast.Try):
                for field in ('body', 'orelse', 'finalbody'):
                    self._run_toplevel(getattr(s, field, []) or [], scope)
                continue
            if isinstance(s, ast.AugAssign) and isinstance(s.target, (ast.Name, ast.Subscript)):
                nm = s.target.id if isinstance(s.target, ast.Name) else (s.target.value.id if isinstance(s.target.value, ast.Name) else None)
                if nm is not None:
                    self._make_opaque([nm], scope, 'augmented assignment', s)
                continue
            if isinstance(s, ast.Expr) and isinstance(s.value, ast.Call) and isinstance(s.value.func, ast.Attribute) \
                    and isinstance(s.value.func.value, ast.Name) and s.value.func.value.id in scope.env \
                    and scope.env[s.value.func.value.id].kind == 'dict':
                self._table_method(s.value, scope)
                continue
            if isinstance(s, ast.AnnAssign) and isinstance(s.target, ast.Name) and s.value is not None:
                targets, value = [s.target], s.value
            elif isinstance(s, ast.Assign):
                targets, value = s.targets, s.value
            else:
                continue
            try:
                val = self.eval(value, scope)
            except Unsupported:
                val = Term('opaque', node=value, module=scope.module)
            for t in targets:
                if isinstance(t, ast.Name):
                    scope.env[t.id] = val
                elif isinstance(t, ast.Subscript) and isinstance(t.value, ast.Name):
                    tab = scope.env.get(t.value.id)
                    try:
                        key = self.eval(t.slice, scope)
                    except Unsupported:
                        key = None
                    if tab is not None and tab.kind == 'dict' and key is not None and key.kind == 'const':
                        items = [(k, v) for k, v in tab.items if not (k.kind == 'const' and k.value == key.value)]
                        key.node = t
                        items.append((key, val))
                        scope.env[t.value.id] = Term('dict', items=items, node=tab.node, module=tab.module)
                    elif tab is not None:
                        scope.env[t.value.id] = Term('opaque', node=tab.node, module=scope.module,
                                                     name='%s (modified by a subscript store)' % t.value.id)

    def _table_method(self, call, scope):
        """`T.update(...)` / `T.setdefault(k, v)` as a module-level statement on a known table; anything else that may
        write the table makes it opaque."""
        name = call.func.value.id
        tab = scope.env[name]
        meth = call.func.attr
        pairs = None
        try:
            if meth == 'update':
                pairs = []
                for a in call.args:
                    t = self.eval(a, scope)
                    if t.kind == 'dict':
                        pairs.extend(t.items)
                    elif t.kind in ('list', 'tuple') and all(x.kind in ('list', 'tuple') and len(x.args) == 2 for x in t.args):
                        pairs.extend((x.args[0], x.args[1]) for x in t.args)
                    else:
                        pairs = None
                        break
                if pairs is not None:
                    for kw in call.keywords:
                        if kw.arg is None:
                            pairs = None
                            break
                        pairs.append((Term('const', value=kw.arg, node=kw.value, module=scope.module), self.eval(kw.value, scope)))
            elif meth in ('copy', 'get', 'keys', 'values', 'items'):
                return
        except Unsupported:
            pairs = None
        if pairs is None or not all(k.kind == 'const' for k, _ in pairs):
            if meth in ('update', 'setdefault', 'pop', 'popitem', 'clear', '__setitem__', '__delitem__'):
                scope.env[name] = Term('opaque', node=tab.node, module=scope.module, name='%s (modified by .%s())' % (name, meth))
            return
        items = list(tab.items)
        for k, v in pairs:
            items = [(k2, v2) for k2, v2 in items if not (k2.kind == 'const' and k2.value == k.value)]
            if k.node is None:
                k.node = call
            items.append((k, v))
        scope.env[name] = Term('dict', items=items, node=tab.node, module=tab.module)

    def module_value(self, module, name):
        env = self.module_env(module)
        if name in env:
            return env[name]
        return None

    # ------------------------------------------------------------------- names
    def _resolve_global(self, name, scope, node):
        module = scope.module
        kind, obj = self.idx.resolve_name(module, name)
        return self._from_resolution(kind, obj, node, module, name)

    def _from_resolution(self, kind, obj, node, module, name):
        if kind == 'func':
            if obj.module.name.startswith('voluptuous'):
                return Term('name', name='voluptuous.' + obj.name, node=node, module=module)
            return Term('func', name=obj.qualname, value=obj, node=node, module=module)
        if kind == 'class':
            q = obj.qualname
            if q.startswith('voluptuous.'):
                q = 'voluptuous.' + obj.name
            return Term('name', name=q, value=obj, node=node, module=module)
        if kind == 'value':
            mod, nm = obj
            if mod.name.startswith('voluptuous'):
                vals = mod.assigns.get(nm, [])
                if len(vals) == 1 and isinstance(vals[0], ast.Constant):
                    return Term('const', value=vals[0].value, node=node, module=module, name='voluptuous.' + nm)
                if len(vals) == 1 and isinstance(vals[0], ast.Name):
                    k2, o2 = self.idx.resolve_name(mod, vals[0].id)
                    return self._from_resolution(k2, o2, node, module, vals[0].id)
                return Term('name', name='voluptuous.' + nm, node=node, module=module)
            val = self.module_value(mod, nm)
            if val is None:
                return Term('opaque', node=node, module=module, name=name)
            return val
        if kind == 'module':
            return Term('name', name=obj.name, node=node, module=module)
        if kind == 'builtin':
            if name == 'True' or name == 'False' or name == 'None':
                return Term('const', value={'True': True, 'False': False, 'None': None}[name], node=node, module=module)
            return Term('name', name=name, node=node, module=module)
        return Term('name', name=obj if isinstance(obj, str) else name, node=node, module=module)

    # -------------------------------------------------------------------- eval
    def eval(self, node, scope):
        if scope.depth > MAX_DEPTH:
            raise Unsupported('evaluation too deep')
        m = getattr(self, '_e_' + type(node).__name__, None)
        if m is None:
            return Term('opaque', node=node, module=scope.module)
        return m(node, scope)

    def _e_Constant(self, node, scope):
        return Term('const', value=node.value, node=node, module=scope.module)

    def _e_JoinedStr(self, node, scope):
        return Term('opaque', node=node, module=scope.module)

    def _e_Name(self, node, scope):
        if node.id in scope.env:
            return scope.env[node.id]
        if scope.class_ns is not None and node.id in scope.class_ns.attrs:
            return self.class_attr(scope.class_ns, node.id)
        return self._resolve_global(node.id, scope, node)

    def _e_Tuple(self, node, scope):
        return Term('tuple', args=self._elts(node.elts, scope), node=node, module=scope.module)

    def _e_List(self, node, scope):
        return Term('list', args=self._elts(node.elts, scope), node=node, module=scope.module)

    def _e_Set(self, node, scope):
        return Term('set', args=self._elts(node.elts, scope), node=node, module=scope.module)

    def _elts(self, elts, scope):
        out = []
        for e in elts:
            if isinstance(e, ast.Starred):
                v = self.eval(e.value, scope)
                if v.kind in ('tuple', 'list'):
                    out.extend(v.args)
                else:
                    out.append(Term('opaque', node=e, module=scope.module))
            else:
                out.append(self.eval(e, scope))
        return out

    def _e_Dict(self, node, scope):
        items = []
        for k, v in zip(node.keys, node.values):
            if k is None:
                inner = self.eval(v, scope)
                if inner.kind == 'dict':
                    items.extend(inner.items)
                else:
                    raise Unsupported('dict unpacking of a non-table')
                continue
            kt = self.eval(k, scope)
            vt = self.eval(v, scope)
            items.append((kt, vt))
        return Term('dict', items=items, node=node, module=scope.module)

    def _e_DictComp(self, node, scope):
        if len(node.generators) != 1:
            raise Unsupported('nested dict comprehension')
        g = node.generators[0]
        if g.ifs:
            raise Unsupported('filtered dict comprehension')
        # iteration space: keys of a table, (key, value) pairs of table.items(), or a display of elements / pairs
        it = g.iter
        elems = None
        if isinstance(it, ast.Call) and isinstance(it.func, ast.Attribute) and it.func.attr in ('items', 'keys', 'values') \
                and not it.args and not it.keywords:
            src = self.eval(it.func.value, scope)
            if src.kind != 'dict':
                raise Unsupported('comprehension over a non-table')
            if it.func.attr == 'items':
                elems = [Term('tuple', args=[k, v], node=k.node, module=k.module) for k, v in src.items]
            elif it.func.attr == 'keys':
                elems = [k for k, _ in src.items]
            else:
                elems = [v for _, v in src.items]
        else:
            src = self.eval(it, scope)
            elems = self.iter_elems(src)
            if elems is None:
                raise Unsupported('comprehension over a non-table')
        items = []
        for e in elems:
            inner = scope.child()
            if isinstance(g.target, ast.Name):
                inner.env[g.target.id] = e
            elif not self._bind_target(g.target, e, inner.env):
                raise Unsupported('comprehension target not supported')
            kt = self.eval(node.key, inner)
            vt = self.eval(node.value, inner)
            if kt.kind == 'const':
                kt = Term('const', value=kt.value, node=kt.node if kt.node is not None else e.node, module=kt.module or e.module)
            items.append((kt, vt))
        return Term('dict', items=items, node=node, module=scope.module)

    def _comp_elems(self, node, scope):
        """Element terms of a list / set comprehension or generator expression over finite literal iterables."""
        out = []

        def rec(gi, sc):
            if gi == len(node.generators):
                out.append(self.eval(node.elt, sc))
                return
            g = node.generators[gi]
            elems = self.iter_elems(self.eval(g.iter, sc))
            if elems is None:
                raise Unsupported('comprehension over a non-literal iterable')
            if len(elems) * max(1, len(out)) > 20000:
                raise Unsupported('comprehension too large')
            for e in elems:
                inner = sc.child()
                if not self._bind_target(g.target, e, inner.env):
                    raise Unsupported('comprehension target not supported')
                keep = True
                for c in g.ifs:
                    t = self.eval(c, inner)
                    if t.kind != 'const':
                        raise Unsupported('undecidable comprehension filter')
                    if not t.value:
                        keep = False
                        break
                if keep:
                    rec(gi + 1, inner)
        rec(0, scope)
        return out

    def _e_ListComp(self, node, scope):
        return Term('list', args=self._comp_elems(node, scope), node=node, module=scope.module)

    def _e_GeneratorExp(self, node, scope):
        return Term('list', args=self._comp_elems(node, scope), node=node, module=scope.module)

    def _e_SetComp(self, node, scope):
        return Term('set', args=self._comp_elems(node, scope), node=node, module=scope.module)

    def _e_Lambda(self, node, scope):
        return Term('lambda', node=node, module=scope.module)

    def _e_UnaryOp(self, node, scope):
        v = self.eval(node.operand, scope)
        if v.kind == 'const' and isinstance(v.value, (int, float, complex)) and not isinstance(v.value, bool):
            if isinstance(node.op, ast.USub):
                return Term('const', value=-v.value, node=node, module=scope.module)
            if isinstance(node.op, ast.UAdd):
                return Term('const', value=v.value, node=node, module=scope.module)
        if v.kind == 'const' and isinstance(node.op, ast.Not):
            return Term('const', value=not v.value, node=node, module=scope.module)
        return Term('opaque', node=node, module=scope.module)

    def _e_BinOp(self, node, scope):
        a, b = self.eval(node.left, scope), self.eval(node.right, scope)
        if a.kind == 'const' and b.kind == 'const':
            x, y = a.value, b.value
            num = lambda v: isinstance(v, (int, float, complex)) and not isinstance(v, bool)
            try:
                if num(x) and num(y):
                    op = type(node.op)
                    val = {ast.Add: lambda: x + y, ast.Sub: lambda: x - y, ast.Mult: lambda: x * y,
                           ast.Div: lambda: x / y, ast.Pow: lambda: x ** y, ast.FloorDiv: lambda: x // y,
                           ast.Mod: lambda: x % y}.get(op)
                    if val is not None:
                        return Term('const', value=val(), node=node, module=scope.module)
                if isinstance(x, str) and isinstance(y, str) and isinstance(node.op, ast.Add):
                    return Term('const', value=x + y, node=node, module=scope.module)
                if isinstance(x, str) and isinstance(y, int) and isinstance(node.op, ast.Mult):
                    return Term('const', value=x * y, node=node, module=scope.module)
                if isinstance(x, str) and isinstance(node.op, ast.Mod) and isinstance(y, (int, float, str, tuple)):
                    return Term('const', value=x % y, node=node, module=scope.module)
            except (ZeroDivisionError, OverflowError, ValueError):
                pass
        if a.kind in ('list', 'tuple') and b.kind == a.kind and isinstance(node.op, ast.Add):
            return Term(a.kind, args=a.args + b.args, node=node, module=scope.module)
        return Term('opaque', node=node, module=scope.module)

    def _e_Compare(self, node, scope):
        if len(node.ops) != 1:
            return Term('opaque', node=node, module=scope.module)
        a, b = self.eval(node.left, scope), self.eval(node.comparators[0], scope)
        op = node.ops[0]
        res = None
        if isinstance(op, (ast.Eq, ast.NotEq, ast.Is, ast.IsNot)):
            same = None
            if a.kind == 'const' and b.kind == 'const':
                same = (a.value is b.value) if isinstance(op, (ast.Is, ast.IsNot)) and (a.value is None or b.value is None) \
                    else values_equal(a.value, b.value)
            elif a.kind in ('name', 'func') and b.kind in ('name', 'func'):
                same = a.name == b.name
            elif {a.kind, b.kind} <= {'const', 'name', 'func'}:
                same = False
            if same is not None:
                res = same if isinstance(op, (ast.Eq, ast.Is)) else not same
        if res is None:
            return Term('opaque', node=node, module=scope.module)
        return Term('const', value=res, node=node, module=scope.module)

    def _e_IfExp(self, node, scope):
        t = self.eval(node.test, scope)
        if t.kind == 'const':
            return self.eval(node.body if t.value else node.orelse, scope)
        return Term('opaque', node=node, module=scope.module)

    def _e_Subscript(self, node, scope):
        base = self.eval(node.value, scope)
        key = self.eval(node.slice, scope)
        if base.kind == 'dict' and key.kind == 'const':
            v = base.get(key.value)
            if v is not None:
                return v
            raise Unsupported('key %r not in table' % (key.value,))
        if base.kind in ('list', 'tuple') and key.kind == 'const' and isinstance(key.value, int):
            try:
                return base.args[key.value]
            except IndexError:
                raise Unsupported('index out of range')
        return Term('opaque', node=node, module=scope.module)

    def _e_Attribute(self, node, scope):
        # self.X
        if isinstance(node.value, ast.Name) and node.value.id == 'self' and 'self' not in scope.env \
                and scope.self_cls is not None:
            return self.self_attr(scope.self_cls, node.attr, node, scope)
        # super(K, self).X
        if isinstance(node.value, ast.Call) and isinstance(node.value.func, ast.Name) and node.value.func.id == 'super':
            if scope.self_cls is None or scope.owner is None:
                raise Unsupported('super() outside a class')
            after = scope.owner
            if node.value.args:
                kind, obj = self.idx.resolve_name(scope.module, node.value.args[0].id) \
                    if isinstance(node.value.args[0], ast.Name) else (None, None)
                if kind != 'class':
                    raise Unsupported('super() with an unresolved class')
                after = obj
            return self.self_attr(scope.self_cls, node.attr, node, scope, after=after.qualname)
        # dotted externals (np.pi, np.lib.scimath.sqrt) and Class.attr
        base = self.eval(node.value, scope)
        if node.attr == '__name__' and base.kind in ('name', 'func') and base.name:
            return Term('const', value=base.name.split('.')[-1], node=node, module=scope.module)
        if base.kind == 'name':
            ci = base.value if hasattr(base.value, 'mro') else None
            if ci is not None and not ci.qualname.startswith('voluptuous.'):
                return self.class_member(ci, node.attr, node, scope)
            dotted = base.name + '.' + node.attr
            const = NUMPY_CONSTANTS.get(dotted)
            if const is not None:
                return Term('const', value=const, node=node, module=scope.module, name=dotted)
            kind, obj = self.idx.resolve_dotted(dotted)
            if kind != 'external':
                return self._from_resolution(kind, obj, node, scope.module, node.attr)
            return Term('name', name=dotted, node=node, module=scope.module)
        if base.kind == 'schema' and node.attr == 'schema':
            return base
        return Term('opaque', node=node, module=scope.module)

    # ------------------------------------------------------------------- calls
    def _e_Call(self, node, scope):
        func = node.func
        # method calls on evaluated receivers: .extend / .copy
        if isinstance(func, ast.Attribute) and func.attr in ('items', 'keys', 'values') and not node.args and not node.keywords:
            recv = self.eval(func.value, scope)
            if recv.kind == 'dict':
                if func.attr == 'items':
                    elems = [Term('tuple', args=[k, v], node=k.node, module=k.module) for k, v in recv.items]
                elif func.attr == 'keys':
                    elems = [k for k, _ in recv.items]
                else:
                    elems = [v for _, v in recv.items]
                return Term('list', args=elems, node=node, module=scope.module)
        if isinstance(func, ast.Attribute) and func.attr in ('extend', 'copy', 'update'):
            recv = self.eval(func.value, scope)
            if func.attr == 'copy' and not node.args and recv.kind in ('dict', 'list', 'schema'):
                return recv
            if func.attr == 'extend' and recv.kind == 'schema':
                if len(node.args) != 1:
                    raise Unsupported('Schema.extend with %d positional arguments' % len(node.args))
                arg = self.eval(node.args[0], scope)
                more = self.as_schema(arg, scope)
                if more is None or not more.is_dict:
                    raise Unsupported('Schema.extend with a non-dict argument')
                extra_kw = None
                for kw in node.keywords:
                    if kw.arg == 'extra':
                        extra_kw = self.eval(kw.value, scope)
                owner = scope.owner.qualname if scope.owner is not None else None
                tab = recv.value.extend(more, owner, extra_kw, node, scope.module)
                return Term('schema', value=tab, node=node, module=scope.module)
        if isinstance(func, ast.Attribute) and func.attr == 'format' and not any(k.arg is None for k in node.keywords):
            recv = self.eval(func.value, scope)
            if recv.kind == 'const' and isinstance(recv.value, str):
                fa = self._elts(node.args, scope)
                fk = {k.arg: self.eval(k.value, scope) for k in node.keywords}
                if all(a.kind == 'const' for a in fa) and all(v.kind == 'const' for v in fk.values()):
                    try:
                        return Term('const', value=recv.value.format(*[a.value for a in fa], **{k: v.value for k, v in fk.items()}),
                                    node=node, module=scope.module)
                    except (IndexError, KeyError, ValueError, TypeError):
                        pass
        callee = self.eval(func, scope)
        args = self._elts(node.args, scope)
        kwargs = {}
        for kw in node.keywords:
            if kw.arg is None:
                raise Unsupported('**kwargs in a declarative call')
            kwargs[kw.arg] = self.eval(kw.value, scope)
        return self.apply(callee, args, kwargs, node, scope)

    def apply(self, callee, args, kwargs, node, scope):
        module = scope.module
        if callee.kind == 'name':
            short_ = _short_name(callee.name)
            # literal constructors
            if callee.name in ('tuple', 'list', 'dict', 'set') and not args and not kwargs:
                return {'tuple': Term('tuple', node=node, module=module), 'list': Term('list', node=node, module=module),
                        'dict': Term('dict', node=node, module=module), 'set': Term('set', node=node, module=module)}[callee.name]
            if callee.name in ('tuple', 'list') and len(args) == 1 and args[0].kind in ('tuple', 'list'):
                return Term(callee.name, args=list(args[0].args), node=node, module=module)
            if callee.name in ('zip', 'enumerate', 'range', 'dict', 'list', 'tuple', 'sorted', 'reversed', 'int', 'str', 'len') and not (
                    callee.name in ('list', 'tuple', 'dict') and not args and not kwargs):
                res = self._fold_builtin(callee.name, args, kwargs, node, module)
                if res is not None:
                    return res
            if callee.name == 'float' and len(args) == 1 and args[0].kind == 'const' and isinstance(args[0].value, str):
                try:
                    return Term('const', value=float(args[0].value), node=node, module=module)
                except ValueError:
                    pass
            if callee.name == 'float' and len(args) == 1 and args[0].kind == 'const':
                v = args[0].value
                if isinstance(v, str) and v.strip().lower().lstrip('+-') in ('inf', 'infinity'):
                    return Term('const', value=-INF if v.strip().startswith('-') else INF, node=node, module=module)
                if isinstance(v, (int, float)) and not isinstance(v, bool):
                    return Term('const', value=float(v), node=node, module=module)
            if callee.name == 'complex' and 1 <= len(args) <= 2 and all(a.kind == 'const' for a in args):
                try:
                    return Term('const', value=complex(*[a.value for a in args]), node=node, module=module)
                except (TypeError, ValueError):
                    pass
            if callee.name == 'getattr' and len(args) == 2 and not kwargs and args[1].kind == 'const' and isinstance(args[1].value, str) \
                    and args[0].kind in ('name', 'func'):
                if args[1].value == '__name__':
                    return Term('const', value=args[0].name.split('.')[-1], node=node, module=module)
                if args[0].kind == 'name':
                    dotted = args[0].name + '.' + args[1].value
                    const = NUMPY_CONSTANTS.get(dotted)
                    if const is not None:
                        return Term('const', value=const, node=node, module=module, name=dotted)
                    kind, obj = self.idx.resolve_dotted(dotted)
                    if kind != 'external':
                        return self._from_resolution(kind, obj, node, module, args[1].value)
                    return Term('name', name=dotted, node=node, module=module)
            if callee.name == 'dict.fromkeys' and 1 <= len(args) <= 2 and not kwargs:
                keys = self.iter_elems(args[0])
                if keys is not None:
                    val = args[1] if len(args) == 2 else Term('const', value=None, node=node, module=module)
                    return Term('dict', items=[(k, val) for k in keys], node=node, module=module)
            if callee.name == 'voluptuous.Schema':
                return self._make_schema(args, kwargs, node, scope)
            return Term('call', name=short_, callee=callee, args=args, kwargs=kwargs, node=node, module=module)
        if callee.kind == 'func':
            fi = callee.value
            model = MODELS.get(fi.qualname)
            if model is not None:
                res = model(self, fi, args, kwargs, node, scope)
                if res is not None:
                    return res
            try:
                res = self.inline(fi, args, kwargs, scope)
                res_origin = (fi.name, [a.text() for a in args] + ['%s=%s' % kv for kv in
                                                                 sorted((k, v.text()) for k, v in kwargs.items())])
                if res.kind == 'closure':
                    return Term('call', name=fi.name, callee=callee, args=args, kwargs=kwargs, node=node, module=module,
                                value=res, origin=res_origin)
                if res.origin is None:
                    res.origin = res_origin
                return res
            except Unsupported:
                return Term('call', name=fi.name, callee=callee, args=args, kwargs=kwargs, node=node, module=module)
        if callee.kind in ('call', 'closure', 'lambda', 'selfattr', 'opaque', 'const', 'schema'):
            return Term('call', name=callee.text(), callee=callee, args=args, kwargs=kwargs, node=node, module=module)
        return Term('opaque', node=node, module=module)

    def _fold_builtin(self, name, args, kwargs, node, module):
        """Closed constant computations over literals: zip / enumerate / range / dict(pairs) / list / tuple / sorted /
        reversed / int / str / len.  None when the arguments are not finite literal data."""
        mk = lambda kind, elems: Term(kind, args=list(elems), node=node, module=module)
        seqs = [self.iter_elems(a) for a in args]
        if name == 'zip' and not kwargs and args and all(x is not None for x in seqs):
            return mk('list', [mk('tuple', row) for row in zip(*seqs)])
        if name == 'enumerate' and 1 <= len(args) <= 2 and seqs[0] is not None:
            start = kwargs.get('start', args[1] if len(args) == 2 else None)
            if start is None:
                s0 = 0
            elif start.kind == 'const' and isinstance(start.value, int) and not isinstance(start.value, bool):
                s0 = start.value
            else:
                return None
            return mk('list', [mk('tuple', [Term('const', value=s0 + i, node=node, module=module), e]) for i, e in enumerate(seqs[0])])
        if name == 'range' and not kwargs and 1 <= len(args) <= 3 and all(
                a.kind == 'const' and isinstance(a.value, int) and not isinstance(a.value, bool) for a in args):
            try:
                rg = range(*[a.value for a in args])
            except ValueError:
                return None
            if len(rg) > 5000:
                return None
            return mk('list', [Term('const', value=i, node=node, module=module) for i in rg])
        if name == 'dict' and len(args) <= 1:
            items = []
            if args:
                if args[0].kind == 'dict':
                    items = list(args[0].items)
                elif seqs[0] is not None:
                    for e in seqs[0]:
                        pair = self.iter_elems(e)
                        if pair is None or len(pair) != 2:
                            return None
                        items.append((pair[0], pair[1]))
                else:
                    return None
            for k, v in kwargs.items():
                items.append((Term('const', value=k, node=node, module=module), v))
            out = []
            for k, v in items:
                out = [(k2, v2) for k2, v2 in out if not (k2.kind == 'const' and k.kind == 'const' and k2.value == k.value)]
                out.append((k, v))
            return Term('dict', items=out, node=node, module=module)
        if name in ('list', 'tuple') and len(args) == 1 and not kwargs and seqs[0] is not None:
            return mk(name, seqs[0])
        if name == 'reversed' and len(args) == 1 and seqs[0] is not None:
            return mk('list', reversed(seqs[0]))
        if name == 'sorted' and len(args) == 1 and not kwargs and seqs[0] is not None and all(e.kind == 'const' for e in seqs[0]):
            try:
                return mk('list', sorted(seqs[0], key=lambda e: e.value))
            except TypeError:
                return None
        if name == 'len' and len(args) == 1 and seqs[0] is not None:
            return Term('const', value=len(seqs[0]), node=node, module=module)
        if name in ('int', 'str') and len(args) == 1 and not kwargs and args[0].kind == 'const' and \
                isinstance(args[0].value, (int, float, str)) and not isinstance(args[0].value, bool):
            try:
                return Term('const', value={'int': int, 'str': str}[name](args[0].value), node=node, module=module)
            except (ValueError, OverflowError):
                return None
        return None

    def _make_schema(self, args, kwargs, node, scope):
        if not args:
            raise Unsupported('Schema() without a schema')
        tab = self.as_schema(args[0], scope, node=node)
        if tab is None:
            tab = SchemaTable(node, scope.module)
            tab.other = args[0]
        else:
            # re-wrapping keeps the table; do not mutate a shared one
            tab = tab.extend(SchemaTable())
            tab.node, tab.module = node, scope.module
        if 'extra' in kwargs:
            tab.extra_kw = kwargs['extra']
            tab.extra_sites.append((kwargs['extra'], scope.module, node))
        elif len(args) >= 3:
            tab.extra_kw = args[2]
            tab.extra_sites.append((args[2], scope.module, node))
        if 'required' in kwargs:
            tab.required_kw = kwargs['required']
        elif len(args) >= 2:
            tab.required_kw = args[1]
        if scope.owner is not None:
            tab.stamp(scope.owner.qualname)
        return Term('schema', value=tab, node=node, module=scope.module)

    def as_schema(self, t, scope=None, node=None):
        """SchemaTable for a term that denotes a dict schema (dict display, Schema(...),
        or Any({...}, alternative) whose first dict alternative is the table); None otherwise."""
        if t.kind == 'schema':
            return t.value
        if t.kind == 'dict':
            return self._table_of_dict(t)
        if t.kind == 'call' and t.name == 'Any':
            dicts = [a for a in t.args if a.kind in ('dict', 'schema')]
            if len(dicts) == 1:
                tab = self.as_schema(dicts[0], scope)
                tab = tab.extend(SchemaTable())
                tab.alternatives = [a for a in t.args if a is not dicts[0]]
                return tab
        return None

    def _table_of_dict(self, t):
        tab = SchemaTable(t.node, t.module)
        for k, v in t.items:
            sub = None
            if v.kind == 'dict':
                sub = self._table_of_dict(v)
                v = Term('schema', value=sub, node=v.node, module=v.module)
            if k.kind == 'call' and k.name in MARKERS:
                keyt = k.args[0] if k.args else None
                key = keyt.value if keyt is not None and keyt.kind == 'const' else (keyt.text() if keyt is not None else '?')
                default = k.kwargs.get('default')
                if default is None and len(k.args) >= 3:
                    default = k.args[2]
                o = Opt(key, k.name, default is not None, default, v, k.node, k.module or t.module, keyt)
                tab.opts[key] = o
            elif k.kind == 'name' and _short_name(k.name) in ('Extra', 'extra'):
                tab.extras.append(Opt('<Extra>', 'Extra', False, None, v, k.node, k.module or t.module, k))
            elif k.kind == 'const':
                tab.opts[k.value] = Opt(k.value, 'plain', False, None, v, k.node, k.module or t.module, k)
            else:
                key = k.text()
                tab.opts[key] = Opt(key, 'computed', False, None, v, k.node, k.module or t.module, k)
            if sub is not None:
                tab.extra_sites.extend(sub.extra_sites)
        return tab

    # ------------------------------------------------------------- inlining
    def inline(self, fi, args, kwargs, scope):
        """Value returned by a straight-line helper of the package for the given argument terms."""
        fn = fi.node
        a = fn.args
        if a.kwarg is not None or a.kwonlyargs:
            raise Unsupported('helper with **kwargs / keyword-only parameters')
        params = [x.arg for x in a.posonlyargs + a.args]
        env = {}
        pos = list(args)
        if a.vararg is None and len(pos) > len(params):
            raise Unsupported('too many arguments')
        for name, val in zip(params, pos):
            env[name] = val
        if a.vararg is not None:
            env[a.vararg.arg] = Term('tuple', args=pos[len(params):], node=fn, module=fi.module)
        for k, v in kwargs.items():
            if k not in params or k in env:
                raise Unsupported('unexpected keyword %s' % k)
            env[k] = v
        defaults = a.defaults
        inner = Scope(fi.module, depth=scope.depth + 1)
        for name, dnode in zip(params[len(params) - len(defaults):], defaults):
            if name not in env:
                env[name] = self.eval(dnode, inner)
        for name in params:
            if name not in env:
                raise Unsupported('missing argument %s' % name)
        inner.env = env
        res = self.run_body(fn.body, inner)
        if res is None:
            raise Unsupported('helper does not return a value')
        self.inlined.add(fi.qualname)
        return res

    def run_body(self, stmts, scope):
        """Evaluate a straight-line body; returns the returned Term (None when it falls through)."""
        for s in stmts:
            if isinstance(s, ast.Expr) and isinstance(s.value, ast.Constant):
                continue
            if isinstance(s, ast.Pass):
                continue
            if isinstance(s, ast.Return):
                if s.value is None:
                    raise Unsupported('bare return')
                return self.eval(s.value, scope)
            if isinstance(s, ast.Assign) and len(s.targets) == 1 and isinstance(s.targets[0], ast.Name):
                scope.env[s.targets[0].id] = self.eval(s.value, scope)
                continue
            if isinstance(s, (ast.FunctionDef,)):
                scope.env[s.name] = Term('closure', node=s, module=scope.module, name=s.name)
                continue
            if isinstance(s, ast.If):
                t = self.eval(s.test, scope)
                if t.kind != 'const':
                    raise Unsupported('undecidable branch `%s`' % short(s.test))
                res = self.run_body(s.body if t.value else s.orelse, scope)
                if res is not None:
                    return res
                continue
            if isinstance(s, (ast.For, ast.Delete)) or (isinstance(s, ast.Expr) and isinstance(s.value, ast.Call)
                                                        and isinstance(s.value.func, ast.Attribute)
                                                        and isinstance(s.value.func.value, ast.Name)
                                                        and s.value.func.value.id in scope.env) or \
                    (isinstance(s, ast.Assign) and len(s.targets) == 1 and isinstance(s.targets[0], ast.Subscript)
                     and isinstance(s.targets[0].value, ast.Name) and s.targets[0].value.id in scope.env):
                # table-building statements on local tables (result.update(...), result[k] = v, generating loops):
                # same semantics as at module level; what cannot be folded turns the local opaque
                if any(isinstance(n, ast.Return) for n in ast.walk(s)):
                    raise Unsupported('return inside a loop')
                self._run_toplevel([s], scope)
                continue
            raise Unsupported('statement `%s` outside the declarative subset' % short(s, 60))
        return None

    # -------------------------------------------------------------- classes
    def class_attr(self, ci, name):
        """Term of the class-level binding `name` of class ci (own body only)."""
        key = (ci.qualname, name)
        if key in self._class_attr:
            return self._class_attr[key]
        node = ci.attrs[name]
        self._class_attr[key] = Term('opaque', node=node, module=ci.module)   # cycle guard
        scope = Scope(ci.module, self_cls=None, owner=ci, class_ns=ci)
        try:
            val = self.eval(node, scope)
        except Unsupported as e:
            self.notes.append('%s.%s not evaluated: %s' % (ci.qualname, name, e))
            val = Term('opaque', node=node, module=ci.module)
        self._class_attr[key] = val
        return val

    def class_member(self, ci, attr, node, scope):
        """`Class.attr` -- a class-level table / schema, or a method reference."""
        k, valnode = self.idx.lookup_attr(ci, attr)
        meth = self.idx.lookup(ci, attr)
        # nearest definition along the MRO wins
        for q in ci.mro:
            c = self.idx.classes.get(q)
            if c is None:
                continue
            if attr in c.attrs:
                return self.class_attr(c, attr)
            if attr in c.methods:
                f = c.methods[attr]
                if f.is_property and attr == 'schema_config':
                    return self.schema_term_of_class(ci)
                return Term('func', name=f.qualname, value=f, node=node, module=scope.module)
        return Term('opaque', node=node, module=scope.module)

    def self_attr(self, self_cls, attr, node, scope, after=None):
        """`self.attr` / `super(K, self).attr` for an instance of self_cls."""
        mro = self_cls.mro
        start = 0
        if after is not None:
            if after not in mro:
                raise Unsupported('super() owner not in the MRO')
            start = mro.index(after) + 1
        for q in mro[start:]:
            c = self.idx.classes.get(q)
            if c is None:
                continue
            if attr in c.attrs:
                if attr == 'schema_config':
                    return self._schema_from(c, self_cls)
                return self.class_attr(c, attr)
            if attr in c.methods:
                f = c.methods[attr]
                if attr == 'schema_config':
                    return self._schema_from(c, self_cls)
                if f.is_property:
                    sc = Scope(c.module, self_cls=self_cls, owner=c, depth=scope.depth + 1)
                    try:
                        res = self.run_body(f.node.body, sc)
                    except Unsupported:
                        res = None
                    if res is not None:
                        return res
                return Term('selfattr', name=attr, node=node, module=scope.module, value=f)
        return Term('selfattr', name=attr, node=node, module=scope.module)

    def _schema_from(self, c, self_cls):
        """Schema term defined by class c (property body or class attribute), for an instance of self_cls."""
        if 'schema_config' in c.attrs and 'schema_config' not in c.methods:
            val = self.class_attr(c, 'schema_config')
            if val.kind != 'schema':
                tab = self.as_schema(val)
                if tab is None:
                    raise Unsupported('%s.schema_config is not a schema term' % c.qualname)
                val = Term('schema', value=tab, node=val.node, module=val.module)
            if any(o.declared_by is None for o in val.value.opts.values()):
                tab = val.value.extend(SchemaTable())
                for o in tab.opts.values():
                    if o.declared_by is None:
                        o.declared_by = c.qualname
                val = Term('schema', value=tab, node=val.node, module=val.module)
            return val
        f = c.methods['schema_config']
        sc = Scope(c.module, self_cls=self_cls, owner=c)
        res = self.run_body(f.node.body, sc)
        if res is None:
            return Term('const', value=None, node=f.node, module=c.module, name='<abstract schema_config>')
        if res.kind != 'schema':
            tab = self.as_schema(res)
            if tab is None:
                raise Unsupported('%s.schema_config does not return a schema term' % c.qualname)
            res = Term('schema', value=tab, node=res.node, module=res.module)
        return res

    def schema_term_of_class(self, ci):
        if ci.qualname in self._class_schema:
            return self._class_schema[ci.qualname]
        self._class_schema[ci.qualname] = Term('opaque', node=ci.node, module=ci.module)   # cycle guard
        res = None
        for q in ci.mro:
            c = self.idx.classes.get(q)
            if c is None:
                continue
            if 'schema_config' in c.attrs or 'schema_config' in c.methods:
                res = self._schema_from(c, ci)
                break
        if res is None:
            res = Term('const', value=None, node=ci.node, module=ci.module, name='<no schema_config>')
        self._class_schema[ci.qualname] = res
        return res

    def class_schema(self, ci):
        """SchemaTable of class ci, None for abstract classes (schema_config without a body).
        Raises AnalysisError when the schema code is outside the declarative subset."""
        try:
            t = self.schema_term_of_class(ci)
        except Unsupported as e:
            raise AnalysisError('schema of %s not extractable: %s' % (ci.qualname, e))
        if t.kind == 'schema':
            return t.value
        if t.kind == 'const' and t.value is None:
            return None
        raise AnalysisError('schema of %s is not a schema term: %s' % (ci.qualname, t.text()[:80]))


NUMPY_CONSTANTS = {'numpy.pi': math.pi, 'numpy.e': math.e, 'numpy.inf': INF, 'numpy.Inf': INF, 'numpy.infty': INF,
                   'math.pi': math.pi, 'math.e': math.e, 'math.inf': INF, 'numpy.euler_gamma': 0.5772156649015329}


def _model_merge_dicts(ev, fi, args, kwargs, node, scope):
    """merge_dicts(*tables): later tables override earlier ones (body shape is verified by
    `merge_dicts_is_plain_merge`, which C15 turns into an obligation)."""
    if kwargs or not all(a.kind == 'dict' for a in args):
        return None
    items = []
    for a in args:
        for k, v in a.items:
            items = [(k2, v2) for k2, v2 in items if not (k2.kind == 'const' and k.kind == 'const' and k2.value == k.value)]
            items.append((k, v))
    return Term('dict', items=items, node=node, module=scope.module)


MODELS = {'mitxgraders.helpers.calc.mathfuncs.merge_dicts': _model_merge_dicts}


def merge_dicts_is_plain_merge(index):
    """True iff mathfuncs.merge_dicts still is `target = {}; for s in sources: target.update(s); return target`."""
    from . import nf
    fi = index.func('mitxgraders.helpers.calc.mathfuncs.merge_dicts')
    body = [s for s in fi.node.body if not (isinstance(s, ast.Expr) and isinstance(s.value, ast.Constant))]
    body = [s for s in body if not (isinstance(s, ast.Assign) and isinstance(s.targets[0], ast.Name)
                                    and s.targets[0].id.startswith('_sa_'))]
    if fi.node.args.vararg is None or fi.node.args.args:
        return False
    if len(body) != 3:
        return False
    init, loop, ret = body
    if not (isinstance(init, ast.Assign) and len(init.targets) == 1 and isinstance(init.targets[0], ast.Name)):
        return False
    acc = init.targets[0].id
    empty = (isinstance(init.value, ast.Dict) and not init.value.keys) or \
            (isinstance(init.value, ast.Call) and isinstance(init.value.func, ast.Name) and init.value.func.id == 'dict'
             and not init.value.args and not init.value.keywords)
    if not empty:
        return False
    if not (isinstance(loop, ast.For) and isinstance(loop.target, ast.Name) and isinstance(loop.iter, ast.Name)
            and loop.iter.id == fi.node.args.vararg.arg and not loop.orelse and len(loop.body) == 1):
        return False
    st = loop.body[0]
    ok = isinstance(st, ast.Expr) and nf.match('%s.update(%s)' % (acc, loop.target.id), st.value) is not None
    if not ok:
        return False
    return isinstance(ret, ast.Return) and isinstance(ret.value, ast.Name) and ret.value.id == acc


# ==================================================================== literal parsing
_LIT_ENV = {'pi': math.pi, 'inf': INF, 'None': None, 'True': True, 'False': False}


def _fold_literal(node):
    if isinstance(node, ast.Constant):
        return node.value
    if isinstance(node, ast.Name):
        if node.id in _LIT_ENV:
            return _LIT_ENV[node.id]
        raise ValueError(node.id)
    if isinstance(node, ast.Tuple):
        return tuple(_fold_literal(e) for e in node.elts)
    if isinstance(node, ast.List):
        return [_fold_literal(e) for e in node.elts]
    if isinstance(node, ast.Set):
        return set(_fold_literal(e) for e in node.elts)
    if isinstance(node, ast.Dict):
        return {_fold_literal(k): _fold_literal(v) for k, v in zip(node.keys, node.values)}
    if isinstance(node, ast.UnaryOp) and isinstance(node.op, (ast.USub, ast.UAdd)):
        v = _fold_literal(node.operand)
        if isinstance(v, (int, float, complex)) and not isinstance(v, bool):
            return -v if isinstance(node.op, ast.USub) else v
        raise ValueError('sign')
    if isinstance(node, ast.BinOp):
        a, b = _fold_literal(node.left), _fold_literal(node.right)
        num = lambda v: isinstance(v, (int, float, complex)) and not isinstance(v, bool)
        if num(a) and num(b):
            if isinstance(node.op, ast.Add):
                return a + b
            if isinstance(node.op, ast.Sub):
                return a - b
            if isinstance(node.op, ast.Mult):
                return a * b
            if isinstance(node.op, ast.Div):
                return a / b
            if isinstance(node.op, ast.Pow):
                return a ** b
        raise ValueError('binop')
    if isinstance(node, ast.Call) and isinstance(node.func, ast.Name) and node.func.id in ('tuple', 'list', 'dict') \
            and not node.args and not node.keywords:
        return {'tuple': (), 'list': [], 'dict': {}}[node.func.id]
    raise ValueError(type(node).__name__)


NOLIT = Sym('<not a literal>')

_OPEN = {'(': ')', '[': ']', '{': '}'}


def scan_literal(text, pos=0):
    """Source text of the Python literal that starts at text[pos] (after optional blanks / back-ticks):
    a quoted string (may span lines), a balanced bracket group, or a bare token (number / name /
    arithmetic such as pi/2 or a call such as RealInterval([1, 5])).  Returns (literal text, end) or (None, pos)."""
    n = len(text)
    i = pos
    while i < n and text[i] in ' \t\r\n`':
        i += 1
    if i >= n:
        return None, pos
    c = text[i]
    if c in '"\'':
        j = i + 1
        while j < n:
            if text[j] == '\\':
                j += 2
                continue
            if text[j] == c:
                return text[i:j + 1], j + 1
            j += 1
        return None, pos
    if c in _OPEN:
        j = _balanced(text, i)
        if j is None:
            return None, pos
        return text[i:j], j
    m = re.compile(r'[-+]?[A-Za-z0-9_.]+(?:[-+][0-9]+)?(?:/[A-Za-z0-9_.]+)?').match(text, i)
    if not m or m.end() == i:
        return None, pos
    j = m.end()
    tok = m.group(0)
    # a call such as NumericalGrader(tolerance=1e-13)
    if j < n and text[j] == '(' and re.match(r'[A-Za-z_][A-Za-z0-9_.]*$', tok):
        k = _balanced(text, j)
        if k is not None:
            return text[i:k], k
    # sentence punctuation after a bare token
    while tok.endswith('.') and not re.match(r'^[-+]?\d+\.$', tok):
        tok = tok[:-1]
        j -= 1
    if not tok:
        return None, pos
    return tok, j


def _balanced(text, i):
    stack = []
    j = i
    n = len(text)
    while j < n:
        ch = text[j]
        if ch in '"\'':
            k = j + 1
            while k < n and text[k] != ch:
                k += 2 if text[k] == '\\' else 1
            j = k + 1
            continue
        if ch in _OPEN:
            stack.append(_OPEN[ch])
        elif ch in ')]}':
            if not stack or stack[-1] != ch:
                return None
            stack.pop()
            if not stack:
                return j + 1
        j += 1
    return None


def parse_literal(src):
    """Python value of a literal written in documentation; Sym(text) when it is not a literal."""
    if src is None:
        return NOLIT
    s = src.strip().strip('`').strip()
    if not s:
        return NOLIT
    if s[0] in '"\'' and '\n' in s:
        s = s.replace('\r', '')
        s = re.sub(r'\s*\n\s*', ' ', s)
    try:
        tree = ast.parse(s, mode='eval')
        return _fold_literal(tree.body)
    except (SyntaxError, ValueError, TypeError, ZeroDivisionError, OverflowError, MemoryError):
        return Sym(s)


# ============================================================== class docstring options
class DocOpt(object):
    __slots__ = ('name', 'type_text', 'default_text', 'value', 'how', 'line', 'required', 'indent', 'parent', 'raw')

    def __init__(self, name, type_text, line, indent):
        self.name = name
        self.type_text = type_text
        self.default_text = None
        self.value = None
        self.how = None            # which phrase stated the default
        self.line = line           # 1-based line inside the docstring
        self.required = False
        self.indent = indent
        self.parent = None         # name of the enclosing option for nested keys
        self.raw = ''

    @property
    def has_default(self):
        return self.default_text is not None

    @property
    def is_literal(self):
        return self.has_default and is_literal(self.value)

    def __repr__(self):
        return 'DocOpt(%s default=%s via %s)' % (self.name, self.default_text, self.how)


_TYPE = r'(?:\((?P<type>(?:[^()\n]|\([^()\n]*\))*)\))'
_HEADER = re.compile(r'^(?P<indent>\s+)(?:[-*]\s+)?(?P<name>[A-Za-z_]\w*)\s*' + _TYPE + r'?\s*:(?!:)')
_HEADER_ML = re.compile(r'^(?P<indent>[ \t]+)(?:[-*][ \t]+)?(?P<name>[A-Za-z_]\w*)[ \t]*\((?P<type>(?:[^()]|\([^()\n]*\))*)\)[ \t]*:(?!:)', re.M)
_HEADER_NOCOLON = re.compile(r'^(?P<indent>\s+)(?:[-*]\s+)?(?P<name>[A-Za-z_]\w*)\s*\((?P<body>default[^)]*)\)\s*$')
_BULLET_DEFAULT_IS = re.compile(r'^(?P<indent>\s+)[-*]\s+default\s+(?P<name>[A-Za-z_]\w*)\s+is\s+')

# phrases that state a default, each followed by the literal
_PHRASES = [
    ('(default X)', re.compile(r'\(\s*default(?: changed to|s to| is|:)?\s+', re.I)),
    ('(default: X)', re.compile(r'\(\s*default:\s*', re.I)),
    ('defaults to X', re.compile(r'\bdefaults?\s+to\s+', re.I)),
    ('default is X', re.compile(r'\bdefault(?:\s+value)?\s+is:?\s+(?:the\s+(?:numeric|string|boolean)\s+value\s+)?', re.I)),
]
_POSTFIX = re.compile(r'(?P<lit>\'[^\'\n]*\'|"[^"\n]*"|[A-Za-z0-9_.+-]+)\s*\(\s*(?:the\s+)?default\s*\)')
_TUPLE_DEFAULT = re.compile(r'\(\s*(?P<lit>[A-Za-z0-9_.\'"+-]+)\s*,\s*default\s*\)')
_REQUIRED = re.compile(r'\(\s*(?:[^()]*,\s*)?required\b[^()]*\)|\bno default\b', re.I)
_DEFAULT_VALUE_OF = r'default value of\s+%s\s+is:?\s*%s\s*=\s*'


def parse_docstring_options(doc):
    """Option blocks of a class docstring -> (OrderedDict name -> DocOpt, stats).

    A block starts at a header line ``name (type): ...`` (optionally a ``-``/``*`` bullet) and runs
    until the next header or the next non-blank line that is not indented deeper than the header.
    The stated default is the last default phrase in the block (Appendix D.8).  Nested headers get
    `parent` = the enclosing option.  `stats` counts headers, defaults, and non-literal defaults."""
    opts = OrderedDict()
    stats = {'headers': 0, 'with_default': 0, 'non_literal': 0, 'required': 0}
    if not doc:
        return opts, stats
    lines = doc.expandtabs(4).split('\n')
    offsets = []
    pos = 0
    for ln in lines:
        offsets.append(pos)
        pos += len(ln) + 1
    text = '\n'.join(lines)
    headers = []
    multi = {}
    for m in _HEADER_ML.finditer(text):
        typ = m.group('type')
        if typ is None or '\n' not in typ or typ.count('\n') > 1:
            continue
        line_no = text.count('\n', 0, m.start('indent'))
        multi[line_no] = m
    open_indent = None        # indentation of the header whose block is currently open
    for i, ln in enumerate(lines):
        if ln.strip() and open_indent is not None and _raw_indent(ln) <= open_indent:
            open_indent = None
        m = _HEADER.match(ln)
        if m:
            headers.append((i, len(m.group('indent')) + (2 if ln.strip()[:1] in '-*' else 0), m.group('name'),
                            m.group('type'), m.end(), None))
            open_indent = _raw_indent(ln)
            continue
        if i in multi:
            m = multi[i]
            headers.append((i, len(m.group('indent')) + (2 if ln.strip()[:1] in '-*' else 0), m.group('name'),
                            ' '.join(m.group('type').split()), m.end() - offsets[i], None))
            open_indent = _raw_indent(ln)
            continue
        m = _HEADER_NOCOLON.match(ln)
        if m and open_indent is None:
            # `name (default: X)` on a line of its own, only outside the block of another option
            # (inside a block the same shape is ordinary continuation text)
            headers.append((i, len(m.group('indent')), m.group('name'), None, m.start('body') - 1, None))
            continue
        m = _BULLET_DEFAULT_IS.match(ln)
        if m:
            headers.append((i, len(m.group('indent')) + 2, m.group('name'), None, 0, m.end()))
    header_lines = {h[0] for h in headers}
    stack = []
    for (i, indent, name, type_text, body_col, direct) in headers:
        # block extent
        j = i + 1
        while j < len(lines):
            ln = lines[j]
            if j in header_lines:
                break
            if ln.strip() and (len(ln) - len(ln.lstrip())) <= _raw_indent(lines[i]):
                break
            j += 1
        start = offsets[i] + (body_col if direct is None else 0)
        end = offsets[j] if j < len(lines) else len(text)
        block = text[start:end]
        o = DocOpt(name, type_text, i + 1, indent)
        o.raw = block.strip()
        while stack and stack[-1][0] >= _raw_indent(lines[i]):
            stack.pop()
        if stack:
            o.parent = stack[-1][1]
        stack.append((_raw_indent(lines[i]), name))
        stats['headers'] += 1
        if direct is not None:
            lit, _ = scan_literal(text, offsets[i] + direct)
            if lit is not None:
                o.default_text, o.how = lit, 'default NAME is X'
        else:
            best = None
            for how, rx in _PHRASES:
                for m in rx.finditer(block):
                    lit, e = scan_literal(text, start + m.end())
                    if lit is None:
                        continue
                    if best is None or m.start() >= best[0]:
                        best = (m.start(), lit, how)
            for rx, how in ((_POSTFIX, 'X (default)'), (_TUPLE_DEFAULT, '(X, default)')):
                for m in rx.finditer(block):
                    if best is None or m.start() >= best[0]:
                        best = (m.start(), m.group('lit'), how)
            m = re.search(_DEFAULT_VALUE_OF % (re.escape(name), re.escape(name)), block)
            if m:
                lit, e = scan_literal(text, start + m.end())
                if lit is not None:
                    best = (m.start(), lit, 'default value of NAME is: NAME = X')
            if best is not None:
                o.default_text, o.how = best[1], best[2]
        if type_text and re.search(r'\brequired\b', type_text, re.I):
            o.required = True
        if _REQUIRED.search(block):
            o.required = True
        if o.default_text is not None and o.default_text.strip().lower() in ('none,', ):
            o.default_text = 'None'
        if o.has_default:
            o.value = parse_literal(o.default_text)
            stats['with_default'] += 1
            if not is_literal(o.value):
                stats['non_literal'] += 1
        if o.required:
            stats['required'] += 1
        if name not in opts or (o.has_default and not opts[name].has_default):
            opts[name] = o
    return opts, stats


def _raw_indent(line):
    return len(line) - len(line.lstrip())


def class_docstring(ci):
    return ast.get_docstring(ci.node, clean=False)


# ================================================================================= docs
def read_repo_text(index, relpath):
    """Text of a non-Python file of the repository (through the index overlay when present)."""
    if relpath in index.overlay:
        return index.overlay[relpath]
    path = os.path.join(index.root, relpath)
    if not os.path.exists(path):
        raise AnalysisError('documentation file %s not found' % relpath)
    with open(path, encoding='utf-8') as f:
        return f.read()


def docs_files(index, sub='docs'):
    base = os.path.join(index.root, sub)
    out = []
    for dirpath, dirnames, filenames in os.walk(base):
        dirnames.sort()
        for fn in sorted(filenames):
            if fn.endswith('.md'):
                out.append(os.path.relpath(os.path.join(dirpath, fn), index.root))
    for rel in index.overlay:
        if rel.startswith(sub + '/') and rel.endswith('.md') and rel not in out:
            out.append(rel)
    return out


class ListingEntry(object):
    __slots__ = ('name', 'type_text', 'default_text', 'value', 'line', 'comment')

    def __init__(self, name, type_text, default_text, line, comment):
        self.name = name
        self.type_text = type_text
        self.default_text = default_text
        self.value = parse_literal(default_text) if default_text is not None else None
        self.line = line
        self.comment = comment

    @property
    def has_default(self):
        return self.default_text is not None


class Listing(object):
    def __init__(self, relpath, class_name, line, armed, heading):
        self.relpath = relpath
        self.class_name = class_name
        self.line = line
        self.armed = armed            # True when the block follows an "Option(s) Listing" heading
        self.heading = heading
        self.entries = []
        self.unparsed = []            # (line number, text) of option lines whose comment states no parseable default

    def __repr__(self):
        return 'Listing(%s %s:%d, %d entries)' % (self.class_name, self.relpath, self.line, len(self.entries))


_FENCE = re.compile(r'^\s*```\s*(\w*)\s*$')
_HEADING = re.compile(r'^(#{1,6})\s+(.*?)\s*$')
_LISTING_HEAD = re.compile(r'^\s*\w+\s*=\s*([A-Za-z_]\w*)\(\s*$')
_LISTING_OPT = re.compile(r'^\s*([A-Za-z_]\w*)\s*=\s*(.*)$')
_OPTION_LISTING = re.compile(r'^options?\s+listing\b', re.I)


def parse_option_listings(md_text, relpath=''):
    """All fenced python blocks of the form ``x = Class(\\n  opt=type,  # default X\\n)`` of one docs file."""
    out = []
    lines = md_text.split('\n')
    heading = ''
    i = 0
    while i < len(lines):
        hm = _HEADING.match(lines[i])
        if hm:
            heading = hm.group(2)
            i += 1
            continue
        fm = _FENCE.match(lines[i])
        if not fm:
            i += 1
            continue
        lang = fm.group(1).lower()
        j = i + 1
        block = []
        while j < len(lines) and not _FENCE.match(lines[j]):
            block.append((j + 1, lines[j]))
            j += 1
        if lang in ('python', 'py') and block:
            first = next(((ln, t) for ln, t in block if t.strip()), None)
            hd = _LISTING_HEAD.match(first[1]) if first else None
            if hd:
                lst = Listing(relpath, hd.group(1), first[0], bool(_OPTION_LISTING.match(heading)), heading)
                for ln, t in block:
                    if (ln, t) == first or not t.strip() or t.strip() == ')':
                        continue
                    if t.strip().startswith('#'):
                        continue
                    code, _, comment = _split_comment(t)
                    m = _LISTING_OPT.match(code)
                    if not m:
                        lst.unparsed.append((ln, t.strip()))
                        continue
                    name = m.group(1)
                    type_text = m.group(2).strip().rstrip(',').strip()
                    default_text = None
                    if comment is not None:
                        dm = re.match(r'\s*default\s+', comment)
                        if dm:
                            lit, _ = scan_literal(comment, dm.end())
                            default_text = lit
                        if default_text is None:
                            lst.unparsed.append((ln, t.strip()))
                    lst.entries.append(ListingEntry(name, type_text, default_text, ln, comment))
                out.append(lst)
        i = j + 1
    return out


def _split_comment(line):
    """(code, '#', comment) split at the first '#' outside quotes."""
    q = None
    for i, ch in enumerate(line):
        if q:
            if ch == q:
                q = None
        elif ch in '"\'':
            q = ch
        elif ch == '#':
            return line[:i], '#', line[i + 1:]
    return line, '', None


class DocName(object):
    __slots__ = ('name', 'signature', 'line', 'section', 'nargs', 'variadic')

    def __init__(self, name, signature, line, section):
        self.name = name
        self.signature = signature
        self.line = line
        self.section = section
        self.nargs = None
        self.variadic = False
        if signature is not None:
            parts = [p.strip() for p in signature.split(',') if p.strip()]
            self.variadic = any(p == '...' for p in parts)
            self.nargs = len([p for p in parts if p != '...'])

    def __repr__(self):
        return 'DocName(%s(%s) @%d)' % (self.name, self.signature, self.line)


_BULLET = re.compile(r'^[-*]\s+(.*)$')
_CODE_SPAN = re.compile(r'`([^`]+)`')


def parse_function_lists(md_text):
    """Sections of functions_and_constants.md -> OrderedDict heading -> [DocName].

    A top-level bullet starts with one or more code spans (joined by 'and'): ``- `factorial(x)` and `fact(x)` ...``
    or ``- `pi`: ...``; indented sub-bullets and everything inside fenced blocks are ignored.
    Returns (sections, skipped) where skipped lists top-level bullets that do not start with a code span."""
    sections = OrderedDict()
    skipped = []
    heading = None
    fenced = False
    for i, ln in enumerate(md_text.split('\n'), 1):
        if _FENCE.match(ln):
            fenced = not fenced
            continue
        if fenced:
            continue
        hm = _HEADING.match(ln)
        if hm:
            heading = hm.group(2)
            sections.setdefault(heading, [])
            continue
        bm = _BULLET.match(ln)
        if not bm or heading is None:
            continue
        rest = bm.group(1)
        names = []
        pos = 0
        while True:
            m = _CODE_SPAN.match(rest, pos)
            if not m:
                break
            names.append(m.group(1))
            pos = m.end()
            m2 = re.match(r'\s*(?:and|,|or)\s+(?=`)', rest[pos:])
            if not m2:
                break
            pos += m2.end()
        if not names:
            skipped.append((i, ln.strip()))
            continue
        for nm in names:
            fm = re.match(r'^([A-Za-z_]\w*)\s*(?:\((.*)\))?$', nm.strip())
            if not fm:
                skipped.append((i, ln.strip()))
                continue
            sections[heading].append(DocName(fm.group(1), fm.group(2), i, heading))
    return sections, skipped


def parse_suffix_list(md_text, heading='Suffixes'):
    """The bullet list ``* `k`: 1e3`` under the given heading -> OrderedDict suffix -> (value, line)."""
    out = OrderedDict()
    cur = None
    fenced = False
    for i, ln in enumerate(md_text.split('\n'), 1):
        if _FENCE.match(ln):
            fenced = not fenced
            continue
        if fenced:
            continue
        hm = _HEADING.match(ln)
        if hm:
            cur = hm.group(2)
            continue
        if cur != heading:
            continue
        m = re.match(r'^[-*]\s+`([^`]+)`\s*:\s*(\S+)\s*$', ln)
        if m:
            v = parse_literal(m.group(2))
            out[m.group(1)] = (v, i)
    return out


# ============================================================================ shortcuts
def evaluator(index):
    ev = getattr(index, '_sa_tables_evaluator', None)
    if ev is None:
        ev = Evaluator(index)
        index._sa_tables_evaluator = ev
    return ev


def module_table(index, module_name, name):
    """Dict term bound to a module-level name (AnalysisError if it is not a literal table)."""
    ev = evaluator(index)
    mod = index.module(module_name)
    t = ev.module_value(mod, name)
    if t is None:
        raise AnalysisError('anchor vanished: table %s.%s not found' % (module_name, name))
    if t.kind != 'dict':
        raise AnalysisError('table %s.%s is not a literal table any more: %s' % (module_name, name, t.text()[:80]))
    return t


def class_table(index, class_q, attr):
    """Dict term bound to a class-level name, looked up along the MRO."""
    ev = evaluator(index)
    ci = index.cls(class_q)
    for q in ci.mro:
        c = index.classes.get(q)
        if c is not None and attr in c.attrs:
            t = ev.class_attr(c, attr)
            if t.kind != 'dict':
                raise AnalysisError('%s.%s is not a literal table: %s' % (q, attr, t.text()[:80]))
            return t
    raise AnalysisError('anchor vanished: %s.%s not found' % (class_q, attr))


def class_schema(index, class_q):
    return evaluator(index).class_schema(index.cls(class_q))


def class_attr_schema(index, class_q, attr):
    """SchemaTable of a class-level `attr = Schema({...})` binding, looked up along the MRO."""
    ev = evaluator(index)
    ci = index.cls(class_q)
    for q in ci.mro:
        c = index.classes.get(q)
        if c is not None and attr in c.attrs:
            t = ev.class_attr(c, attr)
            tab = t.value if t.kind == 'schema' else ev.as_schema(t)
            if tab is None or not tab.is_dict:
                raise AnalysisError('%s.%s is not a dict schema: %s' % (q, attr, t.text()[:80]))
            return tab
    raise AnalysisError('anchor vanished: %s.%s not found' % (class_q, attr))
