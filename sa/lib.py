"""Helpers shared by the property modules (small queries over the index / CFG / normal forms)."""
import ast

from .index import (AnalysisError, walk_own, walk_all, unparse, short, parent, ancestors,
                    enclosing_stmt, enclosing_function)
from .cfg import cfg_of
from . import nf

GRADERS = 'mitxgraders.baseclasses.AbstractGrader'
MITX_ERROR = 'mitxgraders.exceptions.MITxError'


def loc(fi, node=None):
    return '%s:%d' % (fi.module.relpath, getattr(node, 'lineno', None) or fi.node.lineno)


def mloc(module, node):
    return '%s:%d' % (module.relpath, getattr(node, 'lineno', 0))


def calls_named(fn_node, name, own=True):
    """Call nodes in a function whose callee's last component is `name` (or in a set of names)."""
    names = {name} if isinstance(name, str) else set(name)
    walker = walk_own(fn_node) if own else walk_all(fn_node)
    return [n for n in walker if isinstance(n, ast.Call) and nf.callee_name(n) in names]


def one_call(fi, name, own=True):
    calls = calls_named(fi.node, name, own)
    if len(calls) != 1:
        raise AnalysisError('expected exactly one call of %s in %s, found %d' % (name, fi.qualname, len(calls)))
    return calls[0]


def some_calls(fi, name, own=True, at_least=1):
    calls = calls_named(fi.node, name, own)
    if len(calls) < at_least:
        raise AnalysisError('expected a call of %s in %s, found %d' % (name, fi.qualname, len(calls)))
    return calls


def enclosing_try(node, fn_node=None):
    """Innermost Try whose *body* contains node."""
    child = node
    for a in ancestors(node):
        if isinstance(a, ast.Try) and any(child is s for s in a.body):
            return a
        if a is fn_node:
            break
        child = a
    return None


def enclosing_trys(node):
    out = []
    child = node
    for a in ancestors(node):
        if isinstance(a, ast.Try) and any(child is s for s in a.body):
            out.append(a)
        if isinstance(a, (ast.FunctionDef, ast.Lambda)):
            break
        child = a
    return out


def in_handler(node):
    for a in ancestors(node):
        if isinstance(a, ast.ExceptHandler):
            return a
        if isinstance(a, (ast.FunctionDef, ast.Lambda)):
            return None
    return None


def handler_class_names(h):
    if h.type is None:
        return ['BaseException']
    if isinstance(h.type, ast.Tuple):
        return [unparse(e).split('.')[-1] for e in h.type.elts]
    return [unparse(h.type).split('.')[-1]]


def resolve_class_name(index, module, name):
    """Qualified class name for a bare class name used in `module` (or the name itself if external)."""
    kind, obj = index.resolve_name(module, name)
    if kind == 'class':
        return obj.qualname
    return name


def exception_bases(index, module, name):
    """MRO (qualified / builtin names) of an exception class named in `module`."""
    if name in index.classes:
        return list(index.classes[name].mro)
    kind, obj = index.resolve_name(module, name)
    if kind == 'class':
        return list(obj.mro)
    return [name]


BUILTIN_EXC_PARENTS = {
    'ZeroDivisionError': 'ArithmeticError', 'OverflowError': 'ArithmeticError', 'FloatingPointError': 'ArithmeticError',
    'ArithmeticError': 'Exception', 'ValueError': 'Exception', 'TypeError': 'Exception', 'KeyError': 'LookupError',
    'IndexError': 'LookupError', 'LookupError': 'Exception', 'AttributeError': 'Exception', 'RuntimeError': 'Exception',
    'NotImplementedError': 'RuntimeError', 'ImportError': 'Exception', 'Exception': 'BaseException',
    'AssertionError': 'Exception', 'StopIteration': 'Exception', 'RecursionError': 'RuntimeError',
    'UnicodeError': 'ValueError', 'OSError': 'Exception', 'NameError': 'Exception',
}


def exc_is_subclass(index, module, name, base_name):
    """Is exception class `name` (as written in module) a subclass of `base_name` (bare name)?"""
    chain = exception_bases(index, module, name)
    names = [c.split('.')[-1] for c in chain]
    # extend with builtin parents
    cur = names[-1] if names else name
    seen = set(names)
    while cur in BUILTIN_EXC_PARENTS and BUILTIN_EXC_PARENTS[cur] not in seen:
        cur = BUILTIN_EXC_PARENTS[cur]
        names.append(cur)
        seen.add(cur)
    return base_name in names


def names_in(node):
    if node is None:
        return set()
    return {n.id for n in ast.walk(node) if isinstance(n, ast.Name)}


def is_config(expr, key=None):
    k = nf.config_key(expr)
    if k is None:
        return False
    return key is None or k == key


def mentions_config(expr, key):
    return any(is_config(n, key) for n in ast.walk(expr))


def stmts_in(fn_node, types):
    return [n for n in walk_own(fn_node) if isinstance(n, types)]


def assigned_value(fn_node, name):
    """Values assigned to a plain local name in a function (own body)."""
    out = []
    for n in walk_own(fn_node):
        if isinstance(n, ast.Assign):
            for t in n.targets:
                if isinstance(t, ast.Name) and t.id == name:
                    out.append(n.value)
    return out


def local_env(fn_node, upto=None):
    """name -> value for locals assigned exactly once by a simple top-level-or-nested Assign (for inlining)."""
    counts = {}
    vals = {}
    for n in walk_own(fn_node):
        if isinstance(n, ast.Assign) and len(n.targets) == 1 and isinstance(n.targets[0], ast.Name):
            counts[n.targets[0].id] = counts.get(n.targets[0].id, 0) + 1
            vals[n.targets[0].id] = n.value
        elif isinstance(n, (ast.AugAssign,)) and isinstance(n.target, ast.Name):
            counts[n.target.id] = counts.get(n.target.id, 0) + 2
        elif isinstance(n, (ast.For, ast.comprehension)):
            for t in ast.walk(n.target):
                if isinstance(t, ast.Name):
                    counts[t.id] = counts.get(t.id, 0) + 2
        elif isinstance(n, ast.Assign) and len(n.targets) == 1 and isinstance(n.targets[0], (ast.Tuple, ast.List)) \
                and isinstance(n.value, (ast.Tuple, ast.List)) and len(n.value.elts) == len(n.targets[0].elts) \
                and all(isinstance(t, ast.Name) for t in n.targets[0].elts) \
                and not any(isinstance(v, ast.Starred) for v in n.value.elts):
            # `a, b = x, y` binds each name once to its own expression (the right-hand sides are all evaluated first, which
            # only matters when one of them reads a name bound on the left: such a name is then counted as rebound)
            lhs = {t.id for t in n.targets[0].elts}
            reads = {x.id for v in n.value.elts for x in ast.walk(v) if isinstance(x, ast.Name)}
            for t, v in zip(n.targets[0].elts, n.value.elts):
                counts[t.id] = counts.get(t.id, 0) + (2 if lhs & reads else 1)
                vals[t.id] = v
        elif isinstance(n, ast.Assign):
            for t in n.targets:
                for x in ast.walk(t):
                    if isinstance(x, ast.Name) and isinstance(x.ctx, ast.Store):
                        counts[x.id] = counts.get(x.id, 0) + 2
    args = fn_node.args
    params = {a.arg for a in args.posonlyargs + args.args + args.kwonlyargs}
    return {k: v for k, v in vals.items() if counts.get(k) == 1 and k not in params}


def inline_locals(expr, fn_node, depth=4):
    env = local_env(fn_node)
    cur = expr
    for _ in range(depth):
        new = nf.subst(cur, env)
        if ast.dump(new) == ast.dump(cur):
            break
        cur = new
    return cur


def cfg_nodes_for(cfg, node):
    """CFG nodes of the statement head that evaluates `node`."""
    res = cfg.nodes_containing(node)
    if not res:
        raise AnalysisError('no CFG node for `%s` (line %s)' % (short(node), getattr(node, 'lineno', '?')))
    return res


def dominated(fi, first, then):
    """Every path from entry to any evaluation of `then` passes an evaluation of `first` (AST nodes)."""
    cfg = cfg_of(fi.node)
    a = [n for x in (first if isinstance(first, list) else [first]) for n in cfg_nodes_for(cfg, x)]
    b = [n for x in (then if isinstance(then, list) else [then]) for n in cfg_nodes_for(cfg, x)]
    return cfg.dominates(a, b)


def str_const(node):
    return node.value if isinstance(node, ast.Constant) and isinstance(node.value, str) else None


def dict_literal_keys(d):
    return [k.value for k in d.keys if isinstance(k, ast.Constant)]


def get_kw(call, name, pos=None):
    for kw in call.keywords:
        if kw.arg == name:
            return kw.value
    if pos is not None and len(call.args) > pos:
        return call.args[pos]
    return None


def subscript_key(node):
    if isinstance(node, ast.Subscript) and isinstance(node.slice, ast.Constant):
        return node.slice.value
    return None


def class_family_methods(index, base, name):
    """All definitions of method `name` in the class family rooted at `base`."""
    out = []
    for ci in index.family(base):
        if name in ci.methods:
            out.append(ci.methods[name])
    return out


def returns_of(fn_node):
    return [n for n in walk_own(fn_node) if isinstance(n, ast.Return)]


def raises_of(fn_node):
    return [n for n in walk_own(fn_node) if isinstance(n, ast.Raise)]


def loops_of(fn_node):
    return [n for n in walk_own(fn_node) if isinstance(n, (ast.For, ast.While))]


def loop_has_early_exit(loop):
    """break / return / raise / continue directly inside a loop body (not in nested defs or nested loops for break/continue)."""
    exits = []

    def walk(stmts, depth):
        for s in stmts:
            if isinstance(s, (ast.FunctionDef, ast.ClassDef)):
                continue
            if isinstance(s, (ast.Break, ast.Continue)) and depth == 0:
                exits.append(s)
            if isinstance(s, (ast.Return, ast.Raise)):
                exits.append(s)
            for field in ('body', 'orelse', 'finalbody'):
                sub = getattr(s, field, None)
                if isinstance(sub, list):
                    walk(sub, depth + (1 if isinstance(s, (ast.For, ast.While)) and field == 'body' else 0))
            if isinstance(s, ast.Try):
                for h in s.handlers:
                    walk(h.body, depth)
    walk(loop.body, 0)
    return exits
