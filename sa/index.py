"""E1-E3: source index, name/class resolution, call resolution (class-hierarchy analysis).

Nothing here imports or executes the analysed library: modules are parsed with `ast`
from /repo's current working tree (or from an in-memory overlay used by the self-test).
"""
import ast
import builtins
import hashlib
import os

REPO = os.environ.get('SA_REPO', '/repo')
PACKAGES = ('mitxgraders', 'voluptuous')

BUILTINS = set(dir(builtins))


class AnalysisError(Exception):
    """The analysed code has a shape the checker cannot vouch for (exit 2)."""


def set_parents(tree):
    tree._parent = None
    for node in ast.walk(tree):
        for child in ast.iter_child_nodes(node):
            child._parent = node


def parent(node):
    return getattr(node, '_parent', None)


def ancestors(node):
    node = parent(node)
    while node is not None:
        yield node
        node = parent(node)


def enclosing_function(node):
    for a in ancestors(node):
        if isinstance(a, (ast.FunctionDef, ast.AsyncFunctionDef, ast.Lambda)):
            return a
    return None


def enclosing_stmt(node):
    """The statement node that contains `node` (or node itself if it is a statement)."""
    cur = node
    while cur is not None and not isinstance(cur, ast.stmt):
        cur = parent(cur)
    return cur


def clone(node):
    """Deep copy of an AST (sub)tree that ignores the `_parent` back links."""
    if isinstance(node, list):
        return [clone(n) for n in node]
    if not isinstance(node, ast.AST):
        return node
    new = node.__class__.__new__(node.__class__)
    for f in node._fields:
        if hasattr(node, f):
            setattr(new, f, clone(getattr(node, f)))
    for a in node._attributes:
        if hasattr(node, a):
            setattr(new, a, getattr(node, a))
    return new


def unparse(node):
    if node is None:
        return 'None'
    if isinstance(node, list):
        return '; '.join(unparse(n) for n in node)
    try:
        return ast.unparse(node)
    except Exception:  # pragma: no cover
        return ast.dump(node)


def short(node, limit=140):
    text = ' '.join(unparse(node).split())
    return text if len(text) <= limit else text[:limit - 3] + '...'


def dump(node):
    return ast.dump(node, annotate_fields=False)


def digest(node):
    return hashlib.sha1(dump(node).encode()).hexdigest()[:10]


class FuncInfo(object):
    def __init__(self, qualname, node, module, cls=None, outer=None):
        self.qualname = qualname
        self.node = node
        self.module = module
        self.cls = cls
        self.outer = outer
        self.name = node.name if hasattr(node, 'name') else '<lambda>'
        self.decorators = [unparse(d) for d in getattr(node, 'decorator_list', [])]

    @property
    def is_static(self):
        return 'staticmethod' in self.decorators

    @property
    def is_classmethod(self):
        return 'classmethod' in self.decorators

    @property
    def is_property(self):
        return 'property' in self.decorators

    @property
    def params(self):
        a = self.node.args
        names = [x.arg for x in a.posonlyargs + a.args]
        return names

    @property
    def all_params(self):
        a = self.node.args
        names = [x.arg for x in a.posonlyargs + a.args + a.kwonlyargs]
        if a.vararg:
            names.append(a.vararg.arg)
        if a.kwarg:
            names.append(a.kwarg.arg)
        return names

    @property
    def loc(self):
        return '%s:%d' % (self.module.relpath, self.node.lineno)

    def __repr__(self):
        return '<Func %s>' % self.qualname


class ClassInfo(object):
    def __init__(self, qualname, node, module):
        self.qualname = qualname
        self.name = node.name
        self.node = node
        self.module = module
        self.base_exprs = list(node.bases)
        self.bases = []       # resolved qualified names (or raw text when external)
        self.methods = {}     # own methods: name -> FuncInfo
        self.attrs = {}       # own class-level bindings: name -> value node (last one)
        self.mro = []

    @property
    def loc(self):
        return '%s:%d' % (self.module.relpath, self.node.lineno)

    def __repr__(self):
        return '<Class %s>' % self.qualname


class Module(object):
    def __init__(self, name, relpath, source):
        self.name = name
        self.relpath = relpath
        self.source = source
        self.tree = ast.parse(source, filename=relpath)
        set_parents(self.tree)
        self.is_package = relpath.endswith('__init__.py')
        self.imports = {}     # local name -> qualified dotted name
        self.star_imports = []
        self.funcs = {}       # top-level functions name -> FuncInfo
        self.classes = {}     # name -> ClassInfo
        self.assigns = {}     # top-level name -> list of value nodes
        self.all_funcs = []   # every FuncInfo incl. nested and methods

    def __repr__(self):
        return '<Module %s>' % self.name


class Index(object):
    """Parsed view of the package(s) under `root` with an optional overlay {relpath: source}."""

    def __init__(self, root=None, overlay=None, packages=PACKAGES):
        self.root = root or REPO
        self.overlay = overlay or {}
        self.modules = {}
        self.by_relpath = {}
        self.funcs = {}
        self.classes = {}
        self._subclasses = {}
        self.unresolved_calls = 0
        self.resolved_calls = 0
        self.unreviewed = []
        self.normalization = {}
        for pkg in packages:
            self._load_package(pkg)
        self.rebuild()

    def rebuild(self):
        """(Re)build every table from the module trees (used after the trees were normalised in place)."""
        self.funcs = {}
        self.classes = {}
        self._subclasses = {}
        if hasattr(self, '_by_node'):
            del self._by_node
        for m in self.modules.values():
            set_parents(m.tree)
            m.imports = {}
            m.star_imports = []
            m.funcs = {}
            m.classes = {}
            m.assigns = {}
            m.all_funcs = []
        for m in list(self.modules.values()):
            self._collect(m)
        for c in self.classes.values():
            c.bases = [self._resolve_base(c, b) for b in c.base_exprs]
        for c in self.classes.values():
            c.mro = self._mro(c)
            for b in c.mro[1:]:
                self._subclasses.setdefault(b, set()).add(c.qualname)

    # ------------------------------------------------------------------ loading
    def _load_package(self, pkg):
        base = os.path.join(self.root, pkg)
        paths = []
        for dirpath, dirnames, filenames in os.walk(base):
            dirnames[:] = sorted(d for d in dirnames if d != '__pycache__')
            for fn in sorted(filenames):
                if fn.endswith('.py'):
                    paths.append(os.path.relpath(os.path.join(dirpath, fn), self.root))
        for rel in self.overlay:
            if rel.startswith(pkg + '/') and rel.endswith('.py') and rel not in paths:
                paths.append(rel)
        for rel in paths:
            if rel in self.overlay:
                src = self.overlay[rel]
            else:
                with open(os.path.join(self.root, rel), encoding='utf-8') as f:
                    src = f.read()
            name = rel[:-3].replace(os.sep, '.')
            if name.endswith('.__init__'):
                name = name[:-len('.__init__')]
            try:
                mod = Module(name, rel, src)
            except SyntaxError as e:
                raise AnalysisError('cannot parse %s: %s' % (rel, e))
            self.modules[name] = mod
            self.by_relpath[rel] = mod

    def _collect(self, m):
        pkgparts = m.name.split('.') if m.is_package else m.name.split('.')[:-1]

        def absolute(level, module):
            if level == 0:
                return module or ''
            base = pkgparts[:len(pkgparts) - (level - 1)]
            return '.'.join(base + ([module] if module else []))

        for node in ast.walk(m.tree):
            if isinstance(node, ast.Import):
                for a in node.names:
                    if a.asname:
                        m.imports[a.asname] = a.name
                    else:
                        m.imports[a.name.split('.')[0]] = a.name.split('.')[0]
            elif isinstance(node, ast.ImportFrom):
                src = absolute(node.level, node.module)
                for a in node.names:
                    if a.name == '*':
                        m.star_imports.append(src)
                    else:
                        m.imports[a.asname or a.name] = src + '.' + a.name
        for node in m.tree.body:
            self._collect_stmt(m, node)

    def _collect_stmt(self, m, node):
        if isinstance(node, (ast.FunctionDef, ast.AsyncFunctionDef)):
            fi = FuncInfo(m.name + '.' + node.name, node, m)
            m.funcs[node.name] = fi
            self._register_func(m, fi)
        elif isinstance(node, ast.ClassDef):
            self._collect_class(m, node, m.name)
        elif isinstance(node, ast.Assign):
            for t in node.targets:
                for n in _target_names(t):
                    m.assigns.setdefault(n, []).append(node.value)
        elif isinstance(node, ast.AnnAssign) and isinstance(node.target, ast.Name) and node.value:
            m.assigns.setdefault(node.target.id, []).append(node.value)
        elif isinstance(node, (ast.If, ast.Try)):
            for sub in ast.iter_child_nodes(node):
                if isinstance(sub, ast.stmt):
                    self._collect_stmt(m, sub)
                elif isinstance(sub, ast.ExceptHandler):
                    for s in sub.body:
                        self._collect_stmt(m, s)

    def _collect_class(self, m, node, prefix):
        ci = ClassInfo(prefix + '.' + node.name, node, m)
        if prefix == m.name:
            m.classes[node.name] = ci
        self.classes[ci.qualname] = ci
        for sub in node.body:
            if isinstance(sub, (ast.FunctionDef, ast.AsyncFunctionDef)):
                fi = FuncInfo(ci.qualname + '.' + sub.name, sub, m, cls=ci)
                ci.methods[sub.name] = fi
                self._register_func(m, fi)
            elif isinstance(sub, ast.Assign):
                for t in sub.targets:
                    for n in _target_names(t):
                        ci.attrs[n] = sub.value
            elif isinstance(sub, ast.ClassDef):
                self._collect_class(m, sub, ci.qualname)

    def _register_func(self, m, fi):
        self.funcs[fi.qualname] = fi
        m.all_funcs.append(fi)
        for sub in _direct_nested(fi.node):
            if isinstance(sub, (ast.FunctionDef, ast.AsyncFunctionDef)):
                inner = FuncInfo(fi.qualname + '.<locals>.' + sub.name, sub, m, cls=None, outer=fi)
                self._register_func(m, inner)

    # --------------------------------------------------------------- resolution
    def resolve_dotted(self, dotted):
        """Follow re-exports: a dotted name -> ('func'|'class'|'module'|'value'|'external', object)."""
        seen = set()
        while dotted not in seen:
            seen.add(dotted)
            if dotted in self.funcs:
                return 'func', self.funcs[dotted]
            if dotted in self.classes:
                return 'class', self.classes[dotted]
            if dotted in self.modules:
                return 'module', self.modules[dotted]
            head, _, tail = dotted.rpartition('.')
            if head in self.modules:
                mod = self.modules[head]
                if tail in mod.imports:
                    dotted = mod.imports[tail]
                    continue
                if tail in mod.assigns:
                    return 'value', (mod, tail)
                for star in mod.star_imports:
                    kind, obj = self.resolve_dotted(star + '.' + tail)
                    if kind != 'external':
                        return kind, obj
            if head in self.classes:
                ci = self.classes[head]
                f = self.lookup(ci, tail)
                if f:
                    return 'func', f
            break
        return 'external', dotted

    def resolve_name(self, module, name):
        """Resolve a bare name used at module scope of `module`."""
        if name in module.funcs:
            return 'func', module.funcs[name]
        if name in module.classes:
            return 'class', module.classes[name]
        if name in module.imports:
            return self.resolve_dotted(module.imports[name])
        if name in module.assigns:
            return 'value', (module, name)
        for star in module.star_imports:
            kind, obj = self.resolve_dotted(star + '.' + name)
            if kind != 'external':
                return kind, obj
        if name in BUILTINS:
            return 'builtin', name
        return 'external', name

    def dotted_of(self, module, expr):
        """Best-effort dotted name of an expression such as np.linalg.norm -> 'numpy.linalg.norm'."""
        parts = []
        cur = expr
        while isinstance(cur, ast.Attribute):
            parts.append(cur.attr)
            cur = cur.value
        if not isinstance(cur, ast.Name):
            return None
        kind, obj = self.resolve_name(module, cur.id)
        if kind == 'external':
            base = obj
        elif kind == 'builtin':
            base = obj
        elif kind == 'module':
            base = obj.name
        elif kind == 'class':
            base = obj.qualname
        elif kind == 'func':
            base = obj.qualname
        else:
            base = module.name + '.' + cur.id
        return '.'.join([base] + list(reversed(parts)))

    def _resolve_base(self, c, expr):
        d = self.dotted_of(c.module, expr)
        if d is None:
            return unparse(expr)
        kind, obj = self.resolve_dotted(d)
        if kind == 'class':
            return obj.qualname
        return d

    def _mro(self, c):
        def merge(seqs):
            res = []
            seqs = [list(s) for s in seqs if s]
            while seqs:
                for s in seqs:
                    cand = s[0]
                    if not any(cand in t[1:] for t in seqs):
                        break
                else:
                    raise AnalysisError('inconsistent MRO for %s' % c.qualname)
                res.append(cand)
                seqs = [[x for x in s if x != cand] for s in seqs]
                seqs = [s for s in seqs if s]
            return res

        def lin(q, stack=()):
            if q in stack:
                raise AnalysisError('cyclic inheritance at %s' % q)
            ci = self.classes.get(q)
            if ci is None:
                return [q]
            return [q] + merge([lin(b, stack + (q,)) for b in ci.bases] + [list(ci.bases)])
        return lin(c.qualname)

    # ------------------------------------------------------------------ queries
    def module(self, name):
        if name not in self.modules:
            raise AnalysisError('module %s not found' % name)
        return self.modules[name]

    def func(self, qualname):
        if qualname not in self.funcs:
            raise AnalysisError('anchor vanished: function %s not found' % qualname)
        return self.funcs[qualname]

    def has_func(self, qualname):
        return qualname in self.funcs

    def cls(self, qualname):
        if qualname not in self.classes:
            raise AnalysisError('anchor vanished: class %s not found' % qualname)
        return self.classes[qualname]

    def lookup(self, ci, name):
        """Method resolution along the MRO."""
        if isinstance(ci, str):
            ci = self.classes.get(ci)
            if ci is None:
                return None
        for q in ci.mro:
            k = self.classes.get(q)
            if k is not None and name in k.methods:
                return k.methods[name]
        return None

    def lookup_attr(self, ci, name):
        for q in ci.mro:
            k = self.classes.get(q)
            if k is not None and name in k.attrs:
                return k, k.attrs[name]
        return None, None

    def lookup_after(self, ci, after, name):
        """super(after, self).name for an instance of class ci."""
        mro = ci.mro
        if after not in mro:
            return None
        for q in mro[mro.index(after) + 1:]:
            k = self.classes.get(q)
            if k is not None and name in k.methods:
                return k.methods[name]
        return None

    def subclasses(self, qualname, strict=False):
        subs = set(self._subclasses.get(qualname, ()))
        if not strict:
            subs.add(qualname)
        return subs

    def is_subclass(self, q, base):
        ci = self.classes.get(q)
        return ci is not None and base in ci.mro

    def family(self, base):
        return [self.classes[q] for q in sorted(self.subclasses(base)) if q in self.classes]

    def package_funcs(self, prefix='mitxgraders'):
        return [f for q, f in sorted(self.funcs.items()) if q.startswith(prefix + '.')]

    def package_modules(self, prefix='mitxgraders'):
        return [m for n, m in sorted(self.modules.items()) if n == prefix or n.startswith(prefix + '.')]

    # --------------------------------------------------------- call resolution
    def enclosing_funcinfo(self, node):
        fn = node if isinstance(node, (ast.FunctionDef, ast.AsyncFunctionDef)) else enclosing_function(node)
        while fn is not None and isinstance(fn, ast.Lambda):
            fn = enclosing_function(fn)
        if fn is None:
            return None
        for fi in self.funcs.values():
            if fi.node is fn:
                return fi
        return None

    def funcinfo_of_node(self, fn_node):
        if not hasattr(self, '_by_node'):
            self._by_node = {id(fi.node): fi for fi in self.funcs.values()}
        return self._by_node.get(id(fn_node))

    def resolve_call(self, fi, call, static_types=None):
        """Targets of a call inside function `fi` (FuncInfo or None for module level).

        Returns (targets, how) where targets is a list of FuncInfo / ('class', ClassInfo) /
        ('external', dotted) and how is 'exact' | 'cha' | 'unique-name' | 'unresolved'.
        """
        module = fi.module if fi is not None else None
        func = call.func if isinstance(call, ast.Call) else call
        static_types = static_types or {}
        # --- plain names
        if isinstance(func, ast.Name):
            name = func.id
            # nested functions / local defs of enclosing functions
            cur = fi
            while cur is not None:
                q = cur.qualname + '.<locals>.' + name
                if q in self.funcs:
                    return [self.funcs[q]], 'exact'
                if name in _local_names(cur.node):
                    return [], 'unresolved'
                cur = cur.outer
            kind, obj = self.resolve_name(module, name)
            if kind == 'func':
                return [obj], 'exact'
            if kind == 'class':
                init = self.lookup(obj, '__init__')
                return ([init] if init else []) + [('class', obj)], 'exact'
            if kind in ('builtin', 'external'):
                return [('external', obj)], 'exact'
            return [], 'unresolved'
        if not isinstance(func, ast.Attribute):
            return [], 'unresolved'
        attr = func.attr
        recv = func.value
        # --- super()
        if isinstance(recv, ast.Call) and isinstance(recv.func, ast.Name) and recv.func.id == 'super':
            owner = None
            if recv.args:
                kind, obj = self.resolve_name(module, recv.args[0].id) if isinstance(recv.args[0], ast.Name) else (None, None)
                if kind == 'class':
                    owner = obj
            elif fi is not None:
                owner = _owner_class(fi)
            if owner is None:
                return [], 'unresolved'
            targets = []
            for sub in sorted(self.subclasses(owner.qualname)):
                t = self.lookup_after(self.classes[sub], owner.qualname, attr)
                if t is not None and t not in targets:
                    targets.append(t)
            return targets, 'cha'
        # --- self / cls
        owner = _owner_class(fi) if fi is not None else None
        if isinstance(recv, ast.Name) and owner is not None and fi is not None:
            first = _first_param(fi)
            if first is not None and recv.id == first and not _owner_func(fi).is_static:
                return self._cha(owner, attr), 'cha'
        # --- typed receivers supplied by the caller
        key = unparse(recv)
        if key in static_types:
            out = []
            for q in static_types[key]:
                for t in self._cha(self.cls(q), attr):
                    if t not in out:
                        out.append(t)
            return out, 'cha'
        # --- Class.method / module.func / np.x
        d = self.dotted_of(module, func) if module is not None else None
        if d is not None:
            kind, obj = self.resolve_dotted(d)
            if kind == 'func':
                return [obj], 'exact'
            if kind == 'class':
                init = self.lookup(obj, '__init__')
                return ([init] if init else []) + [('class', obj)], 'exact'
            base = self.dotted_of(module, recv)
            if base is not None:
                bk, bo = self.resolve_dotted(base)
                if bk == 'class':
                    t = self.lookup(bo, attr)
                    if t is not None:
                        return [t], 'exact'
                if bk in ('external', 'builtin') and isinstance(_root_name(recv), str) and \
                        _root_name(recv) in module.imports:
                    return [('external', d)], 'exact'
        # --- unique method name in the package
        cands = [c.methods[attr] for c in self.classes.values()
                 if attr in c.methods and c.module.name.startswith('mitxgraders')]
        if len(cands) == 1:
            return cands, 'unique-name'
        if cands:
            owners = set()
            for c in cands:
                owners.add(c.cls.qualname)
            # all definitions belong to one hierarchy -> over-approximate with all of them
            roots = [q for q in owners if not any(q != o and self.is_subclass(q, o) for o in owners)]
            if len(roots) == 1:
                return cands, 'cha'
        return [], 'unresolved'

    def _cha(self, owner, attr):
        targets = []
        base = self.lookup(owner, attr)
        if base is not None:
            targets.append(base)
        for sub in sorted(self.subclasses(owner.qualname, strict=True)):
            k = self.classes[sub]
            if attr in k.methods and k.methods[attr] not in targets:
                targets.append(k.methods[attr])
            else:
                t = self.lookup(k, attr)
                if t is not None and t not in targets:
                    targets.append(t)
        return targets

    def calls_in(self, fi_or_node):
        node = fi_or_node.node if isinstance(fi_or_node, FuncInfo) else fi_or_node
        return [n for n in walk_own(node) if isinstance(n, ast.Call)]


def _owner_func(fi):
    cur = fi
    while cur.outer is not None:
        cur = cur.outer
    return cur


def _owner_class(fi):
    return _owner_func(fi).cls


def _first_param(fi):
    of = _owner_func(fi)
    if of.cls is None or of.is_static:
        return None
    params = of.params
    return params[0] if params else None


def _root_name(expr):
    while isinstance(expr, (ast.Attribute, ast.Subscript, ast.Call)):
        expr = expr.value if not isinstance(expr, ast.Call) else expr.func
    return expr.id if isinstance(expr, ast.Name) else None


def _target_names(t):
    if isinstance(t, ast.Name):
        yield t.id
    elif isinstance(t, (ast.Tuple, ast.List)):
        for e in t.elts:
            for n in _target_names(e):
                yield n
    elif isinstance(t, ast.Starred):
        for n in _target_names(t.value):
            yield n


def _direct_nested(fn):
    """FunctionDefs nested directly in fn's body (not inside nested defs/classes)."""
    out = []
    stack = list(fn.body)
    while stack:
        n = stack.pop()
        if isinstance(n, (ast.FunctionDef, ast.AsyncFunctionDef)):
            out.append(n)
            continue
        if isinstance(n, ast.ClassDef):
            continue
        stack.extend(ast.iter_child_nodes(n))
    return out


def walk_own(fn):
    """Walk the nodes of a function body without descending into nested defs/classes/lambdas."""
    stack = list(reversed(fn.body)) if hasattr(fn, 'body') and isinstance(fn.body, list) else [fn.body]
    while stack:
        n = stack.pop()
        yield n
        if isinstance(n, (ast.FunctionDef, ast.AsyncFunctionDef, ast.ClassDef, ast.Lambda)):
            continue
        stack.extend(reversed(list(ast.iter_child_nodes(n))))


def walk_all(fn):
    """Walk every node of a function including nested defs."""
    for s in (fn.body if isinstance(fn.body, list) else [fn.body]):
        for n in ast.walk(s):
            yield n


def _local_names(fn):
    cached = getattr(fn, '_sa_locals', None)
    if cached is not None:
        return cached
    names = set()
    a = fn.args
    for x in a.posonlyargs + a.args + a.kwonlyargs:
        names.add(x.arg)
    if a.vararg:
        names.add(a.vararg.arg)
    if a.kwarg:
        names.add(a.kwarg.arg)
    if not isinstance(fn, ast.Lambda):
        for n in walk_own(fn):
            if isinstance(n, ast.Name) and isinstance(n.ctx, (ast.Store, ast.Del)):
                names.add(n.id)
            elif isinstance(n, (ast.FunctionDef, ast.AsyncFunctionDef, ast.ClassDef)):
                names.add(n.name)
            elif isinstance(n, ast.ExceptHandler) and n.name:
                names.add(n.name)
            elif isinstance(n, (ast.Import, ast.ImportFrom)):
                for al in n.names:
                    names.add((al.asname or al.name).split('.')[0])
    fn._sa_locals = names
    return names


local_names = _local_names
owner_class = _owner_class
root_name = _root_name
target_names = _target_names
