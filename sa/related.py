"""Clauses shared between properties.

The twenty property statements overlap: C01 bounds grades "x attempt numbers" (the mechanism is C17's), C02
demands that the call terminates (the only unbounded loop on a grading path driven by student text is C13's
dependency resolution) and that anticipated array-shape problems keep their specific error class (the error column of
C14's operation table), C05/C07 demand an optimal assignment (C06's solver), C08's verdict passes through the
comparer-result sanitiser (C01) and the credit scaling of raw_check (C04), C09's "recorded function names" are
C10's parse actions and reset discipline, its scopes are the default tables of C11, the names it admits beyond
the configured ones are exactly C13's numbered-variable instances, and its gate on `ok` relies on C01's sanitiser
emitting only the canonical values.  A change that breaks such
a shared mechanism breaks both properties, so the check of either must report it.  `run.run_rules` imports the
listed rules of the related module under the id `<prop>.REL.<original id>` (same obligations, same floors).
"""

RELATED = {
    'C01': {'C17': ('D2.', 'D3.'), 'C11': ('D5.',)},
    'C02': {'C13': ('D1.',), 'C10': ('D2.',), 'C14': ('D1.',)},
    'C08': {'C01': ('D3.',), 'C04': ('D4.',)},
    'C09': {'C10': ('D1.', 'D2.', 'D3.'), 'C11': ('D7.',), 'C13': ('D5.',), 'C01': ('D3.',)},
    'C04': {'C01': ('D3.',)},
    'C16': {'C04': ('D1.',)},
    'C18': {'C08': ('D2.', 'D3.')},
    'C19': {'C04': ('D1.', 'D2.', 'D3.')},
    'C15': {'C02': ('D5.', 'D6.')},
}
