"""Clauses shared between properties.

The twenty property statements overlap: C01 bounds grades "x attempt numbers" (the mechanism is C17's), C02
demands that the call terminates (the only unbounded loop on a grading path driven by student text is C13's
dependency resolution) and that anticipated array-shape problems keep their specific error class (the error column of
C14's operation table), C05/C07 demand an optimal assignment (C06's solver), C08's verdict passes through the
comparer-result sanitiser (C01) and the credit scaling of raw_check (C04), C09's "recorded function names" are
C10's parse actions and reset discipline, its scopes are the default tables of C11, the names it admits beyond
the configured ones are exactly C13's numbered-variable instances, and its gate on `ok` relies on C01's sanitiser
emitting only the canonical values.  A change that breaks such
a shared mechanism breaks both properties, so the check of either must report it.

Fourth wave of seeds (changes placed in modules a property's mechanism merely passes through): the value of a matrix power
(C03, C04, C10, C14, C19) depends on the process-wide negative-power switch being restored on every exit (C11.D8); the
value of elementary functions on the numpy error state (C02.D6 -> C03); a multi-input result structure on the refusal of
lists by single-input graders (C02.D3 -> C01); refusing sibling names on the scrub before the student's evaluation
(C09.D4 -> C02: the anticipated error class); the best alternative on the full loop over the entries of an expect tuple
(C08.D1 -> C07); results on being fresh objects (C11.D9 -> C08, C18); histories on cached parse results staying unmodified
(C10.D5 -> C11); sample ranges on the validators of the range options (C20.D6 -> C12); comparer verdicts on the consolidation
over samples and on the tolerance string (C04.D3/D5 -> C16); the summation scopes on the per-instance copy of the default
tables (C11.D7 -> C19).

Fifth wave (refactorings with one slip): the anticipated shape error of a built-in function depends on the domain decorator's
validators (C15.D4 -> C02); the credit schedule is called outside the guard of __call__, so what reaches it (C17.D2) decides whether a
non-library exception can escape (-> C02); which groupings a ListGrader accepts is C20's cross-option table (C20.D5 -> C05); the
credit of an alternative list is applied by SingleListGrader.process_grade_list (C07.D3 -> C08); histories depend on the parser's
scratch storage being handed over and reset (C10.D1/D2 -> C11); the constants a formula may use are the per-instance copy of the
default table (C11.D7 -> C15).  `run.run_rules` imports the
listed rules of the related module under the id `<prop>.REL.<original id>` (same obligations, same floors).
"""

RELATED = {
    'C01': {'C17': ('D2.', 'D3.'), 'C11': ('D5.',), 'C02': ('D3.',)},
    'C02': {'C13': ('D1.',), 'C10': ('D2.',), 'C14': ('D1.',), 'C09': ('D4.',), 'C15': ('D4.',), 'C17': ('D2.',)},
    'C03': {'C11': ('D8.',), 'C02': ('D6.',)},
    'C04': {'C01': ('D3.',), 'C11': ('D8.',)},
    'C05': {'C20': ('D5.',)},
    'C07': {'C08': ('D1.',)},
    'C08': {'C01': ('D3.',), 'C04': ('D4.',), 'C11': ('D9.',), 'C07': ('D3.',)},
    'C09': {'C10': ('D1.', 'D2.', 'D3.'), 'C11': ('D7.',), 'C13': ('D5.',), 'C01': ('D3.',)},
    'C10': {'C11': ('D8.', 'D10.')},
    'C11': {'C10': ('D1.', 'D2.', 'D5.')},
    'C12': {'C20': ('D6.',)},
    'C14': {'C11': ('D8.',)},
    'C15': {'C02': ('D5.', 'D6.'), 'C11': ('D7.',)},
    'C16': {'C04': ('D1.', 'D3.', 'D5.')},
    'C17': {'C02': ('D2.',)},
    'C18': {'C08': ('D2.', 'D3.'), 'C11': ('D9.',)},
    'C19': {'C04': ('D1.', 'D2.', 'D3.'), 'C11': ('D7.', 'D8.')},
}
