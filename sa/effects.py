"""E5: stores, mutations and may-alias facts (flow-insensitive, intra-procedural) plus
inter-procedural "parameter may be mutated" summaries over the resolved call graph.

Origins of a value are access-path roots:
    ('param', name) | ('self', attr) | ('global', name) | ('cls', 'Class.attr') | ('fresh',)
A store through `x.a`, `x[k]` or a mutating method on `x` mutates every origin of `x`
("deep" containment: what hangs off an object is part of it).  Aliasing is cut by the
copy idioms listed in COPY_FUNCS / COPY_METHODS, by arithmetic, comprehensions and
by calls whose result is not known to alias an argument.
"""
import ast

from .index import walk_own, unparse, local_names, owner_class

MUTATING_METHODS = {
    'append', 'extend', 'insert', 'pop', 'remove', 'clear', 'sort', 'reverse', 'update',
    'setdefault', 'popitem', 'add', 'discard', '__setitem__', '__delitem__', 'difference_update',
    'intersection_update', 'symmetric_difference_update', 'fill', 'resize', 'itemset',
}
COPY_FUNCS = {'dict', 'list', 'set', 'tuple', 'sorted', 'frozenset', 'copy', 'deepcopy', 'str', 'float',
              'int', 'len', 'sum', 'max', 'min', 'any', 'all', 'zip', 'enumerate', 'range', 'map', 'filter',
              'merge_dicts', 'array', 'repr', 'isinstance', 'reversed'}
COPY_METHODS = {'copy', 'deepcopy', 'keys', 'values', 'items', 'format', 'join', 'split', 'strip', 'replace',
                'lower', 'upper', 'union', 'intersection', 'difference', 'tolist', 'astype', 'flatten',
                'count', 'index', 'startswith', 'endswith', 'extend_schema', 'extend'}
# methods that hand back (part of) the receiver
VIEW_METHODS = {'get', 'setdefault', 'pop', '__getitem__', 'view', 'reshape', 'ravel', 'squeeze'}

FRESH = ('fresh',)


class Mutation(object):
    def __init__(self, node, target, how, origins):
        self.node = node          # the statement / call node
        self.target = target      # the expression being mutated
        self.how = how
        self.origins = origins

    @property
    def lineno(self):
        return getattr(self.node, 'lineno', 0)

    def __repr__(self):
        return '<Mutation L%d %s of %s origins=%s>' % (self.lineno, self.how, unparse(self.target), sorted(self.origins))


class FunctionEffects(object):
    def __init__(self, fi, index=None):
        self.fi = fi
        self.fn = fi.node
        self.index = index
        self.params = set(fi.all_params)
        self.self_name = None
        oc = owner_class(fi)
        if oc is not None and fi.cls is not None and not fi.is_static and fi.params:
            self.self_name = fi.params[0]
        self.locals = local_names(self.fn)
        self.assignments = {}   # local name -> list of value exprs (or ('elem', expr) for loop targets)
        self.elem_adds = {}     # local container name -> [('val', expr) | ('elems', expr)] put into it
        self._collect_assignments()
        self._orig_cache = {}

    def _collect_assignments(self):
        def bind(target, value, elem=False):
            if isinstance(target, ast.Name):
                self.assignments.setdefault(target.id, []).append(('elem', value) if elem else ('val', value))
            elif isinstance(target, (ast.Tuple, ast.List)):
                if isinstance(value, (ast.Tuple, ast.List)) and len(value.elts) == len(target.elts) and not elem:
                    for t, v in zip(target.elts, value.elts):
                        bind(t, v)
                else:
                    for t in target.elts:
                        bind(t, value, elem=True)
            elif isinstance(target, ast.Starred):
                bind(target.value, value, elem=True)

        for n in walk_own(self.fn):
            if isinstance(n, ast.Assign):
                for t in n.targets:
                    bind(t, n.value)
                    if isinstance(t, ast.Subscript) and isinstance(t.value, ast.Name):
                        self.elem_adds.setdefault(t.value.id, []).append(('val', n.value))   # L[k] = v
            elif isinstance(n, ast.AnnAssign) and n.value is not None:
                bind(n.target, n.value)
            elif isinstance(n, (ast.For, ast.AsyncFor)):
                bind(n.target, n.iter, elem=True)
            elif isinstance(n, (ast.With, ast.AsyncWith)):
                for it in n.items:
                    if it.optional_vars is not None:
                        bind(it.optional_vars, it.context_expr)
            elif isinstance(n, ast.NamedExpr):
                bind(n.target, n.value)
            elif isinstance(n, ast.comprehension):
                bind(n.target, n.iter, elem=True)
            elif isinstance(n, ast.Call) and isinstance(n.func, ast.Attribute) and isinstance(n.func.value, ast.Name):
                # what is put INTO a local container can later be read back out of it (element aliasing)
                recv = n.func.value.id
                if n.func.attr in ('append', 'insert', 'add', 'appendleft', 'setdefault'):
                    for a in n.args:
                        self.elem_adds.setdefault(recv, []).append(('val', a))
                elif n.func.attr in ('extend', 'update'):
                    for a in n.args:
                        self.elem_adds.setdefault(recv, []).append(('elems', a))

    # ------------------------------------------------------------------ origins
    def origins(self, expr, _stack=()):
        """Set of origin roots the value of expr may alias (deeply)."""
        if isinstance(expr, ast.Name):
            name = expr.id
            key = ('name', name)
            if key in self._orig_cache:
                return self._orig_cache[key]
            if key in _stack:
                return set()
            out = set()
            if name == self.self_name:
                out.add(('selfobj',))
            elif name in self.params:
                out.add(('param', name))
            if name in self.assignments:
                for kind, v in self.assignments[name]:
                    if kind == 'elem':
                        out |= self.elements_of(v, _stack + (key,))
                    else:
                        out |= self.origins(v, _stack + (key,))
            elif name not in self.params and name not in self.locals:
                # free variable: a local/parameter of an enclosing function, or a module global
                outer = self.fi.outer
                found = False
                while outer is not None:
                    if name in local_names(outer.node):
                        ofx = FunctionEffects(outer, self.index)
                        for o in ofx.origins(ast.Name(id=name, ctx=ast.Load())):
                            out.add(('outerparam', o[1]) if o[0] == 'param' else o)
                        out.add(('closure', name))
                        found = True
                        break
                    outer = outer.outer
                if not found:
                    out.add(('global', name))
            if not _stack:
                self._orig_cache[key] = out
            return out or {FRESH}
        if isinstance(expr, ast.Attribute):
            if isinstance(expr.value, ast.Name) and expr.value.id == self.self_name:
                return {('self', expr.attr)}
            base = self.origins(expr.value, _stack)
            return {self._extend(o, expr.attr) for o in base}
        if isinstance(expr, ast.Subscript):
            if isinstance(expr.value, ast.Attribute) and isinstance(expr.value.value, ast.Name) \
                    and expr.value.value.id == self.self_name and isinstance(expr.slice, ast.Constant):
                return {('self', expr.value.attr), ('self', '%s[%r]' % (expr.value.attr, expr.slice.value))}
            if isinstance(expr.slice, ast.Slice):
                return {FRESH}       # x[:] / x[a:b] builds a new container
            return self.elements_of(expr.value, _stack)
        if isinstance(expr, ast.IfExp):
            return self.origins(expr.body, _stack) | self.origins(expr.orelse, _stack)
        if isinstance(expr, ast.BoolOp):
            out = set()
            for v in expr.values:
                out |= self.origins(v, _stack)
            return out
        if isinstance(expr, ast.NamedExpr):
            return self.origins(expr.value, _stack)
        if isinstance(expr, ast.Starred):
            return self.origins(expr.value, _stack)
        if isinstance(expr, ast.Call):
            f = expr.func
            if isinstance(f, ast.Name):
                if f.id in COPY_FUNCS:
                    return {FRESH}
                return {FRESH}
            if isinstance(f, ast.Attribute):
                if f.attr in COPY_METHODS:
                    return {FRESH}
                if f.attr in VIEW_METHODS:
                    out = self.elements_of(f.value, _stack) if f.attr in ('get', 'setdefault', 'pop', '__getitem__') \
                        else self.origins(f.value, _stack)
                    if f.attr in ('get', 'setdefault', 'pop') and len(expr.args) > 1:
                        out = out | self.origins(expr.args[1], _stack)
                    return out
                return {FRESH}
            return {FRESH}
        return {FRESH}

    def elements_of(self, container, _stack=()):
        """Origins of what can be read OUT of `container` (subscript, iteration, pop/get).

        For objects that come from outside (parameters, fields of self, globals) containment is deep: their
        elements are part of them.  For local containers the elements are whatever was put into them."""
        out = {o for o in self.origins(container, _stack) if o != FRESH}
        if isinstance(container, ast.Name) and container.id in self.elem_adds:
            key = ('elems', container.id)
            if key not in _stack:
                for kind, v in self.elem_adds[container.id]:
                    if kind == 'val':
                        out |= {o for o in self.origins(v, _stack + (key,)) if o != FRESH}
                    else:
                        out |= {o for o in self.elements_of(v, _stack + (key,)) if o != FRESH}
        if isinstance(container, (ast.List, ast.Tuple, ast.Set)):
            for e in container.elts:
                out |= {o for o in self.origins(e, _stack) if o != FRESH}
        if isinstance(container, ast.Call) and isinstance(container.func, ast.Name) and \
                container.func.id in ('zip', 'enumerate', 'reversed', 'sorted', 'list', 'tuple', 'iter'):
            for a in container.args:
                out |= {o for o in self.elements_of(a, _stack) if o != FRESH}
        if isinstance(container, ast.Call) and isinstance(container.func, ast.Attribute) and \
                container.func.attr in ('values', 'items', 'keys'):
            out |= {o for o in self.elements_of(container.func.value, _stack) if o != FRESH}
        return out or {FRESH}

    @staticmethod
    def _extend(origin, attr):
        return origin

    # ---------------------------------------------------------------- mutations
    def direct_mutations(self):
        """Stores through attributes/subscripts and mutating method calls (not plain rebinding)."""
        out = []
        for n in walk_own(self.fn):
            if isinstance(n, (ast.Assign, ast.AugAssign, ast.AnnAssign, ast.Delete)):
                targets = n.targets if isinstance(n, (ast.Assign, ast.Delete)) else [n.target]
                flat = []
                for t in targets:
                    flat.extend(_flatten_targets(t))
                for t in flat:
                    if isinstance(t, (ast.Subscript, ast.Attribute)):
                        how = {ast.Assign: 'store', ast.AugAssign: 'augmented store', ast.AnnAssign: 'store',
                               ast.Delete: 'delete'}[type(n)]
                        out.append(Mutation(n, t.value, how + ' ' + unparse(t), self.store_origins(t)))
                    elif isinstance(t, ast.Name) and isinstance(n, ast.AugAssign) and \
                            isinstance(n.value, (ast.List, ast.ListComp, ast.Dict, ast.Set, ast.DictComp, ast.SetComp)):
                        out.append(Mutation(n, t, 'in-place ' + type(n.op).__name__, self.origins(t)))
            elif isinstance(n, ast.Call) and isinstance(n.func, ast.Attribute) and n.func.attr in MUTATING_METHODS:
                recv = n.func.value
                # str/other immutable receivers are not distinguished: origins decide relevance
                out.append(Mutation(n, recv, '.%s()' % n.func.attr, self.origins(recv)))
        return out

    def store_origins(self, target):
        """Origins mutated by a store to target (an Attribute or Subscript in Store context)."""
        if isinstance(target, ast.Attribute) and isinstance(target.value, ast.Name) and target.value.id == self.self_name:
            return {('selfattr-rebind', target.attr)}     # rebinding a field of self: the *object* self changes
        if isinstance(target, ast.Attribute) and isinstance(target.value, ast.Name) \
                and target.value.id not in self.locals and target.value.id not in self.params:
            return {('global', target.value.id), ('globalattr', target.value.id + '.' + target.attr)}
        return self.origins(target.value)

    def calls_with_args(self):
        for n in walk_own(self.fn):
            if isinstance(n, ast.Call):
                yield n


def _flatten_targets(t):
    if isinstance(t, (ast.Tuple, ast.List)):
        for e in t.elts:
            for x in _flatten_targets(e):
                yield x
    elif isinstance(t, ast.Starred):
        for x in _flatten_targets(t.value):
            yield x
    else:
        yield t


class MutationSummaries(object):
    """param-mutation summaries: which parameters (by name) a function may mutate, transitively."""

    def __init__(self, index, max_depth=6):
        self.index = index
        self.max_depth = max_depth
        self._memo = {}
        self._fx = {}

    def fx(self, fi):
        k = fi.qualname
        if k not in self._fx:
            self._fx[k] = FunctionEffects(fi, self.index)
        return self._fx[k]

    def mutated_params(self, fi, _stack=()):
        """{param name: [Mutation or (call node, callee FuncInfo, callee param)]}"""
        k = fi.qualname
        if k in self._memo:
            return self._memo[k]
        if k in _stack or len(_stack) > self.max_depth:
            return {}
        fx = self.fx(fi)
        out = {}
        for m in fx.direct_mutations():
            for o in m.origins:
                if o[0] == 'param':
                    out.setdefault(o[1], []).append(m)
                elif o[0] == 'selfobj' and fx.self_name:
                    out.setdefault(fx.self_name, []).append(m)
        for via in self.call_mutations(fi, _stack + (k,)):
            for o in via.origins:
                if o[0] == 'param':
                    out.setdefault(o[1], []).append(via)
        # closures defined here that mutate one of our parameters
        for q, inner in self.index.funcs.items():
            if inner.outer is fi:
                for m in self.fx(inner).direct_mutations():
                    for o in m.origins:
                        if o[0] == 'outerparam':
                            out.setdefault(o[1], []).append(m)
        if not _stack:
            self._memo[k] = out
        return out

    def call_mutations(self, fi, _stack=()):
        """Mutations performed through callees on values whose origins lie in this function."""
        fx = self.fx(fi)
        out = []
        for call in fx.calls_with_args():
            targets, how = self.index.resolve_call(fi, call)
            for t in targets:
                if isinstance(t, tuple):
                    continue
                if t.qualname in _stack:
                    continue
                summ = self.mutated_params(t, _stack)
                if not summ:
                    continue
                mapping = map_args(t, call)
                for pname, arg in mapping.items():
                    if pname in summ and arg is not None:
                        out.append(Mutation(call, arg, 'passed to %s which mutates its parameter %r'
                                            % (t.qualname, pname), fx.origins(arg)))
        return out

    def all_mutations(self, fi):
        return self.fx(fi).direct_mutations() + self.call_mutations(fi, (fi.qualname,))


def map_args(callee, call):
    """Map callee parameter names to argument expressions of a call (bound-method aware)."""
    params = list(callee.params)
    bound = callee.cls is not None and not callee.is_static
    recv = None
    if bound and isinstance(call.func, ast.Attribute):
        recv = call.func.value
        if isinstance(recv, ast.Call) and isinstance(recv.func, ast.Name) and recv.func.id == 'super':
            recv = None
        # Class.method(obj, ...) style: receiver is the class itself
        if isinstance(recv, ast.Name) and recv.id[:1].isupper():
            bound = False
            recv = None
    mapping = {}
    if bound and params:
        mapping[params[0]] = recv
        params = params[1:]
    elif bound is False and callee.name == '__init__' and params:
        params = params[1:]
    if callee.name == '__init__' and callee.cls is not None and isinstance(call.func, (ast.Name, ast.Attribute)) \
            and not (isinstance(call.func, ast.Attribute) and call.func.attr == '__init__') and callee.params:
        params = list(callee.params)[1:]
    for p, a in zip(params, call.args):
        if isinstance(a, ast.Starred):
            break
        mapping[p] = a
    for kw in call.keywords:
        if kw.arg is not None:
            mapping[kw.arg] = kw.value
    return mapping
