"""CLI:  python -m sa check <ID> [--tier quick|thorough]
         python -m sa replay <path>
         python -m sa all [--tier ...]
         python -m sa selftest <ID>|all [--record]
Exit codes: 0 property held on everything analysed; 1 VIOLATION; 2 ANALYSIS-ERROR.
"""
import argparse
import json
import os
import sys
import traceback


def main(argv=None):
    ap = argparse.ArgumentParser(prog='sa')
    sub = ap.add_subparsers(dest='cmd')
    c = sub.add_parser('check')
    c.add_argument('prop')
    c.add_argument('--tier', default=os.environ.get('VERIF_TIER') or 'quick', choices=['quick', 'thorough'])
    c.add_argument('--root', default=None)
    c.add_argument('--no-write', action='store_true')
    a = sub.add_parser('all')
    a.add_argument('--tier', default='quick', choices=['quick', 'thorough'])
    a.add_argument('--no-write', action='store_true')
    r = sub.add_parser('replay')
    r.add_argument('path')
    s = sub.add_parser('selftest')
    s.add_argument('prop')
    s.add_argument('--record', action='store_true')
    s.add_argument('-v', action='store_true')
    args = ap.parse_args(argv)
    seed = int(os.environ.get('VERIF_SEED') or 0)
    from . import run, props
    if args.cmd == 'check':
        prop = args.prop.upper()
        try:
            return run.check(prop, tier=args.tier, seed=seed, root=args.root, write=not args.no_write)
        except Exception:
            print('ANALYSIS-ERROR property=%s rule=<checker> reason=internal error in the checker' % prop)
            traceback.print_exc()
            return 2
    if args.cmd == 'all':
        worst = 0
        for p in props.available():
            print('==== %s' % p)
            try:
                code = run.check(p, tier=args.tier, seed=seed, write=not args.no_write)
            except Exception:
                traceback.print_exc()
                code = 2
            print('==== %s exit %d' % (p, code))
            worst = max(worst, code) if code != 1 else 1
        return worst
    if args.cmd == 'replay':
        with open(args.path) as f:
            rp = json.load(f)
        ctx, mod = run.run_rules(rp['property'])
        ctx.finish_floors()
        hits = [o for o in ctx.obligations() if o.rule == rp['rule'] and o.construct == rp['construct']]
        print('replay of %s %s on the current tree:' % (rp['rule'], rp['construct']))
        code = 0
        for o in hits:
            print('  [%s] %s %s' % (o.status, o.loc, o.detail))
            if o.expected:
                print('      expected: %s' % o.expected)
            if o.found:
                print('      found:    %s' % o.found)
            if o.status == 'violation':
                code = 1
        if not hits:
            print('  construct no longer reported by this rule')
        return code
    if args.cmd == 'selftest':
        from . import selftest
        plist = props.available() if args.prop == 'all' else [args.prop.upper()]
        bad = 0
        for p in plist:
            res = selftest.run(p, props.load(p), record=args.record, verbose=args.v)
            print('%s: mutants %d/%d killed (%d skipped), benign %d/%d silent; corpora: seeds %d/%d reported, refactorings %d/%d silent (%d exit2)' % (
                p, res['mutants_killed'], res['mutants_total'], res['mutants_skipped'],
                res['benign_silent'], res['benign_total'], res['seeded_changes_reported'], res['seeded_changes_run'],
                res['refactorings_silent'], res['refactorings_run'], res['refactorings_analysis_error']))
            for d in res['defects']:
                print('   DEFECT: ' + d)
                bad += 1
        return 2 if bad else 0
    ap.print_help()
    return 2


if __name__ == '__main__':
    try:
        code = main()
    except SystemExit:
        raise
    except Exception:
        print('ANALYSIS-ERROR rule=<checker> reason=internal error in the checker')
        traceback.print_exc()
        code = 2
    sys.stdout.flush()
    sys.exit(code)
