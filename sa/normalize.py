"""Normalisation pass: inline *unreviewed* helper functions at their call sites.

The rules of the property modules are anchored in reviewed functions (sa/known_functions.txt is the
inventory of function names that existed when the rules were written).  The commonest
behaviour-preserving refactoring is "extract part of a function into a new private helper"; after it
the reviewed function no longer contains the construct a rule looks for, and an absence is then
easily mistaken for a removal.  This pass undoes that refactoring *for the analysis only*: every
function of the package that is not in the inventory and is called from package code is inlined at
its call sites (on the AST, in memory), when that can be done faithfully:

  * the callee is a plain function / method / staticmethod without *args/**kwargs, decorators other
    than staticmethod, yield, global/nonlocal, and is not recursive;
  * every `return` of the callee is in tail position once early returns are turned into if/else
    chains (no return inside a loop, try or with);
  * the call is the whole right-hand side of an assignment, the operand of `return` / `raise`, an
    expression statement, or -- when the callee is a single `return <expr>` -- any sub-expression;
    a call that is a strict sub-expression of a simple statement is first hoisted into a temporary
    unless it sits under a short-circuit operator, conditional expression, lambda or comprehension.

Parameters bound to plain names are substituted by renaming; other arguments are bound by an
assignment.  Locals of the callee are renamed only when they clash with names of the caller.
Helpers whose call sites were all inlined are removed from the tree, the others are reported in
`Index.unreviewed` so that a property can refuse to call a difference "definite" while unreviewed
code is reachable.  Line numbers of untouched nodes are preserved.
"""
import ast
import os

from .index import clone, set_parents, unparse, walk_own

HERE = os.path.dirname(os.path.abspath(__file__))
KNOWN_FILE = os.path.join(HERE, 'known_functions.txt')


class NotInlinable(Exception):
    pass


def load_known():
    if not os.path.exists(KNOWN_FILE):
        return None
    with open(KNOWN_FILE) as f:
        return {l.strip() for l in f if l.strip()}


def _always_exits(stmts):
    for s in stmts:
        if isinstance(s, (ast.Return, ast.Raise)):
            return True
        if isinstance(s, ast.If) and s.orelse and _always_exits(s.body) and _always_exits(s.orelse):
            return True
    return False


def _contains_return(node):
    for n in ast.walk(node):
        if isinstance(n, ast.Return):
            return True
    return False


def _tail(stmts, k):
    """Rewrite a statement list so that `return e` becomes k(e) and nothing follows a return."""
    out = []
    for i, s in enumerate(stmts):
        if isinstance(s, ast.Return):
            out.extend(k(s.value if s.value is not None else ast.Constant(value=None), s))
            return out, True
        if isinstance(s, ast.Raise):
            out.append(s)
            return out, True
        if isinstance(s, ast.If) and (_contains_return(s)):
            rest = stmts[i + 1:]
            body_exits = _always_exits(s.body)
            else_exits = _always_exits(s.orelse) if s.orelse else False
            body, _ = _tail(list(s.body) + ([] if body_exits else [clone(x) for x in rest]), k)
            orelse, _ = _tail(list(s.orelse) + ([] if else_exits else [clone(x) for x in rest]), k)
            new = ast.If(test=s.test, body=body or [ast.Pass()], orelse=orelse)
            ast.copy_location(new, s)
            out.append(new)
            return out, True
        if isinstance(s, (ast.For, ast.While, ast.Try, ast.With, ast.AsyncFor, ast.AsyncWith)) and _contains_return(s):
            raise NotInlinable('return inside loop/try/with')
        if isinstance(s, (ast.AsyncFunctionDef, ast.ClassDef)):
            raise NotInlinable('nested class / async definition')
        out.append(s)
    out.extend(k(ast.Constant(value=None), stmts[-1] if stmts else None, fell_off=True))
    return out, False


class _Renamer(ast.NodeTransformer):
    def __init__(self, mapping):
        self.mapping = mapping      # name -> ast expr (Name or other)

    def visit_Name(self, node):
        if node.id in self.mapping:
            new = clone(self.mapping[node.id])
            if isinstance(new, ast.Name):
                new.ctx = node.ctx
            ast.copy_location(new, node)
            return new
        return node

    def visit_arg(self, node):
        return node

    def visit_Lambda(self, node):
        shadow = {a.arg for a in node.args.args + node.args.kwonlyargs}
        inner = {k: v for k, v in self.mapping.items() if k not in shadow}
        node.body = _Renamer(inner).visit(node.body)
        return node

    def visit_FunctionDef(self, node):
        a = node.args
        shadow = {x.arg for x in a.posonlyargs + a.args + a.kwonlyargs}
        if a.vararg:
            shadow.add(a.vararg.arg)
        if a.kwarg:
            shadow.add(a.kwarg.arg)
        inner = _Renamer({k: v for k, v in self.mapping.items() if k not in shadow})
        node.body = [inner.visit(s) for s in node.body]
        if node.name in self.mapping and isinstance(self.mapping[node.name], ast.Name):
            node.name = self.mapping[node.name].id
        return node


def _body_without_docstring(fn):
    body = list(fn.body)
    if body and isinstance(body[0], ast.Expr) and isinstance(body[0].value, ast.Constant) and isinstance(body[0].value.value, str):
        body = body[1:]
    return body


def _callee_ok(fi):
    fn = fi.node
    if isinstance(fn, ast.AsyncFunctionDef):
        return False
    decos = set(fi.decorators)
    if decos - {'staticmethod'}:
        return False
    a = fn.args
    if a.vararg or a.kwarg or a.posonlyargs:
        return False
    for n in ast.walk(fn):
        if isinstance(n, (ast.Yield, ast.YieldFrom, ast.Global, ast.Nonlocal, ast.Await)):
            return False
        if isinstance(n, ast.Call) and isinstance(n.func, ast.Name) and n.func.id in ('locals', 'vars', 'super') and fi.cls is not None \
                and n.func.id == 'super':
            return False
    return True


def _names_stored(stmts):
    out = set()
    for s in stmts:
        for n in ast.walk(s):
            if isinstance(n, ast.Name) and isinstance(n.ctx, (ast.Store, ast.Del)):
                out.add(n.id)
            elif isinstance(n, ast.ExceptHandler) and n.name:
                out.add(n.name)
            elif isinstance(n, ast.FunctionDef):
                out.add(n.name)
    return out


def _is_literal(node):
    try:
        ast.literal_eval(node)
        return True
    except Exception:
        return False


def _names_used(node):
    return {n.id for n in ast.walk(node) if isinstance(n, ast.Name)}


class Inliner(object):
    def __init__(self, index, known):
        self.index = index
        self.known = known
        self.counter = 0
        self.inlined = {}       # callee qualname -> number of call sites inlined
        self.failed = {}        # callee qualname -> reason

    def candidates(self):
        out = {}
        for q, fi in self.index.funcs.items():
            if not q.startswith('mitxgraders.') or q in self.known:
                continue
            if fi.name.startswith('__') and fi.name.endswith('__'):
                continue
            if '<locals>' in q and self.single_expr(fi) is None:
                continue        # closures are inlined only when they are a single return expression
            out[q] = fi
        return out

    def bind(self, callee, call, caller_locals):
        """-> (prelude statements, renaming map) for the callee's parameters."""
        fn = callee.node
        params = [a.arg for a in fn.args.args]
        defaults = list(fn.args.defaults)
        default_map = dict(zip(params[len(params) - len(defaults):], defaults))
        for a, d in zip(fn.args.kwonlyargs, fn.args.kw_defaults):
            params.append(a.arg)
            if d is not None:
                default_map[a.arg] = d
        mapping = {}
        args = list(call.args)
        if any(isinstance(a, ast.Starred) for a in args) or any(k.arg is None for k in call.keywords):
            raise NotInlinable('star arguments')
        bound = callee.cls is not None and not callee.is_static
        recv = None
        if isinstance(call.func, ast.Attribute):
            recv = call.func.value
        pos = list(params)
        if bound:
            if recv is None:
                raise NotInlinable('bound call without receiver')
            if isinstance(recv, ast.Name) and recv.id[:1].isupper():
                pass         # Class.method(obj, ...): explicit self
            else:
                mapping[pos[0]] = recv
                pos = pos[1:]
        if len(args) > len(pos):
            raise NotInlinable('too many arguments')
        for p, a in zip(pos, args):
            mapping[p] = a
        for kw in call.keywords:
            if kw.arg not in params:
                raise NotInlinable('unknown keyword')
            mapping[kw.arg] = kw.value
        for p in params:
            if p not in mapping:
                if p in default_map:
                    mapping[p] = default_map[p]
                else:
                    raise NotInlinable('missing argument %s' % p)
        body = _body_without_docstring(fn)
        stored = _names_stored(body)
        prelude = []
        rename = {}
        for p, a in mapping.items():
            simple = isinstance(a, (ast.Name, ast.Constant)) or \
                (isinstance(a, ast.Attribute) and isinstance(a.value, ast.Name)) or _is_literal(a)
            if simple and p not in stored:
                rename[p] = a
            else:
                self.counter += 1
                tmp = p if (p not in caller_locals) else '%s_inl%d' % (p, self.counter)
                prelude.append(ast.Assign(targets=[ast.Name(id=tmp, ctx=ast.Store())], value=clone(a)))
                if tmp != p:
                    rename[p] = ast.Name(id=tmp, ctx=ast.Load())
        # callee locals that clash with caller names
        for name in stored - set(mapping):
            if name in caller_locals:
                self.counter += 1
                rename[name] = ast.Name(id='%s_inl%d' % (name, self.counter), ctx=ast.Load())
        return prelude, rename

    def expansion(self, callee, call, caller_locals, k):
        prelude, rename = self.bind(callee, call, caller_locals)
        body = [clone(s) for s in _body_without_docstring(callee.node)]
        body = [_Renamer(rename).visit(s) for s in body]
        stmts, _ = _tail(body, k)
        out = prelude + stmts
        for s in out:
            ast.copy_location(s, call)
            ast.fix_missing_locations(s)
        return out

    def single_expr(self, callee):
        body = _body_without_docstring(callee.node)
        if len(body) == 1 and isinstance(body[0], ast.Return) and body[0].value is not None:
            return body[0].value
        return None


def _is_call_to(index, caller_fi, node, targets_q):
    if not isinstance(node, ast.Call):
        return None
    try:
        targets, how = index.resolve_call(caller_fi, node)
    except Exception:
        return None
    funcs = [t for t in targets if not isinstance(t, tuple)]
    if len(funcs) == 1 and funcs[0].qualname in targets_q and how in ('exact', 'cha', 'unique-name'):
        f0 = funcs[0]
        if f0.outer is not None and isinstance(node.func, ast.Name):
            # a nested def whose name has another binding in the enclosing scope (`pred = is_square` in one branch, `def pred` in
            # the other): the call does not always reach this definition, so it must not be inlined
            nm = node.func.id
            other = 0
            for n in walk_own(f0.outer.node):
                if isinstance(n, ast.Name) and n.id == nm and isinstance(n.ctx, ast.Store):
                    other += 1
                elif isinstance(n, (ast.FunctionDef, ast.AsyncFunctionDef, ast.ClassDef)) and n.name == nm and n is not f0.node:
                    other += 1
            if other:
                return None
        return f0
    return None


def _under_shortcircuit(stmt, call):
    """Is `call` below a BoolOp / IfExp / lambda / comprehension within stmt's own expressions?"""
    def walk(node, risky):
        if node is call:
            return risky
        for child in ast.iter_child_nodes(node):
            if isinstance(child, ast.stmt) and child is not stmt:
                continue
            r = risky or isinstance(node, (ast.BoolOp, ast.IfExp, ast.Lambda, ast.ListComp, ast.SetComp, ast.DictComp,
                                           ast.GeneratorExp))
            if isinstance(node, ast.BoolOp) and node.values and child is node.values[0]:
                r = risky
            if isinstance(node, ast.IfExp) and child is node.test:
                r = risky
            res = walk(child, r)
            if res is not None:
                return res
        return None
    return bool(walk(stmt, False))


def normalize(index, known=None, rounds=3):
    """Inline unreviewed helpers in index (in place). Returns a report dict."""
    known = known if known is not None else load_known()
    report = {'inlined': {}, 'not_inlined': {}, 'removed': []}
    if known is None:
        return report
    for _ in range(rounds):
        inl = Inliner(index, known)
        cands = inl.candidates()
        if not cands:
            break
        changed = False
        cq = set(cands)
        remaining_calls = {q: 0 for q in cq}
        for m in index.package_modules():
            for fi in list(m.all_funcs):
                if fi.qualname in cq and False:
                    continue
                changed |= _inline_in_function(index, inl, fi, cq, remaining_calls, report)
        if not changed:
            break
        # drop helper definitions that are no longer called, rebuild the index tables
        _remove_dead(index, cq, report)
        index.rebuild()
    # whatever unreviewed function is still there and still called is reported
    left = {}
    for q, fi in index.funcs.items():
        if q.startswith('mitxgraders.') and q not in known and '<locals>' not in q and \
                not (fi.name.startswith('__') and fi.name.endswith('__')):
            left[q] = fi
    index.unreviewed = sorted(left)
    report['unreviewed_left'] = sorted(left)
    return report


def _inline_in_function(index, inl, fi, cq, remaining_calls, report):
    fn = fi.node
    caller_locals = set()
    for n in ast.walk(fn):
        if isinstance(n, ast.Name):
            caller_locals.add(n.id)
        elif isinstance(n, ast.arg):
            caller_locals.add(n.arg)
    changed = [False]

    def expand_stmt(s):
        """Return a list of statements replacing s (or [s])."""
        # direct forms
        call = None
        mode = None
        if isinstance(s, ast.Return) and isinstance(s.value, ast.Call):
            call, mode = s.value, 'return'
        elif isinstance(s, ast.Raise) and isinstance(s.exc, ast.Call) and s.cause is None:
            call, mode = s.exc, 'raise'
        elif isinstance(s, ast.Expr) and isinstance(s.value, ast.Call):
            call, mode = s.value, 'expr'
        elif isinstance(s, ast.Assign) and isinstance(s.value, ast.Call):
            call, mode = s.value, 'assign'
        elif isinstance(s, ast.AugAssign) and isinstance(s.value, ast.Call):
            call, mode = s.value, 'aug'
        callee = _is_call_to(index, fi, call, cq) if call is not None else None
        if callee is not None and callee.qualname != fi.qualname and _callee_ok(callee):
            try:
                if mode == 'return':
                    def k(e, src, fell_off=False):
                        return [ast.Return(value=e)]
                elif mode == 'raise':
                    def k(e, src, fell_off=False):
                        return [ast.Raise(exc=e, cause=None)]
                elif mode == 'expr':
                    def k(e, src, fell_off=False):
                        if fell_off or isinstance(e, ast.Constant):
                            return []
                        return [ast.Expr(value=e)]
                elif mode == 'assign':
                    def k(e, src, fell_off=False):
                        return [ast.Assign(targets=[clone(t) for t in s.targets], value=e)]
                else:
                    def k(e, src, fell_off=False):
                        return [ast.AugAssign(target=clone(s.target), op=s.op, value=e)]
                out = inl.expansion(callee, call, caller_locals, k)
                report['inlined'][callee.qualname] = report['inlined'].get(callee.qualname, 0) + 1
                changed[0] = True
                return out or [ast.copy_location(ast.Pass(), s)]
            except NotInlinable as e:
                report['not_inlined'][callee.qualname] = str(e)
        # nested calls: single-expression callees are substituted; others hoisted when safe
        heads = _head_exprs(s)
        for head in heads:
            for n in ast.walk(head):
                c = _is_call_to(index, fi, n, cq) if isinstance(n, ast.Call) else None
                if c is None or c.qualname == fi.qualname or not _callee_ok(c):
                    continue
                single = inl.single_expr(c)
                try:
                    if single is not None:
                        prelude, rename = inl.bind(c, n, caller_locals)
                        if prelude:
                            raise NotInlinable('argument needs a temporary')
                        new = _Renamer(rename).visit(clone(single))
                        _replace_node(s, n, new)
                        report['inlined'][c.qualname] = report['inlined'].get(c.qualname, 0) + 1
                        changed[0] = True
                        return expand_stmt(s)
                    if n is head and isinstance(s, (ast.Return, ast.Raise, ast.Expr, ast.Assign, ast.AugAssign)):
                        continue        # handled above (failed there)
                    if isinstance(s, (ast.For, ast.While, ast.With, ast.Try)) or _under_shortcircuit(s, n):
                        raise NotInlinable('call under a short-circuit / loop head')
                    inl.counter += 1
                    tmp = '_inl%d' % inl.counter

                    def k(e, src, fell_off=False, tmp=tmp):
                        return [ast.Assign(targets=[ast.Name(id=tmp, ctx=ast.Store())], value=e)]
                    pre = inl.expansion(c, n, caller_locals, k)
                    _replace_node(s, n, ast.Name(id=tmp, ctx=ast.Load()))
                    report['inlined'][c.qualname] = report['inlined'].get(c.qualname, 0) + 1
                    changed[0] = True
                    return pre + expand_stmt(s)
                except NotInlinable as e:
                    report['not_inlined'][c.qualname] = str(e)
        return [s]

    def process_block(stmts):
        out = []
        for s in stmts:
            for field in ('body', 'orelse', 'finalbody'):
                sub = getattr(s, field, None)
                if isinstance(sub, list) and sub and isinstance(sub[0], ast.stmt) and not isinstance(s, (ast.FunctionDef, ast.ClassDef, ast.AsyncFunctionDef)):
                    setattr(s, field, process_block(sub))
            if isinstance(s, ast.Try):
                for h in s.handlers:
                    h.body = process_block(h.body)
            if isinstance(s, (ast.FunctionDef, ast.AsyncFunctionDef, ast.ClassDef)):
                out.append(s)
                continue
            out.extend(expand_stmt(s))
        return out

    fn.body = process_block(fn.body)
    if changed[0]:
        ast.fix_missing_locations(fn)
        fn._sa_locals = None
        if hasattr(fn, '_sa_locals'):
            try:
                del fn._sa_locals
            except AttributeError:
                pass
    return changed[0]


def _head_exprs(s):
    if isinstance(s, (ast.If, ast.While)):
        return [s.test]
    if isinstance(s, (ast.For, ast.AsyncFor)):
        return [s.iter]
    if isinstance(s, (ast.With, ast.AsyncWith)):
        return [i.context_expr for i in s.items]
    if isinstance(s, ast.Try):
        return []
    if isinstance(s, (ast.FunctionDef, ast.ClassDef, ast.AsyncFunctionDef)):
        return []
    return [c for c in ast.iter_child_nodes(s) if isinstance(c, ast.expr)]


def _replace_node(root, old, new):
    for parent in ast.walk(root):
        for field, value in ast.iter_fields(parent):
            if value is old:
                setattr(parent, field, new)
                return True
            if isinstance(value, list):
                for i, v in enumerate(value):
                    if v is old:
                        value[i] = new
                        return True
    return False


def _remove_dead(index, cq, report):
    # count remaining references (calls or attribute/name uses) to each candidate's name
    for q in sorted(cq):
        fi = index.funcs.get(q)
        if fi is None:
            continue
        name = fi.name
        used = False
        for m in ([fi.module] if fi.outer is not None else index.package_modules()):
            for n in ast.walk(m.tree):
                if n is fi.node:
                    continue
                if isinstance(n, ast.Attribute) and n.attr == name:
                    used = True
                elif isinstance(n, ast.Name) and n.id == name and isinstance(n.ctx, ast.Load):
                    used = True
                if used:
                    break
            if used:
                break
        if used:
            # references from inside its own body do not count (recursion is never inlined anyway)
            continue
        # remove the definition from its container
        if fi.outer is not None:
            container = None
            for n in ast.walk(fi.outer.node):
                for field in ('body', 'orelse', 'finalbody'):
                    sub = getattr(n, field, None)
                    if isinstance(sub, list) and any(x is fi.node for x in sub):
                        container = sub
            if container is None:
                continue
        else:
            container = fi.cls.node.body if fi.cls is not None else fi.module.tree.body
        for i, s in enumerate(container):
            if s is fi.node:
                del container[i]
                if not container:
                    container.append(ast.Pass())
                report['removed'].append(q)
                break
