"""Normalisation pass: inline *unreviewed* helper functions at their call sites.

The rules of the property modules are anchored in reviewed functions (sa/known_functions.txt is the
inventory of function names that existed when the rules were written).  The commonest
behaviour-preserving refactoring is "extract part of a function into a new private helper"; after it
the reviewed function no longer contains the construct a rule looks for, and an absence is then
easily mistaken for a removal.  This pass undoes that refactoring *for the analysis only*: every
function of the package that is not in the inventory and is called from package code is inlined at
its call sites (on the AST, in memory), when that can be done faithfully:

  * the callee is a plain function / method / staticmethod without *args/**kwargs, decorators other
    than staticmethod, yield, global/nonlocal, and is not recursive;
  * every `return` of the callee is in tail position once early returns are turned into if/else
    chains (no return inside a loop, try or with);
  * the call is the whole right-hand side of an assignment, the operand of `return` / `raise`, an
    expression statement, or -- when the callee is a single `return <expr>` -- any sub-expression;
    a call that is a strict sub-expression of a simple statement is first hoisted into a temporary
    unless it sits under a short-circuit operator, conditional expression, lambda or comprehension.

Parameters bound to plain names are substituted by renaming; other arguments are bound by an
assignment.  Locals of the callee are renamed only when they clash with names of the caller.
Helpers whose call sites were all inlined are removed from the tree, the others are reported in
`Index.unreviewed` so that a property can refuse to call a difference "definite" while unreviewed
code is reachable.  Line numbers of untouched nodes are preserved.
"""
import ast
import os

from .index import clone, set_parents, unparse, walk_own

HERE = os.path.dirname(os.path.abspath(__file__))
KNOWN_FILE = os.path.join(HERE, 'known_functions.txt')


class NotInlinable(Exception):
    pass


def load_known():
    if not os.path.exists(KNOWN_FILE):
        return None
    with open(KNOWN_FILE) as f:
        return {l.strip() for l in f if l.strip()}


def _always_exits(stmts):
    for s in stmts:
        if isinstance(s, (ast.Return, ast.Raise)):
            return True
        if isinstance(s, ast.If) and s.orelse and _always_exits(s.body) and _always_exits(s.orelse):
            return True
    return False


def _contains_return(node):
    for n in ast.walk(node):
        if isinstance(n, ast.Return):
            return True
    return False


def _tail(stmts, k):
    """Rewrite a statement list so that `return e` becomes k(e) and nothing follows a return."""
    out = []
    for i, s in enumerate(stmts):
        if isinstance(s, ast.Return):
            out.extend(k(s.value if s.value is not None else ast.Constant(value=None), s))
            return out, True
        if isinstance(s, ast.Raise):
            out.append(s)
            return out, True
        if isinstance(s, ast.If) and (_contains_return(s)):
            rest = stmts[i + 1:]
            body_exits = _always_exits(s.body)
            else_exits = _always_exits(s.orelse) if s.orelse else False
            body, _ = _tail(list(s.body) + ([] if body_exits else [clone(x) for x in rest]), k)
            orelse, _ = _tail(list(s.orelse) + ([] if else_exits else [clone(x) for x in rest]), k)
            new = ast.If(test=s.test, body=body or [ast.Pass()], orelse=orelse)
            ast.copy_location(new, s)
            out.append(new)
            return out, True
        if isinstance(s, ast.Try) and _contains_return(s):
            # `try: ... return e  except H: ...` keeps its meaning when `return e` becomes the continuation k(e) *inside* the
            # try, provided k(e) itself cannot raise anything the handlers would then (wrongly) catch: k is a return, an
            # assignment to plain names or an expression statement (flagged try_safe by the caller), never a `raise`.
            if not getattr(k, 'try_safe', False):
                raise NotInlinable('return inside try, and the continuation may raise')
            if s.orelse or any(_contains_return(x) for x in s.finalbody):
                raise NotInlinable('return inside try with else / finally')
            rest = stmts[i + 1:]
            regions = [list(s.body)] + [list(h.body) for h in s.handlers]
            if rest and not all(_always_exits(rg) for rg in regions):
                raise NotInlinable('a region of the try falls through to the statements after it')
            body, _ = _tail(regions[0], k)
            handlers = []
            for h, rg in zip(s.handlers, regions[1:]):
                hb, _ = _tail(rg, k)
                nh = ast.ExceptHandler(type=h.type, name=h.name, body=hb or [ast.Pass()])
                ast.copy_location(nh, h)
                handlers.append(nh)
            new = ast.Try(body=body or [ast.Pass()], handlers=handlers, orelse=[], finalbody=list(s.finalbody))
            ast.copy_location(new, s)
            out.append(new)
            return out, True
        if isinstance(s, (ast.For, ast.While, ast.Try, ast.With, ast.AsyncFor, ast.AsyncWith)) and _contains_return(s):
            raise NotInlinable('return inside loop/try/with')
        if isinstance(s, (ast.AsyncFunctionDef, ast.ClassDef)):
            raise NotInlinable('nested class / async definition')
        out.append(s)
    out.extend(k(ast.Constant(value=None), stmts[-1] if stmts else None, fell_off=True))
    return out, False


class _Renamer(ast.NodeTransformer):
    def __init__(self, mapping):
        self.mapping = mapping      # name -> ast expr (Name or other)

    def visit_Name(self, node):
        if node.id in self.mapping:
            new = clone(self.mapping[node.id])
            if isinstance(new, ast.Name):
                new.ctx = node.ctx
            ast.copy_location(new, node)
            return new
        return node

    def visit_arg(self, node):
        return node

    def visit_ExceptHandler(self, node):
        if node.name and node.name in self.mapping and isinstance(self.mapping[node.name], ast.Name):
            node.name = self.mapping[node.name].id
        self.generic_visit(node)
        return node

    def visit_Lambda(self, node):
        shadow = {a.arg for a in node.args.args + node.args.kwonlyargs}
        inner = {k: v for k, v in self.mapping.items() if k not in shadow}
        node.body = _Renamer(inner).visit(node.body)
        return node

    def visit_FunctionDef(self, node):
        a = node.args
        shadow = {x.arg for x in a.posonlyargs + a.args + a.kwonlyargs}
        if a.vararg:
            shadow.add(a.vararg.arg)
        if a.kwarg:
            shadow.add(a.kwarg.arg)
        inner = _Renamer({k: v for k, v in self.mapping.items() if k not in shadow})
        node.body = [inner.visit(s) for s in node.body]
        if node.name in self.mapping and isinstance(self.mapping[node.name], ast.Name):
            node.name = self.mapping[node.name].id
        return node


def _body_without_docstring(fn):
    body = list(fn.body)
    if body and isinstance(body[0], ast.Expr) and isinstance(body[0].value, ast.Constant) and isinstance(body[0].value.value, str):
        body = body[1:]
    return body


def _callee_ok(fi):
    fn = fi.node
    if isinstance(fn, ast.AsyncFunctionDef):
        return False
    decos = set(fi.decorators)
    if decos - {'staticmethod', 'classmethod'}:
        return False
    a = fn.args
    if a.vararg or a.posonlyargs:
        return False
    if a.kwarg and not _kwarg_only_spread(fn):
        return False
    for n in ast.walk(fn):
        if isinstance(n, (ast.Yield, ast.YieldFrom, ast.Global, ast.Nonlocal, ast.Await)):
            return False
        if isinstance(n, ast.Call) and isinstance(n.func, ast.Name) and n.func.id in ('locals', 'vars', 'super') and fi.cls is not None \
                and n.func.id == 'super':
            return False
    return True


def _kwarg_only_spread(fn):
    """The `**kw` parameter of fn is used only as a `**kw` spread in calls (so the caller's extra keywords can be written in)."""
    kw = fn.args.kwarg.arg
    spreads = set()
    for n in ast.walk(fn):
        if isinstance(n, ast.Call):
            for k in n.keywords:
                if k.arg is None and isinstance(k.value, ast.Name) and k.value.id == kw:
                    spreads.add(id(k.value))
    for n in ast.walk(fn):
        if isinstance(n, ast.Name) and n.id == kw and id(n) not in spreads:
            return False
    return True


class _SpreadReplacer(ast.NodeTransformer):
    def __init__(self, kwname, keywords):
        self.kwname = kwname
        self.keywords = keywords

    def visit_Call(self, node):
        self.generic_visit(node)
        new = []
        for k in node.keywords:
            if k.arg is None and isinstance(k.value, ast.Name) and k.value.id == self.kwname:
                new.extend(ast.keyword(arg=x.arg, value=clone(x.value)) for x in self.keywords)
            else:
                new.append(k)
        node.keywords = new
        return node


def _names_stored(stmts):
    out = set()
    for s in stmts:
        for n in ast.walk(s):
            if isinstance(n, ast.Name) and isinstance(n.ctx, (ast.Store, ast.Del)):
                out.add(n.id)
            elif isinstance(n, ast.ExceptHandler) and n.name:
                out.add(n.name)
            elif isinstance(n, ast.FunctionDef):
                out.add(n.name)
    return out


def _is_literal(node):
    try:
        ast.literal_eval(node)
        return True
    except Exception:
        return False


def _names_used(node):
    return {n.id for n in ast.walk(node) if isinstance(n, ast.Name)}


class Inliner(object):
    def __init__(self, index, known):
        self.index = index
        self.known = known
        self.counter = 0
        self.inlined = {}       # callee qualname -> number of call sites inlined
        self.failed = {}        # callee qualname -> reason

    def candidates(self):
        out = {}
        for q, fi in self.index.funcs.items():
            if not q.startswith('mitxgraders.') or q in self.known:
                continue
            if fi.name.startswith('__') and fi.name.endswith('__'):
                continue
            if '<locals>' in q and self.single_expr(fi) is None:
                continue        # closures are inlined only when they are a single return expression
            out[q] = fi
        return out

    def bind(self, callee, call, caller_locals):
        """-> (prelude statements, renaming map) for the callee's parameters."""
        fn = callee.node
        params = [a.arg for a in fn.args.args]
        defaults = list(fn.args.defaults)
        default_map = dict(zip(params[len(params) - len(defaults):], defaults))
        for a, d in zip(fn.args.kwonlyargs, fn.args.kw_defaults):
            params.append(a.arg)
            if d is not None:
                default_map[a.arg] = d
        mapping = {}
        args = list(call.args)
        if any(isinstance(a, ast.Starred) for a in args) or any(k.arg is None for k in call.keywords):
            raise NotInlinable('star arguments')
        bound = callee.cls is not None and not callee.is_static
        recv = None
        if isinstance(call.func, ast.Attribute):
            recv = call.func.value
        pos = list(params)
        if bound:
            if recv is None:
                raise NotInlinable('bound call without receiver')
            if isinstance(recv, ast.Name) and recv.id[:1].isupper() and not callee.is_classmethod:
                pass         # Class.method(obj, ...): explicit self
            else:
                # (a classmethod's `cls` is bound to the receiver, instance or class: attribute lookups through it read the same
                # class attributes unless an instance attribute shadows them, which _table_rows excludes)
                mapping[pos[0]] = recv
                pos = pos[1:]
        if len(args) > len(pos):
            raise NotInlinable('too many arguments')
        for p, a in zip(pos, args):
            mapping[p] = a
        self.spread = None
        extra = []
        for kw in call.keywords:
            if kw.arg not in params:
                if fn.args.kwarg is None:
                    raise NotInlinable('unknown keyword')
                if not (isinstance(kw.value, (ast.Name, ast.Constant)) or _is_literal(kw.value)):
                    raise NotInlinable('extra keyword with a computed value')
                extra.append(kw)
                continue
            mapping[kw.arg] = kw.value
        if fn.args.kwarg is not None:
            self.spread = (fn.args.kwarg.arg, extra)
        for p in params:
            if p not in mapping:
                if p in default_map:
                    mapping[p] = default_map[p]
                else:
                    raise NotInlinable('missing argument %s' % p)
        body = _body_without_docstring(fn)
        stored = _names_stored(body)
        prelude = []
        rename = {}
        for p, a in mapping.items():
            simple = isinstance(a, (ast.Name, ast.Constant)) or \
                (isinstance(a, ast.Attribute) and isinstance(a.value, ast.Name)) or _is_literal(a)
            if simple and p not in stored:
                rename[p] = a
            else:
                self.counter += 1
                tmp = p if (p not in caller_locals) else '%s_inl%d' % (p, self.counter)
                prelude.append(ast.Assign(targets=[ast.Name(id=tmp, ctx=ast.Store())], value=clone(a)))
                if tmp != p:
                    rename[p] = ast.Name(id=tmp, ctx=ast.Load())
        # callee locals that clash with caller names
        for name in stored - set(mapping):
            if name in caller_locals:
                self.counter += 1
                rename[name] = ast.Name(id='%s_inl%d' % (name, self.counter), ctx=ast.Load())
        return prelude, rename

    def expansion(self, callee, call, caller_locals, k, caller_fi=None):
        prelude, rename = self.bind(callee, call, caller_locals)
        body = [clone(s) for s in _body_without_docstring(callee.node)]
        if self.spread is not None:
            body = [_SpreadReplacer(*self.spread).visit(s) for s in body]
        body = [_Renamer(rename).visit(s) for s in body]
        if caller_fi is not None and caller_fi.module is callee.module and any(isinstance(n, ast.For) or (isinstance(n, ast.Call) and isinstance(n.func, ast.Name) and n.func.id == 'next')
                                         for s_ in body for n in ast.walk(s_)):
            # specialise before inlining: with the arguments written in, a loop / next() of the helper may now run over a
            # literal table of the CALLER (`rows` -> `Cls.TABLE`); unrolling it first can remove a `return` from inside a loop
            import types
            shim_fn = ast.FunctionDef(name='_shim', args=callee.node.args, body=body, decorator_list=[], returns=None, type_comment=None)
            shim = types.SimpleNamespace(node=shim_fn, module=caller_fi.module, cls=caller_fi.cls, qualname=callee.qualname)
            try:
                unroll_table_loops(self.index, shim)
                reduce_table_next(self.index, shim)
                body = _fold(shim_fn.body, self.index, shim)
            except Exception:
                body = shim_fn.body
        stmts, _ = _tail(body, k)
        out = prelude + stmts
        for s in out:
            ast.copy_location(s, call)
            ast.fix_missing_locations(s)
            for n in ast.walk(s):
                if isinstance(n, ast.For):
                    n._sa_inlined = True        # a loop that came out of an inlined helper (see unroll_table_loops)
        return out

    def single_expr(self, callee):
        body = _body_without_docstring(callee.node)
        if len(body) == 1 and isinstance(body[0], ast.Return) and body[0].value is not None:
            return body[0].value
        return None


# ----------------------------------------------------------------------------- literal-table loops
MAX_UNROLL = 12


def _single_assign_value(stmts, name):
    """Value of the only binding of `name` among the statements (own scope of a function / class / module), else None."""
    vals = []
    for n in stmts:
        for x in ast.walk(n) if not isinstance(n, (ast.FunctionDef, ast.AsyncFunctionDef, ast.ClassDef)) else [n]:
            if isinstance(x, ast.Assign):
                for t in x.targets:
                    for tn in ast.walk(t):
                        if isinstance(tn, ast.Name) and tn.id == name:
                            vals.append(x.value if len(x.targets) == 1 and isinstance(t, ast.Name) else None)
            elif isinstance(x, (ast.AugAssign, ast.AnnAssign)) and isinstance(x.target, ast.Name) and x.target.id == name:
                vals.append(None)
            elif isinstance(x, (ast.For, ast.AsyncFor)):
                if any(isinstance(tn, ast.Name) and tn.id == name for tn in ast.walk(x.target)):
                    vals.append(None)
            elif isinstance(x, (ast.FunctionDef, ast.AsyncFunctionDef, ast.ClassDef)) and x.name == name:
                vals.append(None)
            elif isinstance(x, (ast.With, ast.AsyncWith)):
                for it in x.items:
                    if it.optional_vars is not None and any(isinstance(tn, ast.Name) and tn.id == name for tn in ast.walk(it.optional_vars)):
                        vals.append(None)
            elif isinstance(x, ast.NamedExpr) and x.target.id == name:
                vals.append(None)
    if len(vals) == 1 and vals[0] is not None:
        return vals[0]
    return None


def _atom(e):
    """Expressions that may be substituted for a loop variable without changing what is evaluated."""
    if isinstance(e, (ast.Constant, ast.Name)):
        return True
    if isinstance(e, ast.Attribute):
        return _atom(e.value)
    if isinstance(e, ast.UnaryOp) and isinstance(e.op, ast.USub):
        return isinstance(e.operand, ast.Constant)
    return False


def _table_rows(index, fi, it, allow_lambda=False):
    """Rows of the literal tuple/list a loop iterates over: written in place, or bound exactly once to a local name, a
    module-level name or a class attribute (`Cls.T`, `self.T`, `cls.T`).  None when not such a table."""
    val = None
    if isinstance(it, (ast.Tuple, ast.List)):
        val = it
    elif isinstance(it, ast.Name):
        fn = fi.node
        local = any(isinstance(n, ast.Name) and n.id == it.id and isinstance(n.ctx, ast.Store) for n in ast.walk(fn))
        if local:
            val = _single_assign_value(fn.body, it.id)
        elif it.id not in {a.arg for a in ast.walk(fn.args) if isinstance(a, ast.arg)}:
            val = _single_assign_value(fi.module.tree.body, it.id)
    elif isinstance(it, ast.Attribute) and isinstance(it.value, ast.Name):
        ci = None
        if it.value.id in ('self', 'cls') and fi.cls is not None:
            ci = fi.cls
        else:
            q = None
            try:
                q = index.resolve_name(fi.module, it.value.id)
            except Exception:
                q = None
            if isinstance(q, tuple) and len(q) == 2 and q[0] == 'class':
                ci = q[1]
            elif isinstance(q, str):
                ci = index.classes.get(q)
        if ci is not None:
            owner, _ = index.lookup_attr(ci, it.attr)
            if owner is not None:
                val = _single_assign_value(owner.node.body, it.attr)
                # an instance could shadow the class attribute: any store to `.attr` anywhere in the package disables the reading
                for m in index.package_modules():
                    for n in ast.walk(m.tree):
                        if isinstance(n, ast.Attribute) and n.attr == it.attr and isinstance(n.ctx, (ast.Store, ast.Del)):
                            val = None
    if not isinstance(val, (ast.Tuple, ast.List)) or not (0 < len(val.elts) <= MAX_UNROLL):
        return None
    return list(val.elts)


def _pure(e):
    """Call-free expressions over names, constants, attributes, subscripts and operators: evaluating them later (once)
    instead of when the table is built differs only in when a failing subscript / comparison would raise."""
    for n in ast.walk(e):
        if not isinstance(n, (ast.Name, ast.Constant, ast.Attribute, ast.Subscript, ast.Compare, ast.BoolOp, ast.UnaryOp, ast.BinOp,
                              ast.IfExp, ast.Tuple, ast.List, ast.JoinedStr, ast.FormattedValue,
                              ast.expr_context, ast.boolop, ast.unaryop, ast.operator, ast.cmpop)):
            return False
    return True


def _has_own_jump(stmts):
    for n in stmts:
        if isinstance(n, (ast.Break, ast.Continue)):
            return True
        if isinstance(n, ast.If) and (_has_own_jump(n.body) or _has_own_jump(n.orelse)):
            return True
    return False


def _seq(body, rest):
    """Statements equivalent to one unrolled iteration `body` followed by the remaining iterations `rest`, where a
    `continue` in body goes on with rest and a `break` skips rest (both only in plain if/else nesting)."""
    out = []
    for i, s in enumerate(body):
        if isinstance(s, ast.Continue):
            return out + [clone(x) for x in rest]
        if isinstance(s, ast.Break):
            return out
        if isinstance(s, (ast.Return, ast.Raise)):
            out.append(s)
            return out
        if isinstance(s, ast.If) and _has_own_jump([s]):
            after = list(body[i + 1:])
            new = ast.If(test=s.test, body=_seq(list(s.body) + [clone(x) for x in after], rest) or [ast.Pass()],
                         orelse=_seq(list(s.orelse) + [clone(x) for x in after], rest))
            ast.copy_location(new, s)
            out.append(new)
            return out
        out.append(s)
    return out + [clone(x) for x in rest]


def _is_class_or_func(name, index, fi):
    local = any(isinstance(n, (ast.Name, ast.arg)) and getattr(n, 'id', getattr(n, 'arg', None)) == name
                and (isinstance(n, ast.arg) or isinstance(n.ctx, ast.Store)) for n in ast.walk(fi.node))
    if local:
        return False
    try:
        q = index.resolve_name(fi.module, name)
    except Exception:
        return False
    return isinstance(q, tuple) and bool(q) and q[0] in ('class', 'func', 'function')


def _const_test(test, index, fi, env=None):
    """Truth value of a test that is decided by what the names ARE (None literal, a class, a function; env: locals just
    bound to None / to a freshly constructed object in the same straight-line block), else None."""
    env = env or {}
    if isinstance(test, ast.Constant):
        return bool(test.value)
    if isinstance(test, ast.Name) and test.id not in env and _is_class_or_func(test.id, index, fi):
        return True
    if isinstance(test, ast.Name) and test.id in env:
        return False if env[test.id] == 'none' else None
    if isinstance(test, ast.UnaryOp) and isinstance(test.op, ast.Not):
        v = _const_test(test.operand, index, fi, env)
        return None if v is None else (not v)
    if isinstance(test, ast.Compare) and len(test.ops) == 1 and isinstance(test.ops[0], (ast.Is, ast.IsNot)) \
            and isinstance(test.comparators[0], ast.Constant) and test.comparators[0].value is None:
        left = test.left
        is_none = None
        if isinstance(left, ast.Constant):
            is_none = left.value is None
        elif isinstance(left, ast.Name) and left.id in env:
            is_none = env[left.id] == 'none'
        elif isinstance(left, ast.Name):
            if _is_class_or_func(left.id, index, fi):
                is_none = False
        if is_none is None:
            return None
        return is_none if isinstance(test.ops[0], ast.Is) else (not is_none)
    return None


def _stored_in(node):
    return {n.id for n in ast.walk(node) if isinstance(n, ast.Name) and isinstance(n.ctx, (ast.Store, ast.Del))}


def _fold(stmts, index, fi, env=None):
    """Drop branches whose test is decided by _const_test and statements after an unconditional exit.  env tracks, within one
    straight-line block, locals just bound to None ('none') or to a freshly constructed object of a known class ('obj')."""
    env = dict(env or {})
    out = []
    for s in stmts:
        if isinstance(s, ast.If):
            v = _const_test(s.test, index, fi, env)
            if v is True:
                sub = _fold(s.body, index, fi, env)
                out.extend(sub)
                for nm in _stored_in(s):
                    env.pop(nm, None)
            elif v is False:
                sub = _fold(s.orelse, index, fi, env)
                out.extend(sub)
                for nm in _stored_in(s):
                    env.pop(nm, None)
            else:
                s.body = _fold(s.body, index, fi, env) or [ast.copy_location(ast.Pass(), s)]
                s.orelse = _fold(s.orelse, index, fi, env)
                out.append(s)
                for nm in _stored_in(s):
                    env.pop(nm, None)
        else:
            if isinstance(s, (ast.Assign, ast.Return, ast.Raise, ast.Expr)):
                s = _FoldBool(index, fi).visit(s)
            out.append(s)
            stored = _stored_in(s)
            for nm in stored:
                env.pop(nm, None)
            if isinstance(s, ast.Assign) and len(s.targets) == 1 and isinstance(s.targets[0], ast.Name):
                v = s.value
                if isinstance(v, ast.Constant) and v.value is None:
                    env[s.targets[0].id] = 'none'
                elif isinstance(v, ast.Call) and isinstance(v.func, ast.Name) and _is_class_or_func(v.func.id, index, fi) \
                        and v.func.id[:1].isupper():
                    env[s.targets[0].id] = 'obj'
        if out and isinstance(out[-1], (ast.Return, ast.Raise, ast.Break, ast.Continue)):
            break
    return out


class _FoldBool(ast.NodeTransformer):
    """`Cls and X` -> X, `None and X` -> None, `None or X` -> X (operands decided by what the names are)."""
    def __init__(self, index, fi):
        self.index, self.fi = index, fi

    def visit_BoolOp(self, node):
        self.generic_visit(node)
        vals = list(node.values)
        while len(vals) > 1:
            v = _const_test(vals[0], self.index, self.fi)
            if v is None:
                break
            if isinstance(node.op, ast.And):
                if v:
                    vals.pop(0)
                else:
                    return vals[0]
            else:
                if v:
                    return vals[0]
                vals.pop(0)
        if len(vals) == 1:
            return vals[0]
        node.values = vals
        return node

    def visit_Lambda(self, node):
        return node


def unroll_table_loops(index, fi, only_temps=False):
    """(only_temps: only loops over a temporary `_inlN` that holds the literal table an inlined helper returned.)
    In the (unreviewed) function fi, replace `for a, b in TABLE: body` over a literal table by one copy of the body per row
    with the row's entries substituted for the loop variables.  Faithful when the body neither breaks / continues nor
    stores to the loop variables, the loop has no else, the entries are atoms (names, constants, dotted names), and the
    loop variables are not read after the loop.  Returns the number of loops unrolled."""
    count = [0]

    def names_loaded_after(stmts_after, names):
        for s in stmts_after:
            for n in ast.walk(s):
                if isinstance(n, ast.Name) and n.id in names and isinstance(n.ctx, ast.Load):
                    return True
        return False

    def try_unroll(loop, after):
        if not isinstance(loop, ast.For) or loop.orelse:
            return None
        tgt = loop.target
        if isinstance(tgt, ast.Name):
            tnames = [tgt.id]
        elif isinstance(tgt, (ast.Tuple, ast.List)) and all(isinstance(e, ast.Name) for e in tgt.elts):
            tnames = [e.id for e in tgt.elts]
        else:
            return None
        if only_temps and not ((isinstance(loop.iter, ast.Name) and loop.iter.id.startswith('_inl')) or getattr(loop, '_sa_inlined', False)):
            return None
        rows = _table_rows(index, fi, loop.iter)
        if rows is None:
            return None
        loads = {}
        for s_ in loop.body:
            for n in ast.walk(s_):
                if isinstance(n, ast.Name) and n.id in tnames and isinstance(n.ctx, ast.Load):
                    loads[n.id] = loads.get(n.id, 0) + 1

        def substitutable(e, var):
            return _atom(e) or (_pure(e) and loads.get(var, 0) <= 1)
        # body restrictions
        # break / continue of THIS loop are handled when they sit in plain if/else nesting (see _seq); anywhere else
        # (inside try / with / a nested loop's else ...) the loop is left alone
        def own_jumps_ok(stmts, plain):
            for n in stmts:
                if isinstance(n, (ast.Break, ast.Continue)):
                    if not plain:
                        return False
                elif isinstance(n, ast.If):
                    if not own_jumps_ok(n.body, plain) or not own_jumps_ok(n.orelse, plain):
                        return False
                elif isinstance(n, (ast.For, ast.While, ast.AsyncFor)):
                    if not own_jumps_ok(n.orelse, False):
                        return False
                elif isinstance(n, (ast.Try, ast.With, ast.AsyncWith)):
                    subs = list(n.body) + list(getattr(n, 'orelse', [])) + list(getattr(n, 'finalbody', []))
                    for h in getattr(n, 'handlers', []):
                        subs += list(h.body)
                    if not own_jumps_ok(subs, False):
                        return False
            return True
        if not own_jumps_ok(loop.body, True):
            return None
        stack = list(loop.body)
        while stack:
            n = stack.pop()
            if isinstance(n, (ast.FunctionDef, ast.AsyncFunctionDef, ast.Lambda, ast.ClassDef)):
                return None
            if isinstance(n, ast.Name) and n.id in tnames and isinstance(n.ctx, (ast.Store, ast.Del)):
                return None
            stack.extend(ast.iter_child_nodes(n))
        if names_loaded_after(after, set(tnames)):
            return None
        bodies = []
        out = []
        for row in rows:
            if isinstance(tgt, ast.Name):
                if not (_atom(row) or (isinstance(row, (ast.Tuple, ast.List)) and all(_atom(e) for e in row.elts))):
                    return None
                mapping = {tgt.id: row}
            else:
                if not isinstance(row, (ast.Tuple, ast.List)) or len(row.elts) != len(tnames) or \
                        not all(substitutable(e, v) for e, v in zip(row.elts, tnames)):
                    return None
                mapping = dict(zip(tnames, row.elts))
            bodies.append([_Renamer(mapping).visit(clone(s)) for s in loop.body])
        # chain the copies: `continue` goes on with the next copy, `break` leaves them all
        rest = []
        for body in reversed(bodies):
            rest = _seq(body, rest)
        out = _fold(rest, index, fi)
        for s in out:
            ast.copy_location(s, loop)
            ast.fix_missing_locations(s)
        return out or [ast.copy_location(ast.Pass(), loop)]

    def block(stmts):
        res = []
        for i, s in enumerate(stmts):
            for field in ('body', 'orelse', 'finalbody'):
                sub = getattr(s, field, None)
                if isinstance(sub, list) and sub and isinstance(sub[0], ast.stmt) and not isinstance(s, (ast.FunctionDef, ast.ClassDef, ast.AsyncFunctionDef)):
                    setattr(s, field, block(sub))
            if isinstance(s, ast.Try):
                for h in s.handlers:
                    h.body = block(h.body)
            un = try_unroll(s, stmts[i + 1:])
            if un is not None:
                count[0] += 1
                res.extend(un)
            else:
                res.append(s)
        return res

    fi.node.body = block(fi.node.body)
    return count[0]


# ----------------------------------------------------------------------------- lambdas in data
class _BetaReduce(ast.NodeTransformer):
    """`(lambda a, b: body)(x, y)` -> body[a:=x, b:=y] when the arguments are atoms (or the parameter is used at most once)."""
    def visit_Call(self, node):
        self.generic_visit(node)
        f = node.func
        if isinstance(f, ast.Lambda) and not node.keywords and not any(isinstance(a, ast.Starred) for a in node.args):
            a = f.args
            if a.vararg or a.kwarg or a.kwonlyargs or a.posonlyargs or a.defaults or len(a.args) != len(node.args):
                return node
            names = [x.arg for x in a.args]
            uses = {}
            for n in ast.walk(f.body):
                if isinstance(n, ast.Name) and n.id in names:
                    uses[n.id] = uses.get(n.id, 0) + 1
                if isinstance(n, ast.Lambda):
                    return node          # nested lambdas may shadow: left alone
            for nm, arg in zip(names, node.args):
                if not (_atom(arg) or (_pure(arg) and uses.get(nm, 0) <= 1)):
                    return node
            return _Renamer(dict(zip(names, node.args))).visit(clone(f.body))
        return node


def _fold_expr(e, index, fi):
    """Conditional expressions whose test is decided by _const_test."""
    class F(ast.NodeTransformer):
        def visit_IfExp(self, node):
            self.generic_visit(node)
            v = _const_test(node.test, index, fi)
            if v is True:
                return node.body
            if v is False:
                return node.orelse
            return node
    return F().visit(e)


def reduce_table_next(index, fi):
    """`next(E for a, b in TABLE if C)` over a literal table (rows of atoms or lambdas) -> the first-match conditional
    expression `E1 if C1 else (E2 if C2 else ...)`; only when the last row's condition is decided true (or a default is
    given), so that the exhausted-generator case does not arise.  Returns the number of rewrites."""
    count = [0]

    class T(ast.NodeTransformer):
        def visit_Call(self, node):
            self.generic_visit(node)
            if not (isinstance(node.func, ast.Name) and node.func.id == 'next' and not node.keywords and len(node.args) in (1, 2)
                    and isinstance(node.args[0], ast.GeneratorExp) and len(node.args[0].generators) == 1):
                return node
            ge = node.args[0]
            gen = ge.generators[0]
            if gen.is_async:
                return node
            tgt = gen.target
            if isinstance(tgt, ast.Name):
                tnames = [tgt.id]
            elif isinstance(tgt, (ast.Tuple, ast.List)) and all(isinstance(x, ast.Name) for x in tgt.elts):
                tnames = [x.id for x in tgt.elts]
            else:
                return node
            rows = _table_rows(index, fi, gen.iter, allow_lambda=True)
            if rows is None:
                return node
            cases = []
            for row in rows:
                if isinstance(tgt, ast.Name):
                    mapping = {tgt.id: row}
                else:
                    if not isinstance(row, (ast.Tuple, ast.List)) or len(row.elts) != len(tnames):
                        return node
                    mapping = dict(zip(tnames, row.elts))
                for v in mapping.values():
                    if not (_atom(v) or isinstance(v, ast.Lambda)):
                        return node
                conds = [_fold_expr(_BetaReduce().visit(_Renamer(mapping).visit(clone(c))), index, fi) for c in gen.ifs]
                elt = _fold_expr(_BetaReduce().visit(_Renamer(mapping).visit(clone(ge.elt))), index, fi)
                for x in conds + [elt]:
                    if any(isinstance(n, ast.Lambda) for n in ast.walk(x)):
                        return node        # a lambda that was not applied on the spot: not reduced
                cond = ast.Constant(value=True) if not conds else (conds[0] if len(conds) == 1 else ast.BoolOp(op=ast.And(), values=conds))
                cases.append((cond, elt))
            tail = node.args[1] if len(node.args) == 2 else None
            while cases and tail is None:
                cond, elt = cases[-1]
                if _const_test(cond, index, fi) is True:
                    tail = elt
                    cases.pop()
                else:
                    return node            # an exhausted generator would raise StopIteration: not expressible, left alone
            out = tail
            for cond, elt in reversed(cases):
                v = _const_test(cond, index, fi)
                if v is True:
                    out = elt
                elif v is False:
                    continue
                else:
                    out = ast.IfExp(test=cond, body=elt, orelse=out)
            count[0] += 1
            return ast.copy_location(out, node)

    fi.node.body = [T().visit(s_) for s_ in fi.node.body]
    if count[0]:
        ast.fix_missing_locations(fi.node)
    return count[0]


# ----------------------------------------------------------------------------- catch-all handler with an isinstance chain
_BUILTIN_NON_EXCEPTION = {'KeyboardInterrupt', 'SystemExit', 'GeneratorExit', 'BaseException'}


def split_dispatch_handlers(fn, index=None, fi=None):
    """`except Exception as e:` whose body is a chain of `isinstance(e, C)` tests is rewritten as one handler per class
    (same order) followed by the catch-all with the chain's default -- the form the rules read.  Returns the count."""
    count = 0
    for tr in [n for n in ast.walk(fn) if isinstance(n, ast.Try)]:
        new_handlers = []
        for h in tr.handlers:
            rows = _dispatch_rows(h)
            if rows is None:
                new_handlers.append(h)
                continue
            count += 1
            for cls_expr, body in rows:
                if index is not None and fi is not None:
                    body = _fold([clone(x) for x in body], index, fi)
                uses = any(isinstance(n, ast.Name) and n.id == h.name for s in body for n in ast.walk(s))
                nh = ast.ExceptHandler(type=cls_expr if cls_expr is not None else h.type, name=h.name if uses else None,
                                       body=body or [ast.Pass()])
                ast.copy_location(nh, h)
                ast.fix_missing_locations(nh)
                new_handlers.append(nh)
        tr.handlers = new_handlers
    return count


def _dispatch_rows(h):
    """Rows [(class expression or None for the default, body)] of a handler whose body is a first-match chain of
    `isinstance(e, C)` tests on the caught exception; None when it is not such a chain."""
    if h.name is None or h.type is None:
        return None
    hparts = h.type.elts if isinstance(h.type, ast.Tuple) else [h.type]
    if not all(isinstance(x, ast.Name) or (isinstance(x, ast.Attribute) and _atom(x)) for x in hparts):
        return None
    hnames = [unparse(x) for x in hparts]
    catch_all = hnames in (['Exception'], ['BaseException'])
    e = h.name
    for n in ast.walk(h):
        if isinstance(n, ast.Name) and n.id == e and isinstance(n.ctx, (ast.Store, ast.Del)):
            return None

    def isinst(test):
        if isinstance(test, ast.Call) and isinstance(test.func, ast.Name) and test.func.id == 'isinstance' and len(test.args) == 2 \
                and not test.keywords and isinstance(test.args[0], ast.Name) and test.args[0].id == e:
            c = test.args[1]
            parts = c.elts if isinstance(c, ast.Tuple) else [c]
            for x in parts:
                if not (isinstance(x, ast.Name) or (isinstance(x, ast.Attribute) and _atom(x))):
                    return None
                if catch_all:
                    if isinstance(x, ast.Name) and x.id in _BUILTIN_NON_EXCEPTION and x.id != hnames[0]:
                        return None
                elif unparse(x) not in hnames:
                    return None       # `except (A, B) as e`: only tests for A or B themselves are split off
            return c
        return None

    def distribute(stmts):
        """Statements after an if/else are copied into the branches that do not exit, so that the chain can be read."""
        out = []
        for i, s_ in enumerate(stmts):
            if isinstance(s_, ast.If) and isinst(s_.test) is not None and stmts[i + 1:]:
                rest = stmts[i + 1:]
                body = list(s_.body) + ([] if _always_exits(s_.body) else [clone(x) for x in rest])
                orelse = list(s_.orelse) + ([] if (s_.orelse and _always_exits(s_.orelse)) else [clone(x) for x in rest])
                new = ast.If(test=s_.test, body=distribute(body), orelse=distribute(orelse))
                ast.copy_location(new, s_)
                out.append(new)
                return out
            if isinstance(s_, ast.If) and isinst(s_.test) is not None:
                new = ast.If(test=s_.test, body=list(s_.body), orelse=distribute(list(s_.orelse)))
                ast.copy_location(new, s_)
                out.append(new)
                return out
            out.append(s_)
        return out

    rows = []
    prelude = []
    stmts = distribute([x for x in h.body if not isinstance(x, ast.Pass)] or list(h.body))
    while True:
        while stmts and isinstance(stmts[0], ast.Assign) and len(stmts[0].targets) == 1 and isinstance(stmts[0].targets[0], ast.Name) \
                and e not in _names_used(stmts[0].value) and not any(isinstance(n, ast.Call) for n in ast.walk(stmts[0].value)
                                                                     if not _is_format_call(n)):
            prelude.append(stmts.pop(0))
        if not stmts:
            rows.append((None, [clone(x) for x in prelude]))
            break
        s0 = stmts[0]
        c = isinst(s0.test) if isinstance(s0, ast.If) else None
        if c is None:
            rows.append((None, [clone(x) for x in prelude] + stmts))
            break
        if isinstance(c, ast.Name) and catch_all and c.id == hnames[0]:
            rows.append((None, [clone(x) for x in prelude] + list(s0.body)))      # always true here: the default
            break
        if len(stmts) > 1:
            return None        # (distribute left nothing behind an isinstance test; anything else is not a chain)
        body = [x for x in s0.body if not isinstance(x, ast.Pass)]
        rows.append((c, [clone(x) for x in prelude] + body))
        stmts = [x for x in s0.orelse if not isinstance(x, ast.Pass)]
    if len(rows) < 2:
        return None
    if not catch_all:
        covered = set()
        for c, _ in rows:
            if c is not None:
                covered.update(unparse(x) for x in (c.elts if isinstance(c, ast.Tuple) else [c]))
        if covered >= set(hnames):
            rows = [r_ for r_ in rows if r_[0] is not None]      # the default can no longer be reached
    return rows


def _is_format_call(n):
    return isinstance(n, ast.Call) and isinstance(n.func, ast.Attribute) and n.func.attr in ('format', 'join')


def _is_call_to(index, caller_fi, node, targets_q):
    if not isinstance(node, ast.Call):
        return None
    try:
        targets, how = index.resolve_call(caller_fi, node)
    except Exception:
        return None
    funcs = [t for t in targets if not isinstance(t, tuple)]
    if len(funcs) == 1 and funcs[0].qualname in targets_q and how in ('exact', 'cha', 'unique-name'):
        f0 = funcs[0]
        if how == 'unique-name' and isinstance(node.func, ast.Attribute):
            # a guess by name on a receiver of unknown type: never for names that builtin containers / strings / numbers also
            # have (`x.add(...)`, `x.update(...)`, `x.get(...)` on a set or dict is not the package's method of that name)
            nm = node.func.attr
            if any(hasattr(t, nm) for t in (set, frozenset, list, dict, tuple, str, bytes, int, float, complex, object)):
                return None
        if f0.outer is not None and isinstance(node.func, ast.Name):
            # a nested def whose name has another binding in the enclosing scope (`pred = is_square` in one branch, `def pred` in
            # the other): the call does not always reach this definition, so it must not be inlined
            nm = node.func.id
            other = 0
            for n in walk_own(f0.outer.node):
                if isinstance(n, ast.Name) and n.id == nm and isinstance(n.ctx, ast.Store):
                    other += 1
                elif isinstance(n, (ast.FunctionDef, ast.AsyncFunctionDef, ast.ClassDef)) and n.name == nm and n is not f0.node:
                    other += 1
            if other:
                return None
        return f0
    return None


def _under_shortcircuit(stmt, call):
    """Is `call` below a BoolOp / IfExp / lambda / comprehension within stmt's own expressions?"""
    def walk(node, risky):
        if node is call:
            return risky
        for child in ast.iter_child_nodes(node):
            if isinstance(child, ast.stmt) and child is not stmt:
                continue
            r = risky or isinstance(node, (ast.BoolOp, ast.IfExp, ast.Lambda, ast.ListComp, ast.SetComp, ast.DictComp,
                                           ast.GeneratorExp))
            if isinstance(node, ast.BoolOp) and node.values and child is node.values[0]:
                r = risky
            if isinstance(node, ast.IfExp) and child is node.test:
                r = risky
            res = walk(child, r)
            if res is not None:
                return res
        return None
    return bool(walk(stmt, False))


def normalize(index, known=None, rounds=3):
    """Inline unreviewed helpers in index (in place). Returns a report dict."""
    known = known if known is not None else load_known()
    report = {'inlined': {}, 'not_inlined': {}, 'removed': []}
    if known is None:
        return report
    for _ in range(rounds):
        inl = Inliner(index, known)
        cands = inl.candidates()
        if not cands:
            break
        changed = False
        cq = set(cands)
        remaining_calls = {q: 0 for q in cq}
        for q in sorted(cq):
            n_un = unroll_table_loops(index, cands[q])
            if n_un:
                report.setdefault('unrolled', {})[q] = report.get('unrolled', {}).get(q, 0) + n_un
            n_nx = reduce_table_next(index, cands[q])
            if n_nx:
                report.setdefault('table_next', {})[q] = n_nx
        for m in index.package_modules():
            for fi in list(m.all_funcs):
                if _inline_in_function(index, inl, fi, cq, remaining_calls, report):
                    changed = True
                    n_un = unroll_table_loops(index, fi, only_temps=True)
                    if n_un:
                        report.setdefault('unrolled', {})[fi.qualname] = report.get('unrolled', {}).get(fi.qualname, 0) + n_un
                    n_sp = split_dispatch_handlers(fi.node, index, fi)
                    if n_sp:
                        report.setdefault('split_handlers', {})[fi.qualname] = n_sp
        if not changed:
            break
        # drop helper definitions that are no longer called, rebuild the index tables
        _remove_dead(index, cq, report)
        index.rebuild()
    # whatever unreviewed function is still there and still called is reported
    left = {}
    for q, fi in index.funcs.items():
        if q.startswith('mitxgraders.') and q not in known and '<locals>' not in q and \
                not (fi.name.startswith('__') and fi.name.endswith('__')):
            left[q] = fi
    index.unreviewed = sorted(left)
    report['unreviewed_left'] = sorted(left)
    return report


def _inline_in_function(index, inl, fi, cq, remaining_calls, report):
    fn = fi.node
    caller_locals = set()
    for n in ast.walk(fn):
        if isinstance(n, ast.Name):
            caller_locals.add(n.id)
        elif isinstance(n, ast.arg):
            caller_locals.add(n.arg)
    changed = [False]

    def expand_stmt(s):
        """Return a list of statements replacing s (or [s])."""
        # direct forms
        call = None
        mode = None
        if isinstance(s, ast.Return) and isinstance(s.value, ast.Call):
            call, mode = s.value, 'return'
        elif isinstance(s, ast.Raise) and isinstance(s.exc, ast.Call) and s.cause is None:
            call, mode = s.exc, 'raise'
        elif isinstance(s, ast.Expr) and isinstance(s.value, ast.Call):
            call, mode = s.value, 'expr'
        elif isinstance(s, ast.Assign) and isinstance(s.value, ast.Call):
            call, mode = s.value, 'assign'
        elif isinstance(s, ast.AugAssign) and isinstance(s.value, ast.Call):
            call, mode = s.value, 'aug'
        callee = _is_call_to(index, fi, call, cq) if call is not None else None
        if callee is not None and callee.qualname != fi.qualname and _callee_ok(callee):
            try:
                if mode == 'return':
                    def k(e, src, fell_off=False):
                        return [ast.Return(value=e)]
                    k.try_safe = True
                elif mode == 'raise':
                    def k(e, src, fell_off=False):
                        return [ast.Raise(exc=e, cause=None)]
                elif mode == 'expr':
                    def k(e, src, fell_off=False):
                        if fell_off or isinstance(e, ast.Constant):
                            return []
                        return [ast.Expr(value=e)]
                    k.try_safe = True
                elif mode == 'assign':
                    def k(e, src, fell_off=False):
                        return [ast.Assign(targets=[clone(t) for t in s.targets], value=e)]
                    k.try_safe = all(isinstance(t, ast.Name) for t in s.targets)
                else:
                    def k(e, src, fell_off=False):
                        return [ast.AugAssign(target=clone(s.target), op=s.op, value=e)]
                out = inl.expansion(callee, call, caller_locals, k, fi)
                report['inlined'][callee.qualname] = report['inlined'].get(callee.qualname, 0) + 1
                changed[0] = True
                return out or [ast.copy_location(ast.Pass(), s)]
            except NotInlinable as e:
                report['not_inlined'][callee.qualname] = str(e)
        # nested calls: single-expression callees are substituted; others hoisted when safe
        heads = _head_exprs(s)
        for head in heads:
            for n in ast.walk(head):
                c = _is_call_to(index, fi, n, cq) if isinstance(n, ast.Call) else None
                if c is None or c.qualname == fi.qualname or not _callee_ok(c):
                    continue
                single = inl.single_expr(c)
                try:
                    if single is not None:
                        prelude, rename = inl.bind(c, n, caller_locals)
                        if prelude:
                            raise NotInlinable('argument needs a temporary')
                        new = _Renamer(rename).visit(clone(single))
                        _replace_node(s, n, new)
                        report['inlined'][c.qualname] = report['inlined'].get(c.qualname, 0) + 1
                        changed[0] = True
                        return expand_stmt(s)
                    if n is head and isinstance(s, (ast.Return, ast.Raise, ast.Expr, ast.Assign, ast.AugAssign)):
                        continue        # handled above (failed there)
                    if isinstance(s, (ast.While, ast.With, ast.Try, ast.AsyncFor)) or _under_shortcircuit(s, n):
                        # (the iterable of a `for` is evaluated once, before the loop: hoisting it is faithful)
                        raise NotInlinable('call under a short-circuit / loop head')
                    inl.counter += 1
                    tmp = '_inl%d' % inl.counter

                    def k(e, src, fell_off=False, tmp=tmp):
                        return [ast.Assign(targets=[ast.Name(id=tmp, ctx=ast.Store())], value=e)]
                    k.try_safe = True
                    pre = inl.expansion(c, n, caller_locals, k, fi)
                    _replace_node(s, n, ast.Name(id=tmp, ctx=ast.Load()))
                    report['inlined'][c.qualname] = report['inlined'].get(c.qualname, 0) + 1
                    changed[0] = True
                    return pre + expand_stmt(s)
                except NotInlinable as e:
                    report['not_inlined'][c.qualname] = str(e)
        return [s]

    def process_block(stmts):
        out = []
        for s in stmts:
            for field in ('body', 'orelse', 'finalbody'):
                sub = getattr(s, field, None)
                if isinstance(sub, list) and sub and isinstance(sub[0], ast.stmt) and not isinstance(s, (ast.FunctionDef, ast.ClassDef, ast.AsyncFunctionDef)):
                    setattr(s, field, process_block(sub))
            if isinstance(s, ast.Try):
                for h in s.handlers:
                    h.body = process_block(h.body)
            if isinstance(s, (ast.FunctionDef, ast.AsyncFunctionDef, ast.ClassDef)):
                out.append(s)
                continue
            out.extend(expand_stmt(s))
        return out

    fn.body = process_block(fn.body)
    if changed[0]:
        ast.fix_missing_locations(fn)
        fn._sa_locals = None
        if hasattr(fn, '_sa_locals'):
            try:
                del fn._sa_locals
            except AttributeError:
                pass
    return changed[0]


def _head_exprs(s):
    if isinstance(s, (ast.If, ast.While)):
        return [s.test]
    if isinstance(s, (ast.For, ast.AsyncFor)):
        return [s.iter]
    if isinstance(s, (ast.With, ast.AsyncWith)):
        return [i.context_expr for i in s.items]
    if isinstance(s, ast.Try):
        return []
    if isinstance(s, (ast.FunctionDef, ast.ClassDef, ast.AsyncFunctionDef)):
        return []
    return [c for c in ast.iter_child_nodes(s) if isinstance(c, ast.expr)]


def _replace_node(root, old, new):
    for parent in ast.walk(root):
        for field, value in ast.iter_fields(parent):
            if value is old:
                setattr(parent, field, new)
                return True
            if isinstance(value, list):
                for i, v in enumerate(value):
                    if v is old:
                        value[i] = new
                        return True
    return False


def _remove_dead(index, cq, report):
    # count remaining references (calls or attribute/name uses) to each candidate's name
    for q in sorted(cq):
        fi = index.funcs.get(q)
        if fi is None:
            continue
        name = fi.name
        used = False
        for m in ([fi.module] if fi.outer is not None else index.package_modules()):
            for n in ast.walk(m.tree):
                if n is fi.node:
                    continue
                if isinstance(n, ast.Attribute) and n.attr == name:
                    used = True
                elif isinstance(n, ast.Name) and n.id == name and isinstance(n.ctx, ast.Load):
                    used = True
                if used:
                    break
            if used:
                break
        if used:
            # references from inside its own body do not count (recursion is never inlined anyway)
            continue
        # remove the definition from its container
        if fi.outer is not None:
            container = None
            for n in ast.walk(fi.outer.node):
                for field in ('body', 'orelse', 'finalbody'):
                    sub = getattr(n, field, None)
                    if isinstance(sub, list) and any(x is fi.node for x in sub):
                        container = sub
            if container is None:
                continue
        else:
            container = fi.cls.node.body if fi.cls is not None else fi.module.tree.body
        for i, s in enumerate(container):
            if s is fi.node:
                del container[i]
                if not container:
                    container.append(ast.Pass())
                report['removed'].append(q)
                break
