"""E8: grammar extraction.

Abstract evaluation of the straight-line body of a function that builds a pyparsing
grammar (``MathParser.get_grammar``) into a *term graph*, followed by structural
analyses of that graph: nullable / FIRST / FOLLOW over characters, the precedence
chain (``X (op X)*`` / ``[op] X`` levels), the inventory of named groups, parse
actions and the token shapes each group hands to its consumer.

Nothing of pyparsing or of the analysed library is imported or executed: the
semantics of the pyparsing constructors used here are a model table (DESIGN 0.4):

    Literal(s) / "s"      matches s                    CaselessLiteral(s)  either case
    Word(init[, body])    init-char then body-chars*   Combine(e)          e, contiguous, one token
    a + b                 sequence (And)               a | b               ordered choice (MatchFirst)
    Optional(e)           e or nothing, greedy         ZeroOrMore(e)       e*, greedy, no retry
    Group(e)              nests e's tokens             Suppress(e)         e without tokens
    Forward() / f << e    recursion                    ~e / NotAny(e)      negative look-ahead
    FollowedBy(e)         positive look-ahead          stringEnd           end of input
    delimitedList(e, d)   e (Suppress(d) e)*           e("n")              COPY of e with results name n
    a - b                 sequence with an error stop: once a matched, a failure of b aborts the WHOLE parse
                          (ParseSyntaxException, not caught by |, Optional, ZeroOrMore) -- Term.stop = index of b
    e.setParseAction(a)   replaces e's actions, in place;  addParseAction appends

Unsupported constructs raise AnalysisError (exit 2); they are never guessed.
Identity matters: ``e("name")`` is a shallow copy (children shared, action list copied),
``setParseAction`` mutates the object it is called on; the term graph keeps the same
object identities so that "which element carries which action" is decided exactly.
"""
import ast
import string

from .index import AnalysisError, unparse, short, walk_own

ALPHAS = string.ascii_uppercase + string.ascii_lowercase
NUMS = '0123456789'
CHARSETS = {
    'alphas': ALPHAS, 'nums': NUMS, 'alphanums': ALPHAS + NUMS, 'hexnums': NUMS + 'ABCDEFabcdef',
    'printables': ''.join(c for c in string.printable if c not in string.whitespace),
}
END = '<end>'

CTOR_ALIASES = {
    'Literal': 'lit', 'CaselessLiteral': 'clit', 'Word': 'word', 'Combine': 'combine', 'Optional': 'opt',
    'Opt': 'opt', 'ZeroOrMore': 'star', 'OneOrMore': 'plus', 'Group': 'group', 'Suppress': 'suppress',
    'Forward': 'forward', 'FollowedBy': 'follow', 'NotAny': 'not', 'delimitedList': 'dlist',
    'DelimitedList': 'dlist', 'delimited_list': 'dlist', 'StringEnd': 'end', 'Empty': 'empty',
}
SET_ACTION = {'setParseAction', 'set_parse_action'}
ADD_ACTION = {'addParseAction', 'add_parse_action'}
SET_NAME = {'setResultsName', 'set_results_name'}
COSMETIC = {'setName', 'set_name', 'setDebug', 'set_debug', 'streamline'}
WHITESPACE_CALLS = {'setDefaultWhitespaceChars', 'set_default_whitespace_chars', 'leaveWhitespace',
                    'leave_whitespace', 'setWhitespaceChars', 'set_whitespace_chars', 'ignoreWhitespace',
                    'ignore_whitespace', 'parseWithTabs', 'parse_with_tabs'}
WRAPPERS = ('group', 'suppress', 'combine', 'opt', 'star', 'plus', 'forward')


class Action(object):
    """A parse action: kind in method / group / const / opaque."""

    def __init__(self, kind, value=None, node=None, extra=None):
        self.kind = kind
        self.value = value      # method name | group name | constant
        self.node = node
        self.extra = extra      # FuncInfo of the method / of group_if_multiple

    def __repr__(self):
        return '%s:%s' % (self.kind, self.value)


class Term(object):
    _count = [0]

    def __init__(self, kind, kids=(), text=None, init=None, body=None, src=None, origin=None):
        self.kind = kind
        self.kids = list(kids)
        self.text = text
        self.init = init
        self.body = body
        self.name = None
        self.actions = []
        self.src = src
        self.labels = []
        self.origin = origin
        self.stop = None        # for 'and': index of the first element after an error stop (`a - b`), else None
        self.wmin, self.wmax = 1, None      # for 'word': minimal / maximal length (Word(..., min=, max=, exact=))
        Term._count[0] += 1
        self.uid = Term._count[0]

    def copy(self):
        t = Term(self.kind, self.kids, self.text, self.init, self.body, self.src, self.origin)
        t.kids = self.kids              # children are shared (shallow copy), like pyparsing's copy()
        t.stop = self.stop
        t.wmin, t.wmax = self.wmin, self.wmax
        t.name = self.name
        t.actions = list(self.actions)
        t.labels = []
        t.copy_of = self
        return t

    @property
    def label(self):
        if self.labels:
            return self.labels[0]
        if self.name:
            return '(%s)' % self.name
        return None

    @property
    def lineno(self):
        return getattr(self.src, 'lineno', 0)

    def describe(self, depth=3):
        """Readable rendering (stable under renaming only as far as labels are not printed)."""
        if self.kind == 'lit':
            s = repr(self.text)
        elif self.kind == 'clit':
            s = 'Caseless(%r)' % self.text
        elif self.kind == 'word':
            s = 'Word(%s%s%s)' % (_cs(self.init), '' if self.body == self.init else ', ' + _cs(self.body),
                                  '' if (self.wmin, self.wmax) == (1, None) else
                                  (', exact=%d' % self.wmin if self.wmin == self.wmax else ', min=%d, max=%s' % (self.wmin, self.wmax)))
        elif self.kind == 'end':
            s = 'stringEnd'
        elif self.kind == 'empty':
            s = 'Empty'
        elif self.kind == 'forward':
            s = 'Forward'
        elif depth <= 0:
            s = '...'
        elif self.kind == 'and':
            s = '(' + ' + '.join(k.describe(depth - 1) for k in self.kids) + ')'
        elif self.kind == 'first':
            s = '(' + ' | '.join(k.describe(depth - 1) for k in self.kids) + ')'
        elif self.kind == 'not':
            s = '~' + self.kids[0].describe(depth - 1)
        else:
            names = {'opt': 'Optional', 'star': 'ZeroOrMore', 'plus': 'OneOrMore', 'group': 'Group',
                     'suppress': 'Suppress', 'combine': 'Combine', 'follow': 'FollowedBy'}
            s = '%s(%s)' % (names.get(self.kind, self.kind), ', '.join(k.describe(depth - 1) for k in self.kids))
        if self.name:
            s += '(%r)' % self.name
        return s

    def __repr__(self):
        return '<Term %s #%d %s>' % (self.kind, self.uid, self.label or '')


def _cs(chars):
    if chars is None:
        return '?'
    s = set(chars)
    parts = []
    for nm, val in (('alphanums', ALPHAS + NUMS), ('alphas', ALPHAS), ('nums', NUMS)):
        if set(val) <= s:
            parts.append(nm)
            s -= set(val)
    if s:
        parts.append(repr(''.join(sorted(s))))
    return '+'.join(parts) or "''"


class Const(object):
    def __init__(self, value):
        self.value = value


# =========================================================================== extraction
class Grammar(object):
    """The extracted term graph plus analyses."""

    def __init__(self, idx, fi):
        self.idx = idx
        self.fi = fi
        self.module = fi.module
        self.env = {}
        self.root = None
        self.whitespace_calls = []      # (call node, method) -- calls that change whitespace handling
        self.opaque_statements = []
        self.helpers = []               # qualified names of helper functions evaluated abstractly
        self.error_stops = []           # And terms built with `-` (error stop)
        self._self = fi.params[0] if (fi.cls is not None and not fi.is_static and fi.params) else None
        self._extract()
        self._nullable = None
        self._first = None
        self._follow = None

    # ------------------------------------------------------------------ statements
    def _extract(self):
        v = self._run(self.fi, None, top=True)
        if v is None:
            raise AnalysisError('grammar builder %s has no return' % self.fi.qualname)
        self.root = self._term(v, self.root_stmt.value)
        self._streamline()

    def _run(self, fi, bound, top=False, depth=0):
        """Evaluate the straight-line body of fi (a grammar builder or one of its helpers) with `bound` parameters;
        returns the value of its return expression (a term, a string, or a tuple of those)."""
        if depth > 4:
            raise AnalysisError('grammar helper calls nested too deeply at %s' % fi.qualname)
        saved = (self.fi, self.module, self.env, self._self)
        if not top:
            self.fi, self.module = fi, fi.module
            self.env = dict(bound)
            self._self = fi.params[0] if (fi.cls is not None and not fi.is_static and fi.params) else None
            if self._self is not None:
                self.env.pop(self._self, None)
        self._depth = depth
        result = None
        returned = False
        try:
            for s in fi.node.body:
                if isinstance(s, ast.Expr) and isinstance(s.value, ast.Constant):
                    continue
                if isinstance(s, ast.Pass):
                    continue
                if returned:
                    raise AnalysisError('statements after the return of %s' % fi.qualname)
                if isinstance(s, ast.Return):
                    if s.value is None:
                        raise AnalysisError('grammar builder %s returns nothing' % fi.qualname)
                    result = self._eval(s.value)
                    returned = True
                    if top:
                        self.root_stmt = s
                    continue
                self._exec(s, fi)
        finally:
            if not top:
                self.fi, self.module, self.env, self._self = saved
            self._depth = depth - 1 if depth else 0
        return result

    def _exec(self, s, fi, depth=0):
        """One statement of a builder body.  Besides straight-line code: `for <targets> in <local literal table>` (unrolled
        row by row) and `if` whose test is decidable on the abstract values (`x is None`, `x is not None`, and/or/not)."""
        if depth > 6:
            raise AnalysisError('statements nested too deeply in grammar builder %s' % fi.qualname)
        if isinstance(s, ast.Expr) and isinstance(s.value, ast.Constant) or isinstance(s, ast.Pass):
            return
        if isinstance(s, ast.Assign):
            v = self._eval(s.value)
            for t in s.targets:
                self._bind(t, v, s)
            return
        if isinstance(s, ast.AugAssign):
            if isinstance(s.op, ast.LShift) and isinstance(s.target, ast.Name):
                self._bind_forward(self.env.get(s.target.id), self._eval(s.value), s)
                return
            raise AnalysisError('unsupported augmented assignment in grammar builder: `%s`' % short(s))
        if isinstance(s, ast.Expr):
            self._eval_stmt_expr(s.value)
            return
        if isinstance(s, ast.For) and not s.orelse:
            table = self._eval(s.iter)
            if not isinstance(table, tuple):
                raise AnalysisError('loop in grammar builder %s is not over a literal local table: `%s`' % (fi.qualname, short(s.iter)))
            if len(table) > 64:
                raise AnalysisError('table too long to unroll in grammar builder')
            for row in table:
                self._bind(s.target, row, s)
                for b in s.body:
                    if any(isinstance(n, (ast.Break, ast.Continue, ast.Return)) for n in ast.walk(b)):
                        raise AnalysisError('break/continue/return inside a loop of grammar builder %s' % fi.qualname)
                    self._exec(b, fi, depth + 1)
            return
        if isinstance(s, ast.If):
            t = self._truth(s.test)
            for b in (s.body if t else s.orelse):
                if any(isinstance(n, ast.Return) for n in ast.walk(b)):
                    raise AnalysisError('return inside a conditional of grammar builder %s' % fi.qualname)
                self._exec(b, fi, depth + 1)
            return
        raise AnalysisError('unsupported statement in grammar builder %s (line %d): `%s` -- only straight-line code, loops over '
                            'literal tables and None-tests are evaluated' % (fi.qualname, s.lineno, short(s, 60)))

    def _truth(self, e):
        if isinstance(e, ast.Constant):
            return bool(e.value)
        if isinstance(e, ast.UnaryOp) and isinstance(e.op, ast.Not):
            return not self._truth(e.operand)
        if isinstance(e, ast.BoolOp):
            vals = [self._truth(v) for v in e.values]
            return all(vals) if isinstance(e.op, ast.And) else any(vals)
        if isinstance(e, ast.Compare) and len(e.ops) == 1 and isinstance(e.ops[0], (ast.Is, ast.IsNot)):
            a, b = self._eval(e.left), self._eval(e.comparators[0])
            none = lambda v: isinstance(v, Const) and v.value is None
            if none(a) or none(b):
                same = none(a) and none(b)
                return same if isinstance(e.ops[0], ast.Is) else not same
        raise AnalysisError('condition `%s` in the grammar builder cannot be decided on the abstract values' % short(e))

    def _streamline(self):
        """pyparsing's streamline(): nested And/MatchFirst without parse action and results name are merged into their
        parent (done on the finished graph, because actions may be attached after a sequence was nested)."""
        changed = True
        rounds = 0
        while changed and rounds < 20:
            changed = False
            rounds += 1
            for t in self.nodes():
                if t.kind not in ('and', 'first') or t.stop is not None:
                    continue
                new = []
                for k in t.kids:
                    if k.kind == t.kind and not k.actions and not k.name and not k.origin and k.stop is None and k is not t:
                        new.extend(k.kids)
                        changed = True
                    else:
                        new.append(k)
                if len(new) != len(t.kids):
                    t.kids = new

    def _bind(self, target, v, stmt):
        if isinstance(target, ast.Name):
            if isinstance(v, Term):
                v.labels.append(target.id)
            self.env[target.id] = v
            return
        if isinstance(target, (ast.Tuple, ast.List)) and isinstance(v, tuple) and len(v) == len(target.elts) \
                and not any(isinstance(t, ast.Starred) for t in target.elts):
            for t, x in zip(target.elts, v):
                self._bind(t, x, stmt)
            return
        raise AnalysisError('unsupported assignment target in grammar builder: `%s`' % short(stmt))

    def _mentions_terms(self, node):
        for n in ast.walk(node):
            if isinstance(n, ast.Name) and isinstance(self.env.get(n.id), Term):
                return True
        return False

    def _eval_stmt_expr(self, e):
        if isinstance(e, ast.BinOp) and isinstance(e.op, ast.LShift):
            self._bind_forward(self._eval(e.left), self._eval(e.right), e)
            return
        if isinstance(e, ast.Call):
            if not self._mentions_terms(e) and not self._is_pyparsing(e.func):
                # e.g. a log call: cannot touch the grammar objects
                name = e.func.attr if isinstance(e.func, ast.Attribute) else getattr(e.func, 'id', None)
                if name in WHITESPACE_CALLS:
                    self.whitespace_calls.append((e, name))
                self.opaque_statements.append(e)
                return
            self._eval(e)
            return
        raise AnalysisError('unsupported expression statement in grammar builder: `%s`' % short(e))

    def _is_pyparsing(self, func):
        d = self.idx.dotted_of(self.module, func) if isinstance(func, (ast.Name, ast.Attribute)) else None
        return bool(d) and d.startswith('pyparsing.')

    def _bind_forward(self, fwd, value, node):
        if not isinstance(fwd, Term) or fwd.kind != 'forward':
            raise AnalysisError('`<<` applied to something that is not a Forward: `%s`' % short(node))
        if fwd.kids:
            raise AnalysisError('Forward bound twice: `%s`' % short(node))
        fwd.kids = [self._term(value, node)]
        fwd.bind_src = node
        return fwd

    # ----------------------------------------------------------------- expressions
    def _term(self, v, node):
        if isinstance(v, Term):
            return v
        if isinstance(v, str):
            return Term('lit', text=v, src=node, origin='implicit')
        raise AnalysisError('expected a parser element, found `%s`' % short(node))

    def _string(self, v, node):
        if isinstance(v, str):
            return v
        raise AnalysisError('expected a string, found `%s`' % short(node))

    def _eval(self, e):
        if isinstance(e, ast.Constant):
            return e.value if isinstance(e.value, str) else Const(e.value)
        if isinstance(e, ast.Name):
            if e.id in self.env:
                return self.env[e.id]
            return self._external(e)
        if isinstance(e, ast.Attribute):
            if isinstance(e.value, ast.Name) and e.value.id == self._self and self._self not in self.env:
                return self._method_action(e.attr, e)
            return self._external(e)
        if isinstance(e, ast.Lambda):
            if isinstance(e.body, ast.Constant):
                return Action('const', e.body.value, e)
            return Action('opaque', unparse(e), e)
        if isinstance(e, ast.BinOp):
            if isinstance(e.op, ast.LShift):
                return self._bind_forward(self._eval(e.left), self._eval(e.right), e)
            l, r = self._eval(e.left), self._eval(e.right)
            if isinstance(e.op, ast.Add):
                if isinstance(l, str) and isinstance(r, str):
                    return l + r
                return self._nary('and', l, r, e)
            if isinstance(e.op, ast.BitOr):
                return self._nary('first', l, r, e)
            if isinstance(e.op, ast.Sub) and (isinstance(l, Term) or isinstance(r, Term)):
                return self._nary('and', l, r, e, stop=True)
            raise AnalysisError('unsupported pyparsing operator %s in `%s`' % (type(e.op).__name__, short(e)))
        if isinstance(e, ast.UnaryOp) and isinstance(e.op, ast.Invert):
            return Term('not', [self._term(self._eval(e.operand), e.operand)], src=e)
        if isinstance(e, ast.Call):
            return self._call(e)
        if isinstance(e, (ast.Tuple, ast.List)) and not any(isinstance(x, ast.Starred) for x in e.elts):
            return tuple(self._eval(x) for x in e.elts)
        raise AnalysisError('unsupported expression in grammar builder: `%s`' % short(e))

    def _nary(self, kind, l, r, node, stop=False):
        lt, rt = self._term(l, node.left), self._term(r, node.right)
        kids = []
        stops = []
        for i, t in enumerate((lt, rt)):
            if i == 1 and stop:
                stops.append(len(kids))
            # pyparsing's streamline() merges nested anonymous And/MatchFirst; mirror it for anonymous intermediates
            if t.kind == kind and not t.labels and not t.name and not t.actions and not t.origin:
                if t.stop is not None:
                    stops.append(len(kids) + t.stop)
                kids.extend(t.kids)
            else:
                kids.append(t)
        out = Term(kind, kids, src=node)
        if stops:
            out.stop = min(stops)
            self.error_stops.append(out)
        return out

    def _external(self, e):
        d = self.idx.dotted_of(self.module, e)
        if d and d.startswith('pyparsing.'):
            nm = d.split('.', 1)[1]
            if nm in CHARSETS:
                return CHARSETS[nm]
            if nm in ('stringEnd', 'string_end'):
                return Term('end', src=e)
            if nm in ('empty',):
                return Term('empty', src=e)
            raise AnalysisError('unsupported pyparsing name `%s`' % d)
        raise AnalysisError('name `%s` is not bound in the grammar builder and is not a known pyparsing name' % unparse(e))

    def _method_action(self, attr, node):
        cls = self.fi.cls
        target = self.idx.lookup(cls, attr) if cls is not None else None
        if target is None:
            raise AnalysisError('`%s` does not resolve to a method of %s' % (unparse(node), cls.qualname if cls else '?'))
        return Action('method', attr, node, target)

    def _action(self, v, node):
        if isinstance(v, Action):
            return v
        raise AnalysisError('unsupported parse action `%s`' % short(node))

    def _call(self, e):
        f = e.func
        # ---- pyparsing constructors
        d = self.idx.dotted_of(self.module, f) if isinstance(f, (ast.Name, ast.Attribute)) else None
        local = isinstance(f, ast.Name) and f.id in self.env
        if d and d.startswith('pyparsing.') and not local:
            nm = d.split('.', 1)[1]
            if nm not in CTOR_ALIASES:
                raise AnalysisError('unsupported pyparsing construct `%s` in `%s`' % (nm, short(e)))
            return self._ctor(CTOR_ALIASES[nm], e)
        # ---- self.group_if_multiple('name') / helpers of the builder (evaluated abstractly with the arguments bound)
        target = None
        if isinstance(f, ast.Attribute) and isinstance(f.value, ast.Name) and f.value.id == self._self \
                and self._self not in self.env:
            target = self.idx.lookup(self.fi.cls, f.attr) if self.fi.cls is not None else None
            if target is None:
                raise AnalysisError('`%s` does not resolve' % short(e))
        elif not local and isinstance(f, (ast.Name, ast.Attribute)) and d:
            kind, obj = self.idx.resolve_dotted(d)
            if kind == 'func':
                target = obj
        elif local and isinstance(self.env.get(f.id), Action) and self.env[f.id].kind == 'method' and self.env[f.id].extra is not None:
            target = self.env[f.id].extra          # a local alias of a method: `gim = self.group_if_multiple`
        if target is not None:
            factory = True
            try:
                group_action_threshold(target)
            except AnalysisError:
                factory = False
            if factory:
                if len(e.args) == 1 and not e.keywords:
                    arg = self._eval(e.args[0])
                    if isinstance(arg, str):
                        return Action('group', arg, e, target)
                raise AnalysisError('unsupported action factory call `%s`' % short(e))
            return self._helper(target, e)
        # ---- methods on terms
        if isinstance(f, ast.Attribute):
            recv = self._eval(f.value)
            if isinstance(recv, str):
                raise AnalysisError('string method in grammar builder: `%s`' % short(e))
            if not isinstance(recv, Term):
                raise AnalysisError('unsupported call `%s`' % short(e))
            m = f.attr
            if m in SET_ACTION or m in ADD_ACTION:
                if e.keywords:
                    raise AnalysisError('keyword arguments of %s are not supported: `%s`' % (m, short(e)))
                acts = [self._action(self._eval(a), a) for a in e.args]
                if m in SET_ACTION:
                    recv.actions = acts
                else:
                    recv.actions = recv.actions + acts
                for a in acts:
                    a.attached_at = e
                return recv
            if m in SET_NAME:
                return self._named(recv, e)
            if m in COSMETIC:
                return recv
            if m == 'copy' and not e.args:
                return recv.copy()
            if m == 'suppress' and not e.args:
                return Term('suppress', [recv], src=e)
            if m in WHITESPACE_CALLS:
                self.whitespace_calls.append((e, m))
                return recv
            raise AnalysisError('unsupported parser-element method `%s` in `%s`' % (m, short(e)))
        # ---- term("name")
        callee = self._eval(f)
        if isinstance(callee, Term):
            return self._named(callee, e)
        raise AnalysisError('unsupported call in grammar builder: `%s`' % short(e))

    def _helper(self, target, e):
        """A call of another function of the package from the builder: its straight-line body is evaluated with the
        arguments bound to the parameters (same object identities, so actions attached inside are kept)."""
        if any(isinstance(a, ast.Starred) for a in e.args) or any(k.arg is None for k in e.keywords):
            raise AnalysisError('starred arguments in helper call `%s`' % short(e))
        params = list(target.params)
        if target.cls is not None and not target.is_static and params:
            params = params[1:]
        a = target.node.args
        if a.vararg or a.kwarg or a.kwonlyargs:
            raise AnalysisError('helper %s has a signature that is not supported' % target.qualname)
        if len(e.args) > len(params):
            raise AnalysisError('too many arguments in helper call `%s`' % short(e))
        bound = {}
        for p_, arg in zip(params, e.args):
            bound[p_] = self._eval(arg)
        for k in e.keywords:
            if k.arg not in params or k.arg in bound:
                raise AnalysisError('unexpected keyword %s in helper call `%s`' % (k.arg, short(e)))
            bound[k.arg] = self._eval(k.value)
        defaults = dict(zip(params[len(params) - len(a.defaults):], a.defaults)) if a.defaults else {}
        for p_ in params:
            if p_ not in bound:
                if p_ in defaults and isinstance(defaults[p_], ast.Constant):
                    bound[p_] = defaults[p_].value if isinstance(defaults[p_].value, str) else Const(defaults[p_].value)
                else:
                    raise AnalysisError('missing argument %s in helper call `%s`' % (p_, short(e)))
        self.helpers.append(target.qualname)
        v = self._run(target, bound, depth=getattr(self, '_depth', 0) + 1)
        if v is None:
            raise AnalysisError('helper %s returns nothing' % target.qualname)
        return v

    def _named(self, term, e):
        if len(e.args) != 1 or e.keywords:
            raise AnalysisError('unsupported results-name call `%s`' % short(e))
        nm = self._eval(e.args[0])
        if not isinstance(nm, str):
            raise AnalysisError('results name is not a string literal: `%s`' % short(e))
        if nm.endswith('*'):
            raise AnalysisError('listAllMatches results name not supported: `%s`' % short(e))
        c = term.copy()
        c.name = nm
        c.src = e
        return c

    def _ctor(self, kind, e):
        args = [self._eval(a) for a in e.args]
        if any(isinstance(a, ast.Starred) for a in e.args):
            raise AnalysisError('starred arguments not supported: `%s`' % short(e))
        kws = {k.arg: self._eval(k.value) for k in e.keywords}

        def only(n_min, n_max, allowed_kw=()):
            if not (n_min <= len(args) <= n_max) or any(k not in allowed_kw for k in kws):
                raise AnalysisError('unsupported arguments for pyparsing construct: `%s`' % short(e))

        if kind in ('lit', 'clit'):
            only(1, 1)
            return Term(kind, text=self._string(args[0], e), src=e)
        if kind == 'word':
            only(1, 2, ('min', 'max', 'exact', 'init_chars', 'body_chars', 'initChars', 'bodyChars'))
            a0 = args[0] if args else kws.get('init_chars', kws.get('initChars'))
            a1 = args[1] if len(args) == 2 else kws.get('body_chars', kws.get('bodyChars'))
            init = self._string(a0, e)
            body = self._string(a1, e) if a1 is not None else init
            if not init:
                raise AnalysisError('Word with empty character set: `%s`' % short(e))
            t = Term('word', init=init, body=body, src=e)
            nums_ = {}
            for k in ('min', 'max', 'exact'):
                if k in kws:
                    v = kws[k]
                    if not (isinstance(v, Const) and isinstance(v.value, int) and not isinstance(v.value, bool) and v.value >= 0):
                        raise AnalysisError('Word(%s=...) is not an integer literal: `%s`' % (k, short(e)))
                    nums_[k] = v.value
            if nums_.get('exact'):
                t.wmin = t.wmax = nums_['exact']
            else:
                t.wmin = max(1, nums_.get('min', 1))
                t.wmax = nums_.get('max') or None
            if t.wmax is not None and t.wmax < t.wmin:
                raise AnalysisError('Word with max < min: `%s`' % short(e))
            return t
        if kind in ('combine', 'opt', 'star', 'plus', 'group', 'suppress', 'follow', 'not'):
            only(1, 1)
            return Term(kind, [self._term(args[0], e.args[0])], src=e)
        if kind == 'forward':
            only(0, 0)
            return Term('forward', src=e)
        if kind in ('end', 'empty'):
            only(0, 0)
            return Term(kind, src=e)
        if kind == 'dlist':
            only(1, 2, ('delim',))
            delim = kws.get('delim', args[1] if len(args) == 2 else ',')
            elem = self._term(args[0], e.args[0])
            sep = Term('suppress', [self._term(delim, e)], src=e)
            rep = Term('star', [Term('and', [sep, elem], src=e)], src=e)
            return Term('and', [elem, rep], src=e, origin='delimitedList')
        raise AnalysisError('unsupported pyparsing construct in `%s`' % short(e))

    # ================================================================== analyses
    def nodes(self, start=None):
        """All terms reachable from the root (or start), each once, in discovery order."""
        out, seen, stack = [], set(), [start or self.root]
        while stack:
            t = stack.pop()
            if id(t) in seen:
                continue
            seen.add(id(t))
            out.append(t)
            if t.kind == 'forward' and not t.kids:
                raise AnalysisError('a Forward is used but never bound with `<<`')
            stack.extend(reversed(t.kids))
        return out

    def _fix(self):
        if self._first is not None:
            return
        nodes = self.nodes()
        nullable = {id(t): False for t in nodes}
        first = {id(t): set() for t in nodes}
        changed = True
        while changed:
            changed = False
            for t in nodes:
                n, f = self._local_first(t, nullable, first)
                if n != nullable[id(t)] or f != first[id(t)]:
                    nullable[id(t)], first[id(t)] = n, f
                    changed = True
        follow = {id(t): set() for t in nodes}
        follow[id(self.root)].add(END)
        changed = True
        while changed:
            changed = False

            def add(kid, chars):
                nonlocal changed
                if not chars <= follow[id(kid)]:
                    follow[id(kid)] |= chars
                    changed = True
            for t in nodes:
                fl = follow[id(t)]
                if t.kind == 'and':
                    for i, kid in enumerate(t.kids):
                        acc = set()
                        rest_nullable = True
                        for nxt in t.kids[i + 1:]:
                            acc |= first[id(nxt)]
                            if not nullable[id(nxt)]:
                                rest_nullable = False
                                break
                        if rest_nullable:
                            acc |= fl
                        add(kid, acc)
                elif t.kind in ('star', 'plus'):
                    add(t.kids[0], fl | first[id(t.kids[0])])
                elif t.kind in ('not', 'follow'):
                    pass
                else:
                    for kid in t.kids:
                        add(kid, fl)
        self._nullable, self._first, self._follow = nullable, first, follow

    @staticmethod
    def _local_first(t, nullable, first):
        k = t.kind
        if k == 'lit':
            return (t.text == ''), ({t.text[0]} if t.text else set())
        if k == 'clit':
            return (t.text == ''), ({t.text[0].lower(), t.text[0].upper()} if t.text else set())
        if k == 'word':
            return False, set(t.init)
        if k == 'end':
            return False, {END}
        if k == 'empty':
            return True, set()
        if k in ('not', 'follow'):
            return True, set()
        if k == 'and':
            f, n = set(), True
            for kid in t.kids:
                f |= first[id(kid)]
                if not nullable[id(kid)]:
                    n = False
                    break
            return n, f
        if k == 'first':
            f, n = set(), False
            for kid in t.kids:
                f |= first[id(kid)]
                n = n or nullable[id(kid)]
            return n, f
        if k in ('opt', 'star'):
            return True, set(first[id(t.kids[0])])
        if k in ('plus', 'group', 'suppress', 'combine', 'forward'):
            return nullable[id(t.kids[0])], set(first[id(t.kids[0])])
        raise AnalysisError('internal: unknown term kind %s' % k)

    def nullable(self, t):
        self._fix()
        return self._nullable[self._key(t)]

    def first(self, t):
        self._fix()
        return set(self._first[self._key(t)])

    def follow(self, t):
        self._fix()
        return set(self._follow[self._key(t)])

    def _key(self, t):
        if id(t) not in self._first:
            raise AnalysisError('term %r is not part of the returned grammar' % t)
        return id(t)

    def reachable(self, t):
        self._fix()
        return id(t) in self._first

    # ------------------------------------------------------------------ two-character look-ahead
    K = 2

    def _fix2(self):
        """FIRST_2 / FOLLOW_2: sets of strings of length <= 2 (a shorter string means the match / the input may end there;
        END is one pseudo-character written '\\0')."""
        if getattr(self, '_first2', None) is not None:
            return
        self._fix()
        E = '\0'
        K = self.K
        nodes = self.nodes()

        def cat(a, b):
            out = set()
            for x in a:
                if len(x) >= K or x.endswith(E):
                    out.add(x[:K])
                else:
                    for y in b:
                        out.add((x + y)[:K])
            return out

        def local(t, first):
            k = t.kind
            if k == 'lit':
                return {t.text[:K]}
            if k == 'clit':
                outs = {''}
                for ch in t.text[:K]:
                    outs = {o + c for o in outs for c in {ch.lower(), ch.upper()}}
                return outs
            if k == 'word':
                one = set(t.init) if t.wmin <= 1 else set()
                two = {i + b for i in t.init for b in t.body} if (t.wmax is None or t.wmax >= 2) else set()
                return one | two
            if k == 'end':
                return {E}
            if k in ('empty', 'not', 'follow'):
                return {''}
            if k == 'and':
                acc = {''}
                for kid in t.kids:
                    acc = cat(acc, first[id(kid)])
                    if not acc:
                        break
                return acc
            if k == 'first':
                out = set()
                for kid in t.kids:
                    out |= first[id(kid)]
                return out
            if k == 'opt':
                return set(first[id(t.kids[0])]) | {''}
            if k == 'star':
                body = first[id(t.kids[0])]
                return {''} | cat(body, {''} | body) if body else {''}
            if k == 'plus':
                body = first[id(t.kids[0])]
                return cat(body, {''} | body)
            return set(first[id(t.kids[0])])
        first = {id(t): set() for t in nodes}
        changed = True
        while changed:
            changed = False
            for t in nodes:
                f = local(t, first)
                if f != first[id(t)]:
                    first[id(t)] = f
                    changed = True
        follow = {id(t): set() for t in nodes}
        follow[id(self.root)] = {E}
        changed = True
        while changed:
            changed = False

            def add(kid, strs):
                nonlocal changed
                if not strs <= follow[id(kid)]:
                    follow[id(kid)] |= strs
                    changed = True
            for t in nodes:
                fl = follow[id(t)]
                if t.kind == 'and':
                    for i, kid in enumerate(t.kids):
                        acc = {''}
                        for nxt in t.kids[i + 1:]:
                            acc = cat(acc, first[id(nxt)])
                        add(kid, cat(acc, fl))
                elif t.kind in ('star', 'plus'):
                    body = first[id(t.kids[0])]
                    add(t.kids[0], cat({''} | body, fl) if fl else set())
                elif t.kind in ('not', 'follow'):
                    pass
                else:
                    for kid in t.kids:
                        add(kid, fl)
        self._first2, self._follow2, self._cat2 = first, follow, cat

    def first2(self, t):
        self._fix2()
        return set(self._first2[self._key(t)])

    def follow2(self, t):
        self._fix2()
        return set(self._follow2[self._key(t)])

    def parents(self):
        if getattr(self, '_parents', None) is None:
            par = {}
            for t in self.nodes():
                for i, kid in enumerate(t.kids):
                    par.setdefault(id(kid), []).append((t, i))
            self._parents = par
        return self._parents

    def commit_analysis(self, a):
        """For an And `a` with an error stop: is the accepted language unchanged by the stop?

        Returns ('nullable-rest', None) when the elements after the stop cannot fail, ('committed', None) when no other
        derivation can consume text starting like the elements before the stop (two characters of look-ahead: the attempt
        is the only way on, so aborting instead of backtracking rejects the same strings), or ('conflict', info).
        """
        self._fix2()
        cat = self._cat2
        rest = a.kids[a.stop:]
        if all(self.cannot_fail(k) for k in rest):
            return 'nullable-rest', None
        lead = {''}
        for k in a.kids[:a.stop]:
            lead = cat(lead, self._first2[id(k)])
        if '' in lead:
            lead = {''}           # the part before the stop may match nothing: the stop is passed on any text

        def compatible(x, y):
            return x.startswith(y) or y.startswith(x)

        def hits(alt, ld):
            return sorted(s_ for s_ in alt for l_ in ld if compatible(s_, l_))[:3]

        def unwrap(t):
            while t.kind in ('group', 'suppress') and t.kids:
                t = t.kids[0]
            return t

        def same_subgrammar(x, y):
            x, y = unwrap(x), unwrap(y)
            return x is y or (x.kind == y.kind and x.kids and x.kids is y.kids)
        conflicts = []
        seen = set()
        # work items: (failing node, look-ahead at its start, elements of the enclosing sequence already consumed, look-ahead
        # after those elements)
        work = [(a, lead, list(a.kids[:a.stop]) or None, {''})]
        par = self.parents()
        while work:
            x, ld, hist, base = work.pop()
            key = (id(x), frozenset(ld), tuple(id(h) for h in hist) if hist else None)
            if key in seen:
                continue
            seen.add(key)
            for p_, i in par.get(id(x), []):
                k = p_.kind
                if k == 'first':
                    for sib in p_.kids[i + 1:]:
                        body = unwrap(sib)
                        seq = list(body.kids) if body.kind == 'and' else [body]
                        if hist and seq and same_subgrammar(seq[0], hist[0]):
                            # the alternative re-reads exactly what the first consumed element read (same sub-grammar):
                            # compare what must come next on both sides
                            alt = {''}
                            for e_ in seq[1:]:
                                alt = cat(alt, self._first2[id(e_)])
                            alt = cat(alt, self._follow2[id(p_)])
                            txt = {''}
                            for h in hist[1:]:
                                txt = cat(txt, self._first2[id(h)])
                            txt = cat(txt, base)
                            hit = hits(alt, txt)
                        else:
                            hit = hits(cat(self._first2[id(sib)], self._follow2[id(p_)]), ld)
                        if hit:
                            conflicts.append(('the later alternative `%s`' % sib.describe(1), hit))
                    work.append((p_, ld, None, None))
                elif k in ('opt', 'star', 'plus'):
                    hit = hits(self._follow2[id(p_)], ld)
                    if hit:
                        conflicts.append(('what may follow `%s`' % p_.describe(1), hit))
                    if k == 'plus':
                        work.append((p_, ld, None, None))
                elif k == 'and':
                    before = p_.kids[:i]
                    if not before:
                        work.append((p_, ld, hist, base))
                    else:
                        pl = {''}
                        for b in before:
                            pl = cat(pl, self._first2[id(b)])
                        work.append((p_, cat(pl, ld), list(before), ld))
                elif k in ('not', 'follow'):
                    conflicts.append(('a look-ahead `%s`' % p_.describe(1), []))
                else:
                    work.append((p_, ld, hist, base))
        if conflicts:
            return 'conflict', conflicts
        return 'committed', None

    def cannot_fail(self, t, _depth=0):
        """Does t match (possibly nothing) on every input?  Look-aheads and stringEnd consume nothing but can fail."""
        if _depth > 30:
            return False
        k = t.kind
        if k in ('opt', 'star', 'empty'):
            return True
        if k == 'lit':
            return t.text == ''
        if k == 'and':
            return all(self.cannot_fail(x, _depth + 1) for x in t.kids)
        if k == 'first':
            return any(self.cannot_fail(x, _depth + 1) for x in t.kids)
        if k in ('group', 'suppress', 'combine', 'forward') and t.kids:
            return self.cannot_fail(t.kids[0], _depth + 1)
        return False

    # ------------------------------------------------------------ structure helpers
    @staticmethod
    def strip(t, kinds=('forward',)):
        """Descend through wrappers of the given kinds."""
        while t.kind in kinds and t.kids:
            t = t.kids[0]
        return t

    def literal_tokens(self, t):
        """Set of literal strings a pure operator expression can match (None if not a pure operator expression).

        Sequences of literals are concatenated ('|' + '|' -> '||'); ordered choices are united.
        """
        k = t.kind
        if k in ('lit', 'clit'):
            return {t.text}
        if k == 'word' and t.wmax == 1:
            return set(t.init)
        if k in ('suppress',):
            return self.literal_tokens(t.kids[0])
        if k == 'first':
            out = set()
            for kid in t.kids:
                s = self.literal_tokens(kid)
                if s is None:
                    return None
                out |= s
            return out
        if k == 'and':
            outs = {''}
            for kid in t.kids:
                s = self.literal_tokens(kid)
                if s is None:
                    return None
                outs = {a + b for a in outs for b in s}
            return outs
        return None

    def is_token_expr(self, t, _depth=0):
        """Is t built from literals, Words and sequencing/choice/Optional/Suppress/Combine only (no non-terminals)?"""
        if _depth > 12:
            return False
        if t.kind in ('lit', 'clit', 'word'):
            return True
        if t.kind in ('and', 'first', 'opt', 'suppress', 'combine') and t.kids:
            return all(self.is_token_expr(k, _depth + 1) for k in t.kids)
        return False

    def token_strings(self, t, maxlen=3, cap=2000):
        """The strings of length <= maxlen a token expression can match (derivations, bounded).

        Word(init, body) contributes every init-char followed by body-chars; used to compare the language of an operator
        token with the fixed operator table."""
        def lang(x):
            k = x.kind
            if k == 'lit':
                return {x.text} if len(x.text) <= maxlen else set()
            if k == 'clit':
                outs = {''}
                for ch in x.text:
                    outs = {o + c for o in outs for c in {ch.lower(), ch.upper()}}
                return {o for o in outs if len(o) <= maxlen}
            if k == 'word':
                out, cur = set(), set(x.init)
                for n_ in range(1, maxlen + 1):
                    if n_ >= x.wmin and (x.wmax is None or n_ <= x.wmax):
                        out |= cur
                    if x.wmax is not None and n_ >= x.wmax:
                        break
                    cur = {c + b for c in cur for b in x.body}
                    if len(out) + len(cur) > cap:
                        raise AnalysisError('token language of `%s` too large to enumerate' % x.describe(1))
                return {o for o in out if len(o) <= maxlen}
            if k in ('suppress', 'combine'):
                return lang(x.kids[0])
            if k == 'opt':
                return lang(x.kids[0]) | {''}
            if k == 'first':
                out = set()
                for kid in x.kids:
                    out |= lang(kid)
                return out
            if k == 'and':
                outs = {''}
                for kid in x.kids:
                    outs = {a + b for a in outs for b in lang(kid) if len(a + b) <= maxlen}
                    if len(outs) > cap:
                        raise AnalysisError('token language of `%s` too large to enumerate' % x.describe(1))
                return outs
            raise AnalysisError('`%s` is not a token expression' % x.describe(1))
        return lang(t)

    def emitted(self, t):
        """Token strings an operator expression leaves in the result (after const actions and Suppress)."""
        const = [a for a in t.actions if a.kind == 'const']
        if const:
            return {const[-1].value}
        k = t.kind
        if k == 'suppress':
            return set()
        if k in ('lit', 'clit'):
            return {t.text}
        if k == 'word' and t.wmax == 1:
            return set(t.init)
        if k == 'first':
            out = set()
            for kid in t.kids:
                out |= self.emitted(kid)
            return out
        if k == 'and':
            out = set()
            for kid in t.kids:
                out |= self.emitted(kid)
            return out
        if k == 'opt':
            return self.emitted(t.kids[0])
        raise AnalysisError('cannot tell which tokens `%s` emits' % t.describe())

    def level(self, t):
        """Decompose `[prefix] X (op... X)*` ; returns a Level or None when t is not of that shape."""
        t0 = t
        t = self.strip(t)
        if t.kind != 'and':
            return None
        prefix, operand, star = [], None, None
        for kid in t.kids:
            if star is not None:
                return None
            if kid.kind == 'opt' and self.literal_tokens(kid.kids[0]) is not None and operand is None:
                prefix.append(kid)
            elif kid.kind == 'star' and operand is not None:
                star = kid
            elif operand is None and self.literal_tokens(kid) is None:
                operand = kid
            else:
                return None
        if operand is None:
            return None
        lv = Level(t0, t, operand)
        for p in prefix:
            lv.prefix_ops |= self.literal_tokens(p.kids[0])
            lv.prefix_terms.append(p)
        if star is not None:
            body = star.kids[0]
            if body.kind != 'and' or len(body.kids) < 2:
                return None
            lv.star = star
            lv.body_operand = body.kids[-1]
            for op in body.kids[:-1]:
                if op.kind == 'opt':
                    toks = self.literal_tokens(op.kids[0])
                    if toks is None:
                        return None
                    lv.infix_optional |= toks
                else:
                    toks = self.literal_tokens(op)
                    if toks is None:
                        if not self.is_token_expr(op):
                            return None
                        lv.wide_ops.append(op)      # an operator token that is not a finite set of literals (e.g. a Word)
                    else:
                        lv.infix_ops = {a + b for a in (lv.infix_ops or {''}) for b in toks}
                lv.op_terms.append(op)
        elif not prefix:
            return None
        for a in t.actions:
            if a.kind == 'group':
                lv.group = a
        return lv

    def chain(self, start):
        """Precedence chain from `start` downwards: list of Levels, then the final operand term (the atom)."""
        levels = []
        cur = start
        seen = set()
        while True:
            if id(cur) in seen:
                raise AnalysisError('precedence chain is cyclic at %r' % cur)
            seen.add(id(cur))
            lv = self.level(cur)
            if lv is None:
                return levels, cur
            levels.append(lv)
            cur = lv.operand

    # ------------------------------------------------------------------ token shapes
    def shapes(self, t, stops=(), reps=2):
        """Possible token sequences of t: lists of ('lit', s) | ('text', term) | ('sub', term) | ('operand', term).

        Terms in `stops` (and Forwards) are not expanded: they yield one ('operand', term).
        Nested Groups yield one ('sub', term).  ZeroOrMore is unrolled up to `reps` times.
        """
        stop_ids = {id(s) for s in stops}
        return _dedupe(self._shapes(t, stop_ids, reps, True))

    def _shapes(self, t, stop_ids, reps, top=False):
        if id(t) in stop_ids and not top:
            return [[('operand', t)]]
        const = [a for a in t.actions if a.kind == 'const']
        if const:
            # a constant-returning parse action replaces whatever the element matched
            return [[('lit', const[-1].value)]]
        return self._shapes_raw(t, stop_ids, reps, top)

    def _shapes_raw(self, t, stop_ids, reps, top=False):
        k = t.kind
        if k in ('lit', 'clit'):
            return [[('lit', t.text)]]
        if k in ('word', 'combine'):
            return [[('text', t)]]
        if k in ('suppress', 'not', 'follow', 'end', 'empty'):
            return [[]]
        if k == 'forward':
            return [[('operand', t)]]
        if k == 'group':
            if top:
                return self._shapes(t.kids[0], stop_ids, reps)
            return [[('sub', t)]]
        if k == 'and':
            seqs = [[]]
            for kid in t.kids:
                ks = self._shapes(kid, stop_ids, reps)
                seqs = [a + b for a in seqs for b in ks]
                if len(seqs) > 4000:
                    raise AnalysisError('too many token shapes')
            return seqs
        if k == 'first':
            out = []
            for kid in t.kids:
                out.extend(self._shapes(kid, stop_ids, reps))
            return out
        if k == 'opt':
            return [[]] + self._shapes(t.kids[0], stop_ids, reps)
        if k in ('star', 'plus'):
            body = self._shapes(t.kids[0], stop_ids, reps)
            out = [[]] if k == 'star' else []
            cur = [[]]
            for _ in range(reps):
                cur = [a + b for a in cur for b in body]
                out.extend(cur)
                if len(out) > 4000:
                    raise AnalysisError('too many token shapes')
            return out
        raise AnalysisError('internal: unknown term kind %s' % k)

    # ----------------------------------------------------------------------- matcher
    WS = ' \t\n\r'

    def outcome(self, text, stops=True):
        """'accept' | 'reject' | 'abort' for the whole grammar on text (parseString semantics: a matching prefix suffices;
        'abort' = an error stop (`a - b`) was passed and the rest failed: pyparsing raises ParseSyntaxException)."""
        self._use_stops = stops
        try:
            return 'accept' if self.match(self.root, text, 0) is not None else 'reject'
        except _Abort:
            return 'abort'
        finally:
            self._use_stops = False

    def match(self, t, text, pos=0, skip_ws=True, _depth=0):
        """Model of pyparsing's matching of term t on text at pos: end index or None.

        Ordered choice, greedy Optional/ZeroOrMore without retry, maximal-munch Word, white space skipped
        before every terminal except inside Combine (which skips once, before its first character).
        Used only for short probe strings of the terminal sub-grammars (number, name).
        """
        if _depth > 200:
            raise AnalysisError('grammar matcher recursion too deep')
        k = t.kind
        d = _depth + 1

        def ws(i):
            if skip_ws:
                while i < len(text) and text[i] in self.WS:
                    i += 1
            return i
        if k == 'lit':
            i = ws(pos)
            return i + len(t.text) if text.startswith(t.text, i) else None
        if k == 'clit':
            i = ws(pos)
            return i + len(t.text) if text[i:i + len(t.text)].lower() == t.text.lower() else None
        if k == 'word':
            i = ws(pos)
            if i < len(text) and text[i] in t.init:
                j = i + 1
                while j < len(text) and text[j] in t.body and (t.wmax is None or j - i < t.wmax):
                    j += 1
                return j if j - i >= t.wmin else None
            return None
        if k == 'end':
            i = ws(pos)
            return i if i == len(text) else None
        if k == 'empty':
            return pos
        if k == 'and':
            i = pos
            for n_, kid in enumerate(t.kids):
                i = self.match(kid, text, i, skip_ws, d)
                if i is None:
                    if t.stop is not None and n_ >= t.stop and getattr(self, '_use_stops', False):
                        raise _Abort()
                    return None
            return i
        if k == 'first':
            for kid in t.kids:
                i = self.match(kid, text, pos, skip_ws, d)
                if i is not None:
                    return i
            return None
        if k == 'opt':
            i = self.match(t.kids[0], text, pos, skip_ws, d)
            return pos if i is None else i
        if k in ('star', 'plus'):
            i = pos
            n = 0
            while True:
                j = self.match(t.kids[0], text, i, skip_ws, d)
                if j is None or j == i:
                    break
                i = j
                n += 1
            if k == 'plus' and n == 0:
                return None
            return i
        if k == 'combine':
            i = ws(pos)
            return self.match(t.kids[0], text, i, False, d)
        if k in ('group', 'suppress', 'forward'):
            return self.match(t.kids[0], text, pos, skip_ws, d)
        if k == 'not':
            return pos if self.match(t.kids[0], text, pos, skip_ws, d) is None else None
        if k == 'follow':
            return pos if self.match(t.kids[0], text, pos, skip_ws, d) is not None else None
        raise AnalysisError('internal: unknown term kind %s' % k)

    def accepts(self, t, text):
        """Does t match the whole of text (no surrounding white space)?"""
        return self.match(t, text, 0) == len(text)

    def terminals(self):
        """All literal strings and character sets of the reachable grammar."""
        chars = set()
        for t in self.nodes():
            if t.kind in ('lit', 'clit'):
                chars |= set(t.text)
            elif t.kind == 'word':
                chars |= set(t.init) | set(t.body)
        return chars

    # --------------------------------------------------------------------- inventory
    def groups(self):
        """[(group name | None, term, how)] for every construct that produces a nested, named ParseResults."""
        out = []
        for t in self.nodes():
            if t.kind == 'group':
                out.append((t.name, t, 'Group'))
            for a in t.actions:
                if a.kind == 'group':
                    out.append((a.value, t, 'group_if_multiple'))
        return out

    def minus_sites(self):
        """Every token position that can match exactly '-': [(site term, literal set of the whole alternative set there,
        enclosing Combine or None)].  The site is the outermost ordered choice (through nested choices) that contains the
        '-' alternative, or the literal/Word itself when it stands alone."""
        par = self.parents()
        out, seen = [], set()
        for t in self.nodes():
            lits = self.literal_tokens(t) if t.kind in ('lit', 'clit', 'word') else None
            if not lits or '-' not in lits:
                continue
            # climb through enclosing ordered choices
            tops = []
            stack = [t]
            visited = set()
            while stack:
                x = stack.pop()
                if id(x) in visited:
                    continue
                visited.add(id(x))
                pars = par.get(id(x), [])
                ups = [p_ for p_, i in pars if p_.kind == 'first' and self.literal_tokens(p_) is not None]
                stack.extend(ups)
                if len(ups) < len(pars) or not pars:
                    tops.append(x)        # also used outside an enclosing choice
            for top in tops:
                if id(top) in seen:
                    continue
                seen.add(id(top))
                out.append((top, self.literal_tokens(top), self._enclosing_combine(top)))
        return out

    def _enclosing_combine(self, t):
        par = self.parents()
        seen, stack = set(), [t]
        while stack:
            x = stack.pop()
            if id(x) in seen:
                continue
            seen.add(id(x))
            for p_, i in par.get(id(x), []):
                if p_.kind == 'combine':
                    return p_
                if p_.kind != 'forward':
                    stack.append(p_)
        return None

    def action_sites(self):
        """[(term, Action)] over the reachable graph."""
        return [(t, a) for t in self.nodes() for a in t.actions]

    def find_named(self, name):
        return [t for t in self.nodes() if t.name == name]


class Level(object):
    def __init__(self, outer, term, operand):
        self.outer = outer
        self.term = term
        self.operand = operand
        self.body_operand = None
        self.star = None
        self.prefix_ops = set()
        self.prefix_terms = []
        self.infix_ops = set()
        self.infix_optional = set()
        self.op_terms = []
        self.wide_ops = []          # operator token expressions whose language is not a finite literal set
        self.wide_handled = False
        self.group = None

    @property
    def label(self):
        return self.term.label or self.outer.label or (self.group.value if self.group else None) or '?'

    def signature(self):
        if self.wide_ops and not self.wide_handled:
            return ('wide', tuple(w.describe(2) for w in self.wide_ops))
        return (frozenset(self.prefix_ops), frozenset(self.infix_ops), frozenset(self.infix_optional))

    def describe(self):
        parts = []
        if self.prefix_ops:
            parts.append('prefix %s' % _ops(self.prefix_ops))
        if self.infix_ops:
            parts.append('infix %s' % _ops(self.infix_ops))
        if self.wide_ops:
            parts.append('infix token %s' % ', '.join(w.describe(2) for w in self.wide_ops))
        if self.infix_optional:
            parts.append('optional sign %s after the operator' % _ops(self.infix_optional))
        return ', '.join(parts) or 'no operators'


def _ops(s):
    return '{' + ' '.join(sorted(('em-dash' if x == u'—' else x) for x in s)) + '}'


def show_chars(chars, limit=14):
    chars = set(chars)
    parts = []
    for nm, val in (('letters', ALPHAS), ('digits', NUMS)):
        if set(val) <= chars:
            parts.append(nm)
            chars -= set(val)
    rest = sorted(('end' if c == END else 'em-dash' if c == u'—' else c) for c in chars)
    if len(rest) > limit:
        rest = rest[:limit] + ['...']
    return ' '.join(parts + rest)


class _Abort(Exception):
    pass


def _dedupe(seqs):
    out, seen = [], set()
    for s in seqs:
        key = tuple((k, v if isinstance(v, str) else id(v)) for k, v in s)
        if key not in seen:
            seen.add(key)
            out.append(s)
    return out


# ------------------------------------------------------------ group_if_multiple model
def group_action_threshold(fi):
    """For an action factory `def f(name): def act(tokens): if len(tokens) > N: return ParseResults(toklist=[tokens],
    name=name); return tokens` return (minimal token count that is grouped, name-argument-ok, inner function node).

    Raises AnalysisError when the factory has another shape.
    """
    fn = fi.node
    inner = [s for s in fn.body if isinstance(s, ast.FunctionDef)]
    rets = [s for s in fn.body if isinstance(s, ast.Return)]
    params = [p for p in fi.params if not (fi.cls is not None and not fi.is_static and p == fi.params[0])]
    if len(inner) != 1 or len(rets) != 1 or len(params) != 1:
        raise AnalysisError('%s is not a recognised action factory' % fi.qualname)
    if not (isinstance(rets[0].value, ast.Name) and rets[0].value.id == inner[0].name):
        raise AnalysisError('%s does not return its inner action' % fi.qualname)
    act = inner[0]
    if len(act.args.args) != 1:
        raise AnalysisError('inner action of %s must take exactly the token list' % fi.qualname)
    tok = act.args.args[0].arg
    from . import nf
    paths = nf.decision_paths(act.body)
    threshold = None
    name_ok = True
    wrap_ok = True
    plain_seen = False
    for p in paths:
        if p.leaf.kind != 'ret':
            raise AnalysisError('inner action of %s does not return on every path' % fi.qualname)
        v = p.leaf.expr
        if isinstance(v, ast.Name) and v.id == tok:
            plain_seen = True
            continue
        if isinstance(v, ast.Call) and nf.callee_name(v) == 'ParseResults':
            kws = {k.arg: k.value for k in v.keywords}
            tl = kws.get('toklist', v.args[0] if v.args else None)
            nm = kws.get('name', v.args[1] if len(v.args) > 1 else None)
            wrap_ok = wrap_ok and isinstance(tl, ast.List) and len(tl.elts) == 1 and isinstance(tl.elts[0], ast.Name) \
                and tl.elts[0].id == tok
            name_ok = name_ok and isinstance(nm, ast.Name) and nm.id == params[0]
            if len(p.guards) != 1:
                raise AnalysisError('grouping condition of %s not recognised' % fi.qualname)
            g = p.guards[0]
            b = nf.match('_N < len(%s)' % tok, g)
            if b is not None and isinstance(nf.const_value(b['_N']), int):
                threshold = nf.const_value(b['_N']) + 1
                continue
            b = nf.match('_N <= len(%s)' % tok, g)
            if b is not None and isinstance(nf.const_value(b['_N']), int):
                threshold = nf.const_value(b['_N'])
                continue
            b = nf.match('len(%s) != _N' % tok, g)
            if b is not None and nf.const_value(b['_N']) == 1:
                threshold = 2
                continue
            raise AnalysisError('grouping condition `%s` of %s not recognised' % (unparse(g), fi.qualname))
        raise AnalysisError('inner action of %s returns `%s`' % (fi.qualname, short(v)))
    if threshold is None or not plain_seen:
        raise AnalysisError('%s: grouping/pass-through branches not both found' % fi.qualname)
    return threshold, name_ok and wrap_ok, act


def extract(idx, qualname='mitxgraders.helpers.calc.expressions.MathParser.get_grammar'):
    return Grammar(idx, idx.func(qualname))
