import importlib

ALL = ['C%02d' % i for i in range(1, 21)]


def load(prop):
    return importlib.import_module('sa.props.%s' % prop.lower())


def available():
    out = []
    for p in ALL:
        try:
            load(p)
            out.append(p)
        except ImportError:
            pass
    return out
