"""C13 -- sampled variable sets are complete and dependent values are consistent.

Every clause is decided from the shape of the code:
* D1  CFG: the fixed-point loop of `gen_symbols_samples` (flag reset / set only after a removal / a round without
      progress always raises ConfigError);
* D2  NF (key sets): pruned constants, per-sample copy, independent draws inside the sample loop, complementary
      partition of the symbols, collection after the loop;
* D3  ROLE: a dependent is stored into the dict it is computed from, under the readiness test `is_subset(deps, dict)`;
      normal form of `is_subset`;
* D4  NF/GUARD: DependentSampler (depends from the parsed formula, CalcError -> ConfigError, argument roles of the
      evaluator call, gen_sample always raises);
* D5  REGEX term (E9) with the joined heads as a hole + NF/ROLE of `generate_variable_list`;
* D6  NF/ROLE: `construct_constants`, `gen_var_and_func_samples`.
Nothing of /repo is imported or executed.
"""
import ast
from re import _constants as sre_c
from re import _parser as sre_parse

from ..index import AnalysisError, walk_own, short, unparse, parent
from ..cfg import cfg_of
from .. import nf, lib
from ..selftest import Mutant, Benign
from . import _c13_regex as rx
from . import _c13_nfx as X

ID = 'C13'
SAMPLING = 'mitxgraders/sampling.py'
MH = 'mitxgraders/helpers/math_helpers.py'
FG = 'mitxgraders/formulagrader/formulagrader.py'
FILES = [SAMPLING, MH, FG]

EXPLANATION = (
    "(D1, CFG) in gen_symbols_samples' `while <pending dependents>` loop the progress flag is reset on every round before it "
    "is tested, it is set only where a dependent has just been removed from the pending dict, and every path of a round "
    "without progress ends in `raise ConfigError` (no back-edge, no return); (D2, NF) the sample dict starts as a copy, made "
    "inside the per-sample loop, of {constants not in symbols}; it is updated with gen_sample() of every symbol whose sampler "
    "is not a DependentSampler, drawn inside that loop; the pending dict holds exactly the complementary symbols; the dict is "
    "appended after the loop `while pending` (hence with every dependent present) once per range(samples) and the list is "
    "returned; (D3, ROLE) sample[s] = sample_from[s].compute_sample(sample, functions, suffixes) -- same dict, same symbol, "
    "functions/suffixes in their roles -- executed only under is_subset(<its depends>, sample) (control dependence); is_subset "
    "is the universal membership test: all()/issubset form, or a search loop whose only in-loop exit is `return False` "
    "controlled by `item not in superset` and whose `return True` is reached only after the loop is exhausted (CFG); (D4) DependentSampler.__init__ stores list(parse(formula).variables_used) as depends inside a handler "
    "that turns CalcError into ConfigError; compute_sample calls evaluator(formula=own formula, variables=the given sample, "
    "functions, suffixes) under the same translation and returns the value; gen_sample raises on every path; (D5, REGEX) "
    "the numbered-variable pattern keeps the alternation of heads intact in group 2 at the start of group 1, is anchored at "
    "the end (or applied with fullmatch), and its index term equals `-?[1-9][0-9]*|0` as a regex AST; generate_variable_list "
    "works on copies of config['variables'] / config['sample_from'], matches only names that are not declared, appends group 1 "
    "and gives it the sampler of group 2; (D6) construct_constants = copy of the defaults then the user's entries; "
    "gen_var_and_func_samples declares every sibling, refuses empty ones with MissingInput before building "
    "DependentSampler(formula=<its formula>), searches all expressions incl. dict values, and passes "
    "variables/samples/samplers/functions/suffixes/constants to gen_symbols_samples in their roles; (D7) every enumeration of "
    "the sampling sets (a loop/comprehension that looks samplers up by its variable, or ranges over sample_from) has "
    "config['sample_from'] -- or variables + numbered_vars -- as its domain, never config['variables'] alone.")
NOT_DECIDED = ("numeric values of dependent variables (the formula evaluator, C03); that the evaluator raises for a missing "
               "variable; termination of the samplers' own draws (C12); regex engine semantics (trusted).")
ASSUMPTIONS = ["samplers' gen_sample and DependentSampler.compute_sample are the only sources of sampled values",
               "heads of numbered variables are plain identifiers (the parser's `front`), so re.escape is not load-bearing"]

GSS = 'mitxgraders.sampling.gen_symbols_samples'
DS = 'mitxgraders.sampling.DependentSampler'
MM = 'mitxgraders.helpers.math_helpers.MathMixin'
EVALUATOR = 'mitxgraders.helpers.calc.expressions.evaluator'
CALC_COVER = ('CalcError', 'StudentFacingError', 'MITxError', 'Exception', 'BaseException')


def check(ctx):
    _run_all(ctx, ctx.index, [d1_progress, d2_keys, d3_roles, d4_dependent, d5_regex, d5_numbered, d6_constants, d6_siblings, d7_samplers])


def _run_all(ctx, idx, fns):
    """Run the rule functions; an unexpected failure inside the checker is an analysis error, never a crash."""
    for f in fns:
        try:
            f(ctx, idx)
        except AnalysisError:
            raise
        except Exception as e:      # pragma: no cover - defensive
            ctx.rule('ENGINE.%s' % f.__name__, 'the checker could not finish this rule').undecided(
                '<checker>', '%s: %s' % (type(e).__name__, e))


def verdict(r, construct, res, where, ok_detail='', expected=None, why=''):
    if res == nf.MATCH:
        r.ok(construct, ok_detail, where)
    elif isinstance(res, tuple):
        r.violation(construct, res[1] + (': ' + why if why else ''), where, expected=expected)
    else:
        r.undecided(construct, 'shape not recognised' + (' (expected %s)' % expected if expected else ''), where)


def _sub(r, f, *args):
    """Run one obligation group; an unrecognised shape there does not hide the verdicts of the others."""
    try:
        return f(*args)
    except AnalysisError as e:
        r.undecided('<%s>' % f.__name__.strip('_'), str(e))
        return None


def _is_probe(s):
    return (isinstance(s, ast.Assign) and len(s.targets) == 1 and isinstance(s.targets[0], ast.Name)
            and isinstance(s.value, ast.Constant)) or (isinstance(s, ast.Expr))


def _body(stmts):
    """Statements without docstrings / constant-assignment probes / expression statements that are plain calls of log."""
    return [s for s in stmts if not (isinstance(s, ast.Expr) and isinstance(s.value, ast.Constant))
            and not (isinstance(s, ast.Assign) and len(s.targets) == 1 and isinstance(s.targets[0], ast.Name)
                     and isinstance(s.value, ast.Constant) and s.targets[0].id.startswith('_sa_'))]


# ----------------------------------------------------------------------------- D1
def _flag_test(test):
    """(flag name, edge label taken when the flag is false) for `not F`, `F`, `F is False`, `F == False`."""
    t = nf.canon(test)
    if isinstance(t, ast.UnaryOp) and isinstance(t.op, ast.Not) and isinstance(t.operand, ast.Name):
        return t.operand.id, 'true'
    if isinstance(t, ast.Name):
        return t.id, 'false'
    if isinstance(t, ast.Compare) and len(t.ops) == 1 and isinstance(t.left, ast.Name) \
            and isinstance(t.comparators[0], ast.Constant) and isinstance(t.comparators[0].value, bool):
        positive = isinstance(t.ops[0], (ast.Is, ast.Eq))
        value = t.comparators[0].value
        if isinstance(t.ops[0], (ast.Is, ast.Eq, ast.IsNot, ast.NotEq)):
            # the branch on which the flag is false
            return t.left.id, 'true' if (positive != value) else 'false'
    return None, None


def _const_assign(stmt, value):
    return isinstance(stmt, ast.Assign) and len(stmt.targets) == 1 and isinstance(stmt.targets[0], ast.Name) \
        and isinstance(stmt.value, ast.Constant) and stmt.value.value is value


def _in_subtree(node, root):
    return any(n is node for n in ast.walk(root))


def d1_progress(ctx, idx):
    r = ctx.rule('D1.PROGRESS', 'a round of the dependency loop that makes no progress ends in raise ConfigError; the flag is '
                 'reset every round and set only when a pending dependent was removed', floor=5)
    with r:
        fi = idx.func(GSS)
        try:
            A0 = Anchors(idx)
        except AnalysisError:
            A0 = None
        if A0 is not None and A0.planned:
            return _d1_plan(r, A0)
        cfg = cfg_of(fi.node)
        whiles = [n for n in walk_own(fi.node) if isinstance(n, ast.While)]
        if len(whiles) != 1:
            raise AnalysisError('gen_symbols_samples: expected exactly one while loop, found %d' % len(whiles))
        w = whiles[0]
        if not isinstance(w.test, ast.Name):
            raise AnalysisError('gen_symbols_samples: loop condition is not the pending-dependents dict: %s' % short(w.test))
        pending = w.test.id
        wt = [n for n in cfg.nodes_of(w) if n.kind == 'test']
        if len(wt) != 1:
            raise AnalysisError('no CFG node for the while test')
        wt = wt[0]
        # the flag test: an `if` inside the loop body whose test is just a local flag
        tests = []
        for s in ast.walk(w):
            if isinstance(s, ast.If) and s is not w:
                flag, edge = _flag_test(s.test)
                if flag is None:
                    continue
                has_const = lambda n_: any((_const_assign(x, True) or _const_assign(x, False)) and x.targets[0].id == n_
                                           for x in walk_own(fi.node))
                if not has_const(flag):
                    # the tested name may be a snapshot `t = flag` taken after the pass (e.g. a helper's returned value)
                    snaps = [x for x in walk_own(fi.node) if isinstance(x, ast.Assign) and len(x.targets) == 1
                             and X.is_name(x.targets[0], flag) and isinstance(x.value, ast.Name) and has_const(x.value.id)]
                    if len(snaps) != 1 or not _in_subtree(snaps[0], w):
                        continue
                    real = snaps[0].value.id
                    tn_ = [n for n in cfg.nodes_of(s) if n.kind == 'test']
                    sn_ = cfg.nodes_of(snaps[0])
                    wr_ = [n for n in cfg.nodes if n.kind == 'stmt' and isinstance(n.ast, (ast.Assign, ast.AugAssign))
                           and real in X.assigned_names(n.ast)]
                    between = cfg.reach(sn_, blocked=tn_, include_starts=False)
                    if not tn_ or not sn_ or any(n in between for n in wr_) or not cfg.dominates(sn_, tn_):
                        continue
                    flag = real
                tests.append((s, flag, edge))
        # the end-of-round test is the one that is not inside a loop nested in the while
        round_tests = [t for t in tests if X.enclosing_loop(t[0]) is w]
        if not round_tests:
            if _size_progress(r, fi, cfg, w, wt, pending):
                return
            if _list_progress(r, fi, cfg, w, wt, pending):
                return
        if len(round_tests) != 1:
            raise AnalysisError('gen_symbols_samples: expected one end-of-round test of a progress flag, found %d' % len(round_tests))
        tstmt, flag, noprog_edge = round_tests[0]
        tnode = [n for n in cfg.nodes_of(tstmt) if n.kind == 'test'][0]
        in_loop = [n for n in cfg.nodes if n.ast is not None and n.kind == 'stmt' and _in_subtree(n.ast, w)]
        writes = [n for n in in_loop if isinstance(n.ast, (ast.Assign, ast.AugAssign))
                  and any(isinstance(t, ast.Name) and t.id == flag and isinstance(t.ctx, ast.Store) for t in ast.walk(n.ast))]
        resets, sets, accum, lossy = [], [], [], []
        for n in writes:
            nested = X.enclosing_loop(n.ast) is not w            # inside the loop over the pending dependents
            if _const_assign(n.ast, True):
                sets.append(n)
            elif _const_assign(n.ast, False):
                (lossy if nested else resets).append(n)
            elif (isinstance(n.ast, ast.AugAssign) and isinstance(n.ast.op, ast.BitOr)) or (
                    isinstance(n.ast, ast.Assign) and isinstance(nf.canon(n.ast.value), ast.BoolOp)
                    and isinstance(nf.canon(n.ast.value).op, ast.Or)
                    and any(X.is_name(v, flag) for v in nf.canon(n.ast.value).values)):
                accum.append(n)
            elif nested and isinstance(n.ast, ast.Assign) and len(n.ast.targets) == 1:
                lossy.append(n)
            else:
                raise AnalysisError('progress flag %s is written by `%s`' % (flag, short(n.ast)))
        construct = 'gen_symbols_samples: progress recorded for one dependent is kept until the end of the round'
        if lossy:
            r.violation(construct, '`%s` inside the loop over the pending dependents overwrites the flag with a possibly-false value: the '
                        'progress of an earlier dependent in the same pass is forgotten, so the flag only tells whether the LAST dependent '
                        'visited was resolvable and valid acyclic configurations are reported as circular' % short(lossy[0].ast),
                        lib.loc(fi, lossy[0].ast), expected='%s = True (or an `or`-accumulation)' % flag)
        else:
            r.ok(construct, 'every store inside the inner loop is the constant True or an or-accumulation', lib.loc(fi, w))
        removals = [n for n in in_loop if _removes_from(n.ast, pending)]
        where = lib.loc(fi, tstmt)
        # (a) reset every round
        reach = cfg.reach([wt], blocked=resets, include_starts=False, blocked_edges=[(wt, 'false')])
        r.check(tnode not in reach, 'gen_symbols_samples: %s is reset before it is tested, every round' % flag,
                'every path from the loop head to the test passes `%s = False`' % flag,
                'a round can reach `if not %s` without resetting the flag first: once one dependent has been computed the flag '
                'stays true, a later round without progress is not noticed and the loop spins forever on a circular or '
                'undefined dependency' % flag, lib.loc(fi, w), expected='%s = False at the start of every round' % flag)
        # (b) set only after a removal from the pending dict
        if lossy or accum:
            r.undecided('gen_symbols_samples: %s is set only where a pending dependent was removed' % flag,
                        'the flag is not set by constant stores; not analysed', where) if accum and not lossy else None
        elif not sets:
            X.absent(r, 'gen_symbols_samples: %s is set when a dependent was computed' % flag,
                     'the flag is never set inside the loop: every round counts as "no progress", so valid dependency '
                     'chains are reported as circular', where)
        else:
            reach = cfg.reach([wt], blocked=removals, include_starts=False, blocked_edges=[(wt, 'false')])
            bad = [n for n in sets if n in reach]
            r.check(not bad, 'gen_symbols_samples: %s is set only where a pending dependent was removed' % flag,
                    'each `%s = True` is preceded in its round by a removal from %s' % (flag, pending),
                    '`%s = True` can be reached in a round that removed nothing from %s (%s): such a round repeats forever'
                    % (flag, pending, 'no removal from %s exists' % pending if not removals else 'the removal is skipped on some path'),
                    lib.loc(fi, (bad or sets)[0].ast), expected='del %s[symbol] before %s = True' % (pending, flag))
        _no_progress_raises(r, fi, cfg, w, wt, tstmt, noprog_edge, where)


def _size_progress(r, fi, cfg, w, wt, pending):
    """Progress detected by comparing the size of the pending dict before and after a round (progress <=> an element
    was removed).  Returns False if that idiom is not present."""
    sizes = {}
    for s in w.body:
        if isinstance(s, ast.Assign) and len(s.targets) == 1 and isinstance(s.targets[0], ast.Name) \
                and X.m("len(%s)" % pending, s.value) is not None:
            sizes[s.targets[0].id] = s
    found = None
    for s in w.body:
        if not isinstance(s, ast.If):
            continue
        t = nf.canon(s.test)
        for n in sizes:
            if X.m("len(%s) == %s" % (pending, n), t) is not None or X.m("%s <= len(%s)" % (n, pending), t) is not None:
                found = (s, n, 'true')
            elif X.m("len(%s) != %s" % (pending, n), t) is not None or X.m("len(%s) < %s" % (pending, n), t) is not None:
                found = (s, n, 'false')
    if found is None:
        return False
    tstmt, n, noprog_edge = found
    rec = sizes[n]
    in_loop = [x for x in cfg.nodes if x.ast is not None and x.kind == 'stmt' and _in_subtree(x.ast, w)]
    removals = [x for x in in_loop if _removes_from(x.ast, pending)]
    additions = [x for x in in_loop if isinstance(x.ast, ast.Assign) and any(
        isinstance(t_, ast.Subscript) and X.is_name(t_.value, pending) for t_ in x.ast.targets)]
    if additions or [x for x in in_loop if x.ast is not rec and isinstance(x.ast, (ast.Assign, ast.AugAssign)) and n in X.assigned_names(x.ast)]:
        raise AnalysisError('the pending dict grows / the recorded size is rewritten inside the loop')
    tnode = [x for x in cfg.nodes_of(tstmt) if x.kind == 'test'][0]
    recn = cfg.nodes_of(rec)
    where = lib.loc(fi, tstmt)
    reach = cfg.reach([wt], blocked=recn, include_starts=False, blocked_edges=[(wt, 'false')])
    r.check(tnode not in reach and not any(x in reach for x in removals),
            'gen_symbols_samples: the size of the pending dict is recorded at the start of every round',
            '`%s = len(%s)` precedes every removal and the end-of-round test' % (n, pending),
            'a round can remove dependents or reach the end-of-round test before `%s = len(%s)` is recorded: progress is compared '
            'against a stale size' % (n, pending), lib.loc(fi, rec))
    r.ok('gen_symbols_samples: progress recorded for one dependent is kept until the end of the round',
         'progress is the decrease of len(%s): it cannot be forgotten within a round' % pending, where)
    r.check(bool(removals), 'gen_symbols_samples: progress means that a pending dependent was removed',
            'len(%s) decreases exactly by the removals' % pending,
            'nothing is ever removed from %s: every round counts as "no progress"' % pending, where)
    _no_progress_raises(r, fi, cfg, w, wt, tstmt, noprog_edge, where)
    return True


def _list_progress(r, fi, cfg, w, wt, pending):
    """Progress recorded as the list of dependents evaluated in the round: `E = []` at the start of every round, `E.append(s)`
    next to the removal, `if not E` at the end.  Returns False if that idiom is not present."""
    fn = fi.node
    lists = {}
    for s_ in w.body:
        if isinstance(s_, ast.Assign) and len(s_.targets) == 1 and isinstance(s_.targets[0], ast.Name) \
                and ((isinstance(s_.value, ast.List) and not s_.value.elts) or X.m("list()", s_.value) is not None):
            lists[s_.targets[0].id] = s_
    found = None
    for s_ in w.body:
        if not isinstance(s_, ast.If):
            continue
        for n, init in lists.items():
            names = {n}
            # a snapshot `t = E` taken after the pass (e.g. the value an inlined helper returned)
            for x in w.body:
                if isinstance(x, ast.Assign) and len(x.targets) == 1 and isinstance(x.targets[0], ast.Name) and X.is_name(x.value, n) \
                        and len([y for y in walk_own(fn) if isinstance(y, ast.Assign) and any(X.is_name(t_, x.targets[0].id) for t_ in y.targets)]) == 1:
                    names.add(x.targets[0].id)
            for nm in names:
                t = nf.canon(s_.test)
                if X.any_match(["not %s" % nm, "len(%s) == 0" % nm, "%s == []" % nm], t) is not None:
                    found = (s_, n, 'true', init)
                elif X.any_match(["%s" % nm, "len(%s) > 0" % nm, "len(%s)" % nm, "%s != []" % nm, "len(%s) != 0" % nm], t) is not None:
                    found = (s_, n, 'false', init)
    if found is None:
        return False
    tstmt, E, noprog_edge, init = found
    in_loop = [x for x in cfg.nodes if x.ast is not None and x.kind == 'stmt' and _in_subtree(x.ast, w)]
    appends = [x for x in in_loop if X.m(X.spat("%s.append(_S)" % E), x.ast) is not None]
    others = [x for x in ast.walk(w) if isinstance(x, ast.Attribute) and X.is_name(x.value, E) and x.attr in (
        'clear', 'pop', 'remove', 'extend', 'insert', 'sort', 'reverse') and isinstance(parent(x), ast.Call)]
    rewrites = [x for x in in_loop if x.ast is not init and isinstance(x.ast, (ast.Assign, ast.AugAssign, ast.Delete)) and E in X.assigned_names(x.ast)]
    if others or rewrites:
        raise AnalysisError('the list of evaluated dependents `%s` is changed by more than appends' % E)
    removals = [x for x in in_loop if _removes_from(x.ast, pending)]
    tnode = [x for x in cfg.nodes_of(tstmt) if x.kind == 'test'][0]
    initn = cfg.nodes_of(init)
    where = lib.loc(fi, tstmt)
    reach = cfg.reach([wt], blocked=initn, include_starts=False, blocked_edges=[(wt, 'false')])
    r.check(tnode not in reach and not any(x in reach for x in appends),
            'gen_symbols_samples: the list of evaluated dependents is emptied at the start of every round',
            '`%s = []` precedes every append and the end-of-round test' % E,
            'a round can reach the end-of-round test / an append before `%s = []`: dependents evaluated in an earlier round still count as '
            'progress, a later round without progress is not noticed and the loop spins forever' % E, lib.loc(fi, init))
    r.ok('gen_symbols_samples: progress recorded for one dependent is kept until the end of the round',
         'the list `%s` only grows within a round' % E, where)
    if not appends:
        X.absent(r, 'gen_symbols_samples: %s records a dependent when it was computed' % E,
                 'nothing is ever appended to `%s`: every round counts as "no progress", so valid dependency chains are reported as '
                 'circular' % E, where)
    else:
        reach = cfg.reach([wt], blocked=removals, include_starts=False, blocked_edges=[(wt, 'false')])
        bad = [x for x in appends if x in reach]
        r.check(not bad, 'gen_symbols_samples: %s grows only where a pending dependent was removed' % E,
                'each append is preceded in its round by a removal from %s' % pending,
                '`%s.append(...)` can be reached in a round that removed nothing from %s: such a round repeats forever' % (E, pending),
                lib.loc(fi, (bad or appends)[0].ast))
    _no_progress_raises(r, fi, cfg, w, wt, tstmt, noprog_edge, where, pending=pending)
    return True


# ------------------------------------------------------------------ feasibility of a silent exit from the stall report
KINDS = ('sample', 'other', 'self', 'undefined')      # what a dependency of a pending symbol can be: a key of the sample dict,
                                                      # another pending symbol, the symbol itself, nothing at all
KIND_TEXT = {'sample': 'a value that is already in the sample', 'other': 'another pending dependent', 'self': 'ITSELF',
             'undefined': 'a name nothing defines'}


def _item_pred(e, item, sym, pending, sample):
    """Predicate over a dependency kind for a condition on `item`, or None."""
    e = nf.canon(e)
    if isinstance(e, ast.BoolOp):
        parts = [_item_pred(v, item, sym, pending, sample) for v in e.values]
        if any(p_ is None for p_ in parts):
            return None
        return (lambda k: all(p_(k) for p_ in parts)) if isinstance(e.op, ast.And) else (lambda k: any(p_(k) for p_ in parts))
    if isinstance(e, ast.UnaryOp) and isinstance(e.op, ast.Not):
        inner = _item_pred(e.operand, item, sym, pending, sample)
        return None if inner is None else (lambda k: not inner(k))
    for ptn, f in (("%s in %s" % (item, pending), lambda k: k in ('other', 'self')), ("%s not in %s" % (item, pending), lambda k: k not in ('other', 'self')),
                   ("%s in %s" % (item, sample), lambda k: k == 'sample'), ("%s not in %s" % (item, sample), lambda k: k != 'sample')):
        if X.m(ptn, e) is not None:
            return f
    if sym is not None:
        for ptn, f in (("%s != %s" % (item, sym), lambda k: k != 'self'), ("%s == %s" % (item, sym), lambda k: k == 'self'),
                       ("%s != %s" % (sym, item), lambda k: k != 'self'), ("%s == %s" % (sym, item), lambda k: k == 'self')):
            if X.m(ptn, e) is not None:
                return f
    return None


def _symbol_pred(e, sym, deps, pending, sample):
    """Predicate over the set of dependency kinds of one pending symbol for a condition on (symbol, its depends), or None."""
    e = nf.canon(e)
    if isinstance(e, ast.BoolOp):
        parts = [_symbol_pred(v, sym, deps, pending, sample) for v in e.values]
        if any(p_ is None for p_ in parts):
            return None
        return (lambda ks: all(p_(ks) for p_ in parts)) if isinstance(e.op, ast.And) else (lambda ks: any(p_(ks) for p_ in parts))
    if isinstance(e, ast.UnaryOp) and isinstance(e.op, ast.Not):
        inner = _symbol_pred(e.operand, sym, deps, pending, sample)
        return None if inner is None else (lambda ks: not inner(ks))
    if X.any_match(["is_subset(%s, %s)" % (d, sample) for d in deps], e) is not None:
        return lambda ks: ks <= {'sample'}
    if isinstance(e, ast.Call) and isinstance(e.func, ast.Name) and e.func.id in ('any', 'all') and len(e.args) == 1 \
            and isinstance(e.args[0], (ast.GeneratorExp, ast.ListComp)) and len(e.args[0].generators) == 1:
        g = e.args[0].generators[0]
        if isinstance(g.target, ast.Name) and any(X.m(d, g.iter) is not None for d in deps):
            body = _item_pred(e.args[0].elt, g.target.id, sym, pending, sample)
            flt = [_item_pred(t, g.target.id, sym, pending, sample) for t in g.ifs]
            if body is None or any(f is None for f in flt):
                return None
            keep = lambda k: all(f(k) for f in flt)
            if e.func.id == 'any':
                return lambda ks: any(body(k) for k in ks if keep(k))
            return lambda ks: all(body(k) for k in ks if keep(k))
    return None


def _culprits_pred(e, pending, sample, env):
    """For an expression listing culprits among the pending symbols / their dependencies: predicate over one symbol's kinds
    telling whether that symbol contributes an element; None if the expression is not read."""
    hops = 0
    while isinstance(e, ast.Name) and e.id in env and hops < 4:
        e, hops = env[e.id], hops + 1
    if isinstance(e, ast.Call) and isinstance(e.func, ast.Name) and e.func.id in ('list', 'sorted', 'set', 'tuple', 'frozenset') and len(e.args) == 1:
        return _culprits_pred(e.args[0], pending, sample, env)
    if X.any_match([pending, "%s.keys()" % pending, "%s.items()" % pending, "%s.values()" % pending], e) is not None:
        return lambda ks: True
    if isinstance(e, (ast.ListComp, ast.SetComp, ast.GeneratorExp)) and len(e.generators) == 1:
        g = e.generators[0]
        it = g.iter
        hops = 0
        while isinstance(it, ast.Name) and it.id in env and it.id != pending and hops < 4:
            it, hops = env[it.id], hops + 1
        if X.m("%s.items()" % pending, it) is not None and isinstance(g.target, ast.Tuple) and len(g.target.elts) == 2 \
                and all(isinstance(t, ast.Name) for t in g.target.elts):
            sym, deps = g.target.elts[0].id, [g.target.elts[1].id, "%s[%s]" % (pending, g.target.elts[0].id)]
        elif X.any_match([pending, "%s.keys()" % pending, "list(%s)" % pending], it) is not None and isinstance(g.target, ast.Name):
            sym, deps = g.target.id, ["%s[%s]" % (pending, g.target.id)]
        elif X.any_match(["set().union(*%s.values())" % pending, "set.union(*%s.values())" % pending,
                          "set(itertools.chain.from_iterable(%s.values()))" % pending, "set(chain.from_iterable(%s.values()))" % pending,
                          "{_I for _D in %s.values() for _I in _D}" % pending], it) is not None and isinstance(g.target, ast.Name):
            flt = [_item_pred(t, g.target.id, None, pending, sample) for t in g.ifs]
            if any(f is None for f in flt):
                return None
            return lambda ks: any(all(f(k) for f in flt) for k in ks)
        else:
            return None
        flt = [_symbol_pred(t, sym, deps, pending, sample) for t in g.ifs]
        if any(f is None for f in flt):
            return None
        return lambda ks: all(f(ks) for f in flt)
    return None


def _silent_exit(fi, branch, pending, sample):
    """Reads the no-progress branch as decision paths and looks, over the complete domain of dependency kinds, for a state
    of the pending dict (non-empty, nobody ready) in which a path that does not raise is taken.
    Returns ('none',) / ('feasible', text) / ('unknown', text)."""
    import itertools
    try:
        paths = nf.decision_paths(branch)
    except AnalysisError as e:
        return ('unknown', str(e))
    silent = [p_ for p_ in paths if p_.leaf.kind != 'raise']
    if not silent:
        return ('none',)
    types = [frozenset(c) for n in range(1, len(KINDS) + 1) for c in itertools.combinations(KINDS, n)]
    types = [t for t in types if not t <= {'sample'}]                      # nobody is ready: each symbol misses a dependency
    configs = [(a,) for a in types if 'other' not in a] + [(a, b) for a in types for b in types]
    verdict_ = ('none',)
    for p_ in silent:
        preds = []
        unknown = None
        for g in p_.guards:
            neg = isinstance(g, ast.UnaryOp) and isinstance(g.op, ast.Not)
            core = g.operand if neg else g
            if isinstance(core, ast.Compare) and X.m("len(_C) == 0", core) is not None:
                core, neg = X.m("len(_C) == 0", core)['_C'], not neg
            elif isinstance(core, ast.Compare) and X.any_match(["len(_C) > 0", "len(_C) != 0"], core) is not None:
                core = X.any_match(["len(_C) > 0", "len(_C) != 0"], core)['_C']
            cp = _culprits_pred(core, pending, sample, {})
            if cp is None:
                unknown = g
                continue
            preds.append((cp, neg))
        witness = None
        for cfg_ in configs:
            # `cp` tells whether a symbol contributes a culprit; the collection is non-empty iff some symbol does
            if all((any(cp(t) for t in cfg_)) != neg for cp, neg in preds):
                witness = cfg_
                break
        if witness is None:
            continue
        if unknown is not None:
            calls = {nf.callee_name(c) for c in ast.walk(unknown) if isinstance(c, ast.Call)} - {
                'any', 'all', 'len', 'sorted', 'list', 'set', 'join', 'is_subset', 'keys', 'values', 'items', 'union', None}
            if calls:
                verdict_ = ('unknown', 'condition `%s` on a path that does not raise is not read' % short(unknown))
                continue
        t0 = witness[0] if len(witness) == 1 else min(witness, key=len)
        text = 'e.g. %s depends on %s' % ('a single pending dependent that' if len(witness) == 1 else 'two pending dependents, one of which',
                                          ' and '.join(KIND_TEXT[k] for k in KINDS if k in t0))
        return ('feasible', text)
    return verdict_


def _no_progress_raises(r, fi, cfg, w, wt, tstmt, noprog_edge, where, pending=None):
    # (c) the no-progress branch always raises
    branch = tstmt.body if noprog_edge == 'true' else tstmt.orelse
    if not branch:
        raise AnalysisError('the no-progress branch of `%s` is empty' % short(tstmt.test))
    first = [s for s in branch if not (isinstance(s, ast.Expr) and isinstance(s.value, ast.Constant))]
    starts = cfg.nodes_of(first[0]) if first else []
    if not starts:
        raise AnalysisError('no CFG node for the first statement of the no-progress branch')
    reach = cfg.reach(starts)
    escapes = []
    if wt in reach:
        escapes.append('goes on to the next round')
    if cfg.exit_return in reach:
        escapes.append('returns')
    after = [n for n in reach if n.ast is not None and n.kind in ('stmt', 'test', 'for') and not _in_subtree(n.ast, tstmt)
             and n is not wt]
    if after and not escapes:
        escapes.append('continues with `%s`' % short(after[0].ast, 50))
    if escapes and pending is not None and not any(isinstance(x, (ast.For, ast.While, ast.Try, ast.With)) for s_ in branch for x in ast.walk(s_)):
        # the branch is a chain of "collect culprits, raise if any": a silent exit may be infeasible (e.g. the last collection
        # is the whole pending dict, which is not empty inside `while pending`)
        sample = None
        for c_ in ast.walk(w):
            if isinstance(c_, ast.Call) and nf.callee_name(c_) == 'compute_sample' and c_.args and isinstance(c_.args[0], ast.Name):
                sample = c_.args[0].id
        res = _silent_exit(fi, branch, pending, sample) if sample else ('unknown', 'sample dict not identified')
        construct = 'gen_symbols_samples: a round without progress always raises'
        if res[0] == 'none':
            r.ok(construct, 'every path of the stall report that does not raise is infeasible over the domain of dependency kinds', where)
            escapes = None
        elif res[0] == 'feasible':
            r.violation(construct, 'the stall report can end without raising (%s: no reported cause lists a culprit), the loop then %s: '
                        'that configuration makes gen_symbols_samples spin forever instead of raising ConfigError' % (
                            res[1], 'goes on to the next round' if 'goes on to the next round' in escapes else ' / '.join(escapes)), where, expected='the last cause raises unconditionally (all pending dependents)')
            escapes = None
        else:
            r.undecided(construct, res[1], where)
            escapes = None
    if escapes is None:
        pass
    else:
        r.check(not escapes, 'gen_symbols_samples: a round without progress always raises',
                'no path from the no-progress branch reaches the loop head, a return or later statements',
                'a path of the no-progress branch %s: circular or undefined dependencies %s' % (
                    ' / '.join(escapes), 'make the loop spin forever' if 'goes on to the next round' in escapes else 'yield a value'),
                where, expected='raise ConfigError on every path')
    raises = [n.ast for n in reach if n.kind == 'stmt' and isinstance(n.ast, ast.Raise)]
    classes = sorted({nf.exc_class_name(x.exc) or 're-raise' for x in raises})
    if not raises:
        if escapes is not None and not escapes:
            raise AnalysisError('no raise statement in the no-progress branch')
    else:
        bad = [c for c in classes if c != 'ConfigError']
        r.check(not bad, 'gen_symbols_samples: the no-progress branch raises ConfigError',
                'raises %s' % classes, 'circular/undefined dependencies are reported with %s instead of ConfigError' % bad,
                lib.loc(fi, raises[0]), expected='ConfigError', found=', '.join(classes))


def _removes_from(stmt, name):
    if isinstance(stmt, ast.Delete):
        return any(isinstance(t, ast.Subscript) and isinstance(t.value, ast.Name) and t.value.id == name for t in stmt.targets)
    for n in ast.walk(stmt) if isinstance(stmt, (ast.Expr, ast.Assign)) else ():
        if isinstance(n, ast.Call) and isinstance(n.func, ast.Attribute) and n.func.attr in ('pop', 'popitem') \
                and isinstance(n.func.value, ast.Name) and n.func.value.id == name:
            return True
    return False




# ----------------------------------------------------------------------------- D2 / D3 anchors
class Anchors(object):
    """Named constructs of gen_symbols_samples found through def-use (never through positions)."""

    def __init__(self, idx):
        fi = X.settled(idx.func(GSS), keyed=False)
        self.fi = fi
        fn = self.fn = fi.node
        if fi.params != ['symbols', 'samples', 'sample_from', 'functions', 'suffixes', 'constants']:
            raise AnalysisError('gen_symbols_samples: signature changed: %s' % fi.params)
        rets = lib.returns_of(fn)
        if len(rets) != 1 or not isinstance(rets[0].value, ast.Name):
            raise AnalysisError('gen_symbols_samples: expected `return <list of samples>`')
        self.ret = rets[0]
        self.LIST = rets[0].value.id
        apps = X.find_stmts(fn, "%s.append(_D)" % self.LIST)
        if len(apps) != 1 or not isinstance(apps[0][1]['_D'], ast.Name):
            raise AnalysisError('gen_symbols_samples: expected one `%s.append(<sample dict>)`' % self.LIST)
        self.append = apps[0][0]
        self.D = apps[0][1]['_D'].id
        self.sample_loop = X.enclosing_loop(self.append)
        if not isinstance(self.sample_loop, ast.For):
            raise AnalysisError('gen_symbols_samples: the sample dict is not appended inside a for loop')
        whiles = [n for n in walk_own(fn) if isinstance(n, ast.While)]
        if len(whiles) != 1 or not isinstance(whiles[0].test, ast.Name):
            raise AnalysisError('gen_symbols_samples: expected one `while <pending dict>` loop')
        self.w = whiles[0]
        self.W = self.w.test.id
        # the "planned" architecture: the fixed point is computed once, on names only, before the sample loop and yields an
        # evaluation order; each sample then evaluates the dependents in that order
        self.planned = False
        self.eval_loop = None
        comp = [c for c in walk_own(fn) if isinstance(c, ast.Call) and nf.callee_name(c) == 'compute_sample']
        if len(comp) == 1 and not X.in_subtree(self.w, self.sample_loop) and not X.in_subtree(comp[0], self.w):
            lp = X.enclosing_loop(lib.enclosing_stmt(comp[0]))
            if isinstance(lp, ast.For) and lp is not self.sample_loop and X.in_subtree(lp, self.sample_loop):
                self.planned = True
                self.eval_loop = lp
        self.stage = self.eval_loop if self.planned else self.w      # where the dependents are resolved, per sample

    def assigns(self, name):
        return [s for s in walk_own(self.fn) if isinstance(s, ast.Assign) and len(s.targets) == 1
                and X.is_name(s.targets[0], name)]

    def subset_polarity(self, name):
        """+1 / -1 if `name` is the list of (non-)DependentSampler symbols, 0 if it is all symbols, None if unknown.
        Recognised: a filtered comprehension over `symbols`, or a list filled by one append inside `for s in symbols`
        that is control dependent on the isinstance(sample_from[s], DependentSampler) test (partition loop)."""
        if name == 'symbols':
            return 0
        ds_ = self.assigns(name)
        if len(ds_) != 1:
            return None
        c_ = _comp_over(ds_[0].value, {'symbols'})
        if c_ is not None:
            if isinstance(c_[0], ast.DictComp) or not X.is_name(c_[0].elt, c_[1]) or len(c_[2]) != 1:
                return None
            return _is_dependent_test(c_[2][0], c_[1]) or None
        v = ds_[0].value
        if not ((isinstance(v, ast.List) and not v.elts) or X.m("list()", v) is not None) or ds_[0] not in self.fn.body:
            return None
        apps = X.find_stmts(self.fn, "%s.append(_S)" % name, own=False)
        touched = [n for n in walk_own(self.fn) if isinstance(n, ast.Attribute) and X.is_name(n.value, name)
                   and n.attr in ('append', 'extend', 'insert', 'remove', 'pop', 'clear', 'sort', 'reverse')]
        stores = [n for n in walk_own(self.fn) if isinstance(n, (ast.Subscript, ast.Name)) and isinstance(n.ctx, (ast.Store, ast.Del))
                  and (X.is_name(n, name) or (isinstance(n, ast.Subscript) and X.is_name(n.value, name)))]
        if len(apps) != 1 or len(touched) != 1 or len(stores) != 1:
            return None
        app, b = apps[0]
        lp = X.enclosing_loop(app)
        if not (isinstance(lp, ast.For) and X.is_name(lp.iter, 'symbols') and isinstance(lp.target, ast.Name) and X.is_name(b['_S'], lp.target.id)
                and lp in self.fn.body and not lp.orelse and not any(isinstance(x, ast.Break) for x in ast.walk(lp))):
            return None
        for t in [x for x in ast.walk(lp) if isinstance(x, ast.If)]:
            pol = _is_dependent_test(t.test, lp.target.id)
            if not pol:
                continue
            if X.controlled_by(self.fi, t, True, app):
                return pol
            if X.controlled_by(self.fi, t, False, app):
                return -pol
        return None


def _comp_over(e, source_names):
    """(comprehension node, key target name, test list) if e is a dict/list/set comprehension with a single generator
    over one of the given names (or its .items()/.keys())."""
    if not isinstance(e, (ast.DictComp, ast.ListComp, ast.SetComp, ast.GeneratorExp)) or len(e.generators) != 1:
        return None
    g = e.generators[0]
    it = g.iter
    if isinstance(it, ast.Call) and isinstance(it.func, ast.Attribute) and it.func.attr in ('items', 'keys') and not it.args:
        src, items = it.func.value, it.func.attr == 'items'
    else:
        src, items = it, False
    if not (isinstance(src, ast.Name) and src.id in source_names):
        return None
    if items:
        if not (isinstance(g.target, ast.Tuple) and len(g.target.elts) == 2 and all(isinstance(t, ast.Name) for t in g.target.elts)):
            return None
        key = g.target.elts[0].id
    else:
        if not isinstance(g.target, ast.Name):
            return None
        key = g.target.id
    return e, key, list(g.ifs), src.id


def _is_dependent_test(test, key):
    """+1 if test is isinstance(sample_from[key], DependentSampler), -1 if its negation, 0 otherwise."""
    t = nf.canon(test)
    if X.m("isinstance(sample_from[%s], DependentSampler)" % key, t) is not None:
        return 1
    if X.m("not isinstance(sample_from[%s], DependentSampler)" % key, t) is not None:
        return -1
    return 0


REGIONS = [(c, k) for c in (True, False) for k in ('dep', 'indep', 'head', 'none')]


def _region_text(w):
    c, k = w
    what = {'dep': 'the name of a dependent variable', 'indep': 'the name of an independent variable',
            'head': 'the head of a numbered variable', 'none': 'not the name of any variable'}[k]
    if c:
        return {'dep': 'a constant that is shadowed by a DEPENDENT variable (same name)', 'indep': 'a constant that is shadowed by an independent variable',
                'head': 'a constant that no variable shadows', 'none': 'a constant that no variable shadows'}[k]
    return 'a name that is no constant and is ' + what


class NameSets(object):
    """Collections of names in gen_symbols_samples as predicates over the Venn regions of a name: (is a key of `constants`,
    none / head of a numbered variable / independent symbol / dependent symbol).  Purely symbolic: decides equality
    and inclusion of the key sets built by set algebra and filtered comprehensions."""
    WRAP = ('set', 'list', 'sorted', 'frozenset', 'tuple', 'dict', 'iter')

    def __init__(self, A):
        self.A = A
        self.top = list(A.fn.body)

    def _index(self, node):
        for i, st in enumerate(self.top):
            if X.in_subtree(node, st):
                return i
        return len(self.top)

    def name(self, n, before):
        if n == 'constants':
            return lambda w: w[0]
        if n == 'symbols':
            return lambda w: w[1] in ('dep', 'indep')
        if n == 'sample_from':
            return lambda w: w[1] != 'none'
        defs = self.A.assigns(n)
        if not defs or any(d not in self.top for d in defs):
            return None
        earlier = [d for d in defs if self.top.index(d) < before]
        if not earlier:
            return None
        d = earlier[-1]
        return self.expr(d.value, self.top.index(d))

    def expr(self, e, before):
        if isinstance(e, ast.Name):
            return self.name(e.id, before)
        if isinstance(e, ast.Call) and isinstance(e.func, ast.Name) and e.func.id in self.WRAP and not e.keywords:
            if not e.args:
                return lambda w: False
            return self.expr(e.args[0], before) if len(e.args) == 1 else None
        if isinstance(e, (ast.List, ast.Set, ast.Tuple)):
            if not e.elts:
                return lambda w: False
            parts = [self.expr(x.value, before) if isinstance(x, ast.Starred) else None for x in e.elts]
            return None if any(p_ is None for p_ in parts) else (lambda w: any(p_(w) for p_ in parts))
        if isinstance(e, ast.Dict) and not e.keys:
            return lambda w: False
        if isinstance(e, ast.Call) and isinstance(e.func, ast.Attribute) and not e.keywords:
            base = self.expr(e.func.value, before)
            if base is None:
                return None
            if e.func.attr in ('copy', 'keys') and not e.args:
                return base
            args = [self.expr(a, before) for a in e.args]
            if any(a is None for a in args) or any(isinstance(a, ast.Starred) for a in e.args):
                return None
            if e.func.attr == 'union':
                return lambda w: base(w) or any(a(w) for a in args)
            if e.func.attr == 'difference':
                return lambda w: base(w) and not any(a(w) for a in args)
            if e.func.attr == 'intersection':
                return lambda w: base(w) and all(a(w) for a in args)
            return None
        if isinstance(e, ast.BinOp) and isinstance(e.op, (ast.BitOr, ast.Add, ast.Sub, ast.BitAnd)):
            l, r_ = self.expr(e.left, before), self.expr(e.right, before)
            if l is None or r_ is None:
                return None
            if isinstance(e.op, (ast.BitOr, ast.Add)):
                return lambda w: l(w) or r_(w)
            if isinstance(e.op, ast.Sub):
                return lambda w: l(w) and not r_(w)
            return lambda w: l(w) and r_(w)
        if isinstance(e, (ast.DictComp, ast.ListComp, ast.SetComp, ast.GeneratorExp)) and len(e.generators) == 1:
            g = e.generators[0]
            it = g.iter
            items = False
            if isinstance(it, ast.Call) and isinstance(it.func, ast.Attribute) and it.func.attr in ('items', 'keys') and not it.args:
                items, it = it.func.attr == 'items', it.func.value
            if items:
                if not (isinstance(g.target, ast.Tuple) and len(g.target.elts) == 2 and isinstance(g.target.elts[0], ast.Name)):
                    return None
                key = g.target.elts[0].id
            elif isinstance(g.target, ast.Name):
                key = g.target.id
            else:
                return None
            elt = e.key if isinstance(e, ast.DictComp) else e.elt
            base = self.expr(it, before)
            if base is None or not X.is_name(elt, key):
                return None

            def atom(t, key=key):
                pol = _is_dependent_test(t, key)
                if pol:
                    return (lambda w: w[1] == 'dep') if pol > 0 else (lambda w: w[1] != 'dep')
                for neg, ptn in ((False, "%s in _C" % key), (True, "%s not in _C" % key)):
                    b = X.m(ptn, t)
                    if b is not None:
                        inner = self.expr(b['_C'], before)
                        if inner is None:
                            return None
                        return (lambda w: not inner(w)) if neg else inner
                return None
            guards = X.Guards(atom)
            try:
                tests = [guards.compile(nf.canon(t)) for t in g.ifs]
            except X.Unrecognised:
                return None
            return lambda w: base(w) and all(t(w) for t in tests)
        return None


class Plan(object):
    """The constructs of the planned architecture (see Anchors.planned).  Everything is found through def-use; a part that
    is not recognised raises AnalysisError (undecided), never a verdict."""

    def __init__(self, A):
        self.A = A
        fi, fn, w = A.fi, A.fn, A.w
        self.U = A.W
        if w not in fn.body:
            raise AnalysisError('gen_symbols_samples: the ordering loop is not a top-level statement')
        self.windex = fn.body.index(w)
        # the ready list of a round: R = [S for S, deps in U.items() if <readiness>]
        self.R = self.ready = self.ready_test = self.AV = None
        for st in w.body:
            if isinstance(st, ast.Assign) and len(st.targets) == 1 and isinstance(st.targets[0], ast.Name):
                c = _comp_over(st.value, {self.U})
                if c is not None and not isinstance(c[0], ast.DictComp) and X.is_name(c[0].elt, c[1]) and len(c[2]) == 1 \
                        and isinstance(c[0].generators[0].target, ast.Tuple):
                    deps = c[0].generators[0].target.elts[1].id
                    t = nf.canon(c[2][0])
                    b = X.any_match(["is_subset(%s, _AV)" % deps, "all(_X in _AV for _X in %s)" % deps, "all([_X in _AV for _X in %s])" % deps,
                                     "set(%s) <= _AV" % deps, "set(%s).issubset(_AV)" % deps], t)
                    self.R, self.ready, self.ready_test = st.targets[0].id, st, t
                    self.deps = deps
                    if b is not None and isinstance(b['_AV'], ast.Name):
                        self.AV = b['_AV'].id
        if self.R is None:
            raise AnalysisError('gen_symbols_samples: the ready dependents of a round are not computed by a recognised comprehension '
                                'over the pending dict')
        # the end-of-round test on R
        self.tstmt = self.noprog_edge = None
        for st in w.body:
            if isinstance(st, ast.If):
                t = nf.canon(st.test)
                if X.any_match(["not %s" % self.R, "len(%s) == 0" % self.R, "%s == []" % self.R], t) is not None:
                    self.tstmt, self.noprog_edge = st, 'true'
                elif X.any_match(["%s" % self.R, "len(%s) > 0" % self.R, "len(%s)" % self.R, "%s != []" % self.R], t) is not None:
                    self.tstmt, self.noprog_edge = st, 'false'
        # the order list
        it = A.eval_loop.iter
        hops = 0
        while isinstance(it, ast.Name) and hops < 4:
            ds_ = A.assigns(it.id)
            if len(ds_) == 1 and isinstance(ds_[0].value, ast.Name):
                it, hops = ds_[0].value, hops + 1
            else:
                break
        self.ORDER = it.id if isinstance(it, ast.Name) else None

    def in_round(self, patterns):
        out = []
        for ptn in patterns:
            out += [st for st, _ in X.find_stmts(self.A.w, ptn, own=False)]
        return out

    def each_ready(self, patterns_bulk, patterns_each):
        """Statements of the round that apply something to every element of R: in bulk, or in `for s in R`."""
        found = self.in_round([p_ % {'R': self.R} for p_ in patterns_bulk])
        for lp in [n for n in ast.walk(self.A.w) if isinstance(n, ast.For) and X.is_name(n.iter, self.R) and isinstance(n.target, ast.Name)]:
            for p_ in patterns_each:
                found += [st for st, _ in X.find_stmts(lp, p_ % {'s': lp.target.id}, own=False)
                          if X.enclosing_loop(st) is lp and not [a for a in _ancestors_in(st, lp) if isinstance(a, (ast.If, ast.Try))]]
        return found


def _d1_plan(r, A):
    P = Plan(A)
    fi, w = A.fi, A.w
    cfg = cfg_of(fi.node)
    wt = [n for n in cfg.nodes_of(w) if n.kind == 'test'][0]
    r.check(P.ready in w.body and P.AV is not None, 'gen_symbols_samples: every round determines the ready dependents afresh',
            short(P.ready, 100), 'the readiness test `%s` does not compare the depends with a set of available names' % short(P.ready_test),
            lib.loc(fi, P.ready)) if P.AV is not None else r.undecided(
        'gen_symbols_samples: every round determines the ready dependents afresh', 'readiness test not recognised: %s' % short(P.ready_test),
        lib.loc(fi, P.ready))
    if P.tstmt is None:
        raise AnalysisError('gen_symbols_samples: no end-of-round test of the ready list `%s`' % P.R)
    if not X.dominates(fi, P.ready, P.tstmt):
        raise AnalysisError('the ready list is not computed before it is tested')
    removed = P.each_ready(["for _S in %(R)s:\n    del {U}[_S]".replace('{U}', P.U)], ["del %s[%%(s)s]" % P.U, "%s.pop(%%(s)s)" % P.U])
    removed = removed or [lp for lp in ast.walk(w) if isinstance(lp, ast.For) and X.is_name(lp.iter, P.R) and any(_removes_from(x, P.U) for x in lp.body)]
    construct = 'gen_symbols_samples: every ready dependent leaves the pending dict in its round'
    if removed:
        r.ok(construct, short(removed[0], 60), lib.loc(fi, removed[0]))
    else:
        X.absent(r, construct, 'nothing is removed from %s for the ready dependents: the loop never ends' % P.U, lib.loc(fi, w),
                 understood=X.only_calls([w], {'is_subset', 'items', 'update', 'extend', 'sorted', 'join', 'keys', 'values', 'union', 'set', 'ConfigError'}))
    avail = P.each_ready(["%s.update(%%(R)s)" % P.AV, "%s |= set(%%(R)s)" % P.AV, "%s = %s | set(%%(R)s)" % (P.AV, P.AV),
                          "%s = %s.union(%%(R)s)" % (P.AV, P.AV)], ["%s.add(%%(s)s)" % P.AV]) if P.AV else []
    construct = 'gen_symbols_samples: dependents scheduled in a round are available in the next'
    if avail:
        r.check(X.dominates(fi, P.ready, avail[0]), construct, short(avail[0]),
                'the ready names are added to `%s` before the ready list of the round is computed' % P.AV, lib.loc(fi, avail[0]))
    elif P.AV:
        X.absent(r, construct, 'the scheduled names never become available: a dependent that depends on another dependent is never ready '
                 'and a valid chain is reported as circular', lib.loc(fi, w),
                 understood=all(x is P.ready or X.in_subtree(x, P.tstmt) for x in ast.walk(w) if isinstance(x, ast.stmt) and x is not w
                                and not isinstance(x, (ast.If, ast.For)) and X.mentions(x, P.AV)))
    construct = 'gen_symbols_samples: the evaluation order lists every scheduled dependent, round after round'
    if P.ORDER is None:
        r.undecided(construct, 'the evaluation loop does not run over a list built by the ordering loop: %s' % short(A.eval_loop.iter), lib.loc(fi, A.eval_loop))
    else:
        ext = P.each_ready(["%s.extend(%%(R)s)" % P.ORDER, "%s += %%(R)s" % P.ORDER, "%s = %s + %%(R)s" % (P.ORDER, P.ORDER)],
                           ["%s.append(%%(s)s)" % P.ORDER])
        oinit = A.assigns(P.ORDER)
        init_ok = len([d for d in oinit if not X.in_subtree(d, w)]) == 1 and isinstance(oinit[0].value, ast.List) and not oinit[0].value.elts \
            and X.dominates(fi, oinit[0], w)
        if ext and init_ok:
            r.ok(construct, short(ext[0]), lib.loc(fi, ext[0]))
        elif not ext:
            X.absent(r, construct, 'the ready dependents are not appended to `%s`: they are never evaluated and are missing from every sample' % P.ORDER,
                     lib.loc(fi, w), understood=not [x for x in ast.walk(w) if isinstance(x, ast.stmt) and x is not w and X.mentions(x, P.ORDER)])
        else:
            r.undecided(construct, 'initialisation of `%s` not recognised' % P.ORDER, lib.loc(fi, w))
    _no_progress_raises(r, fi, cfg, w, wt, P.tstmt, P.noprog_edge, lib.loc(fi, P.tstmt))


def _d3_plan(r, A, st, S):
    """Readiness in the planned architecture: the order is computed against a SET OF NAMES; it is sound exactly when that
    set equals the keys every sample holds before its dependents are evaluated."""
    P = Plan(A)
    fi = A.fi
    construct = 'gen_symbols_samples: a dependent is computed only when all its depends are in the sample'
    lp = A.eval_loop
    if not (isinstance(lp.target, ast.Name) and nf.equal(lp.target, S) and P.ORDER is not None):
        r.undecided(construct, 'evaluation loop not recognised: %s' % short(lp, 80), lib.loc(fi, lp))
        return
    if P.AV is None:
        r.undecided(construct, 'readiness test of the ordering loop not recognised: %s' % short(P.ready_test), lib.loc(fi, P.ready))
        return
    sets = NameSets(A)
    av = sets.name(P.AV, P.windex)
    # the keys of a fresh sample before the evaluation loop
    dinit = A.assigns(A.D)
    d0 = None
    touching = [x for x in A.sample_loop.body if X.mentions(x, A.D)]
    if len(dinit) == 1 and dinit[0] in A.sample_loop.body:
        end = len(A.fn.body)
        parts = [sets.expr(dinit[0].value, end)]
        rest = [x for x in touching if x is not dinit[0] and x is not lp and x is not A.append]
        for x in rest:
            b = X.m(X.spat("%s.update(_E)" % A.D), x)
            if b is not None:
                parts.append(sets.expr(b['_E'], end))
            elif isinstance(x, ast.For) and isinstance(x.target, ast.Name) and len(x.body) == 1 and X.m(
                    X.spat("%s[%s] = _V" % (A.D, x.target.id)), x.body[0]) is not None:
                parts.append(sets.expr(x.iter, end))
            else:
                parts.append(None)
        if all(p_ is not None for p_ in parts) and X.dominates(fi, dinit[0], lp):
            d0 = lambda w: any(p_(w) for p_ in parts)
    if av is None or d0 is None:
        r.undecided(construct, 'the set of names available to the ordering loop (`%s`) or the initial keys of the sample dict are not '
                    'recognised as set expressions over constants / symbols' % P.AV, lib.loc(fi, P.ready))
        return
    over = [w for w in REGIONS if av(w) and not d0(w)]
    under = [w for w in REGIONS if d0(w) and not av(w)]
    avdef = [d for d in A.assigns(P.AV) if d in A.fn.body and A.fn.body.index(d) < P.windex]
    where = lib.loc(fi, avdef[0] if avdef else P.ready)
    shown = short(lib.inline_locals(ast.Name(id=P.AV, ctx=ast.Load()), A.fn), 90) if False else short(avdef[0].value if avdef else P.ready_test, 90)
    if over:
        r.violation(construct, 'the evaluation order is planned with `%s` = `%s` as the names that have a value before any dependent is evaluated, '
                    'but %s is counted there although no sample holds it at that point (each sample starts from `%s` plus the independent '
                    'draws): a dependent that uses that name is scheduled in the same round as (possibly before) the variable itself and its '
                    'formula is evaluated while the name is still missing' % (P.AV, shown, _region_text(over[0]), short(dinit[0].value)),
                    where, expected='the keys the sample dict starts with: pruned constants and independent symbols')
    elif under:
        r.violation(construct, 'the evaluation order is planned with `%s` = `%s`, which leaves out %s although every sample holds it from the start: '
                    'dependents that use it are reported as undefined / circular' % (P.AV, shown, _region_text(under[0])), where,
                    expected='the keys the sample dict starts with: pruned constants and independent symbols')
    else:
        r.ok(construct, 'planned against `%s`, equal on every Venn region to the initial keys of the sample dict; evaluated in that order'
             % shown, where)


def _pairs_generator(idx, fi, e):
    """For `dict(helper(symbols, sample_from))`: True if the helper is a generator that walks its first argument and yields
    (symbol, <second argument>[symbol].config['depends']) exactly for the DependentSampler entries; False if it is a helper
    that is not read that way; None if e is not such a call."""
    if not (isinstance(e, ast.Call) and isinstance(e.func, ast.Name) and e.func.id == 'dict' and len(e.args) == 1 and not e.keywords
            and isinstance(e.args[0], ast.Call)):
        return None
    call = e.args[0]
    try:
        targets, how = idx.resolve_call(getattr(fi, 'original', fi), call)
    except Exception:
        return None
    fts = [t for t in targets if hasattr(t, 'node')]
    if len(fts) != 1:
        return None
    h = fts[0]
    try:
        bound = X.bind_call(call, list(h.params))
    except AnalysisError:
        return False
    if len(h.params) != 2 or not X.is_name(bound.get(h.params[0]), 'symbols') or not X.is_name(bound.get(h.params[1]), 'sample_from'):
        return False
    P0, P1 = h.params
    body = _body(h.node.body)
    yields = [n for n in ast.walk(h.node) if isinstance(n, (ast.Yield, ast.YieldFrom))]
    if len(body) != 1 or not isinstance(body[0], ast.For) or not X.is_name(body[0].iter, P0) or not isinstance(body[0].target, ast.Name) \
            or len(yields) != 1 or not isinstance(yields[0], ast.Yield) or body[0].orelse \
            or any(isinstance(x, (ast.Break, ast.Return)) for x in ast.walk(body[0])):
        return False
    S = body[0].target.id
    val = lib.inline_locals(yields[0].value, h.node) if yields[0].value is not None else None
    if not (isinstance(val, ast.Tuple) and len(val.elts) == 2 and X.is_name(val.elts[0], S)
            and X.m("%s[%s].config['depends']" % (P1, S), val.elts[1]) is not None):
        return False
    ystmt = lib.enclosing_stmt(yields[0])
    for t in [x for x in ast.walk(body[0]) if isinstance(x, ast.If)]:
        test = nf.canon(lib.inline_locals(t.test, h.node))
        pos = X.m("isinstance(%s[%s], DependentSampler)" % (P1, S), test) is not None
        neg = X.m("not isinstance(%s[%s], DependentSampler)" % (P1, S), test) is not None
        if (pos and X.controlled_by(h, t, True, ystmt)) or (neg and X.controlled_by(h, t, False, ystmt)):
            left = getattr(idx, 'unreviewed', None)
            if left and h.qualname in left:
                left.remove(h.qualname)
            return True
    return False


def d2_keys(ctx, idx):
    r = ctx.rule('D2.KEYS', 'every sample dict = copy of the unshadowed constants + a draw for every independent symbol + every '
                 'dependent (loop exit), made afresh inside the per-sample loop', floor=8)
    with r:
        A = Anchors(idx)
        fi, fn = A.fi, A.fn
        # K6 the sample loop and the collection
        verdict(r, 'gen_symbols_samples: one sample per requested sample', nf.classify("range(samples)", A.sample_loop.iter),
                lib.loc(fi, A.sample_loop), 'for _ in range(samples)', expected='range(samples)',
                why='the graders index the returned list with range(config[samples])')
        r.check(X.in_subtree(A.stage, A.sample_loop) and X.dominates(fi, A.stage, A.append) and not X.in_subtree(A.append, A.stage),
                'gen_symbols_samples: the sample is collected after the dependency loop has ended',
                '`while %s` precedes %s.append(%s)' % (A.W, A.LIST, A.D),
                'the sample dict is appended before/inside the dependency loop: dependents may be missing from it', lib.loc(fi, A.append))
        linit = A.assigns(A.LIST)
        r.check(len(linit) == 1 and isinstance(linit[0].value, ast.List) and not linit[0].value.elts
                and not X.in_subtree(linit[0], A.sample_loop), 'gen_symbols_samples: the result list starts empty, once',
                '%s = []' % A.LIST, 'the list of samples is (re)initialised as `%s`%s' % (
                    short(linit[0].value) if linit else '?', ' inside the loop' if linit and X.in_subtree(linit[0], A.sample_loop) else ''),
                lib.loc(fi, linit[0]) if linit else fi.loc)
        # K2 the per-sample dict
        dinit = A.assigns(A.D)
        if len(dinit) != 1:
            raise AnalysisError('gen_symbols_samples: expected one initialisation of the sample dict, found %d' % len(dinit))
        init = dinit[0]
        construct = 'gen_symbols_samples: each sample starts as a fresh copy of the pruned constants'
        src = X.copy_source(init.value)
        P = None
        if not X.in_subtree(init, A.sample_loop):
            r.violation(construct, 'the sample dict is created once, outside the per-sample loop: every entry of the returned list is the '
                        'same dict (all samples identical)', lib.loc(fi, init))
        elif isinstance(src, ast.Name):
            P = src.id
            if P == 'constants':
                r.violation(construct, 'the sample starts from all constants, including those shadowed by a variable: a dependent that '
                            'uses a name declared as variable can be computed from the constant of the same name', lib.loc(fi, init),
                            expected='{constants not in symbols}.copy()')
                P = None
            else:
                r.ok(construct, short(init.value), lib.loc(fi, init))
        elif isinstance(init.value, ast.Name):
            r.violation(construct, '`%s = %s` aliases one dict for all samples (no copy): every sample overwrites the previous one and '
                        'the shared constants dict is modified' % (A.D, init.value.id), lib.loc(fi, init), expected='%s.copy()' % init.value.id)
        elif (isinstance(init.value, ast.Dict) and not init.value.keys) or X.m("dict()", init.value) is not None:
            r.violation(construct, 'the sample starts empty: constants (pi, e, i, user constants) are missing from the samples and from '
                        'the scope of dependent formulas', lib.loc(fi, init), expected='pruned_constants.copy()')
        else:
            r.undecided(construct, 'initial value not recognised: %s' % short(init.value), lib.loc(fi, init))
        # K1 pruning
        construct = 'gen_symbols_samples: constants shadowed by a symbol are pruned'
        if P is not None:
            pdefs = A.assigns(P)
            if len(pdefs) != 1:
                raise AnalysisError('definition of %s not unique' % P)
            pv = pdefs[0].value
            c = _comp_over(pv, {'constants'})
            if c is None:
                s2 = X.copy_source(pv)
                if X.is_name(pv, 'constants') or X.is_name(s2, 'constants'):
                    r.violation(construct, '`%s` is all of `constants`: a constant with the name of a declared variable stays in the sample '
                                'until (unless) the variable is computed, so dependents can be evaluated with the constant' % short(pv),
                                lib.loc(fi, pdefs[0]), expected='{c: constants[c] for c in constants if c not in symbols}')
                else:
                    r.undecided(construct, 'definition not recognised: %s' % short(pv), lib.loc(fi, pdefs[0]))
            else:
                comp, key, ifs, _ = c
                valok = isinstance(comp, ast.DictComp) and X.is_name(comp.key, key) and (
                    X.m("constants[%s]" % key, comp.value) is not None or
                    (isinstance(comp.generators[0].target, ast.Tuple) and X.is_name(comp.value, comp.generators[0].target.elts[1].id)))

                def atom(e, key=key):
                    for name, fld in (('symbols', 'sym'), ('sample_from', 'sf')):
                        if X.m("%s in %s" % (key, name), e) is not None:
                            return lambda w, fld=fld: w[fld]
                        if X.m("%s not in %s" % (key, name), e) is not None:
                            return lambda w, fld=fld: not w[fld]
                    return None
                guards = X.Guards(atom)
                try:
                    tests = [guards.compile(nf.canon(t)) for t in ifs]
                except X.Unrecognised:
                    tests = None
                if not valok or tests is None:
                    r.undecided(construct, 'filter not recognised: %s' % short(pv), lib.loc(fi, pdefs[0]))
                else:
                    # Venn regions of a constant's name: every symbol has a sampler (symbols is a subset of sample_from's keys),
                    # sample_from additionally holds the heads of numbered variables, which are never sampled themselves
                    regions = [({'sym': True, 'sf': True}, 'also a declared symbol'),
                               ({'sym': False, 'sf': True}, 'the head of a numbered variable (a key of sample_from that is not a symbol)'),
                               ({'sym': False, 'sf': False}, 'not the name of any variable')]
                    bad = [(w, text) for w, text in regions if all(t(w) for t in tests) != (not w['sym'])]
                    if not bad:
                        r.ok(construct, short(pv, 90), lib.loc(fi, pdefs[0]))
                    else:
                        w, text = bad[0]
                        kept = all(t(w) for t in tests)
                        r.violation(construct, 'a constant whose name is %s is %s by `%s`, the property needs it %s: %s' % (
                            text, 'kept' if kept else 'dropped', short(pv, 80), 'dropped' if kept else 'kept',
                            'the constant stays in the sample next to / instead of the variable of the same name' if kept else
                            'no variable shadows it, yet it is missing from every sample and from the scope of dependent formulas'),
                            lib.loc(fi, pdefs[0]), expected='{c: constants[c] for c in constants if c not in symbols}')
        # K4 partition of the symbols
        wdefs = A.assigns(A.W)
        construct_w = 'gen_symbols_samples: the pending dict holds exactly the DependentSampler symbols with their depends'
        if len(wdefs) != 1:
            raise AnalysisError('definition of the pending dict not unique')
        subset_polarity = A.subset_polarity
        wsite = wdefs[0]
        src_ = X.copy_source(wdefs[0].value)
        if isinstance(src_, ast.Name) and len(A.assigns(src_.id)) == 1 and (A.planned or (
                not X.in_subtree(A.assigns(src_.id)[0], A.sample_loop) and X.dominates(fi, A.assigns(src_.id)[0], A.sample_loop)
                and not [x for x in ast.walk(A.sample_loop) if isinstance(x, (ast.Subscript, ast.Attribute)) and X.is_name(x.value, src_.id)
                         and (isinstance(getattr(x, 'ctx', None), (ast.Store, ast.Del)) or getattr(x, 'attr', '') in (
                             'pop', 'popitem', 'clear', 'update', 'setdefault'))])):
            # the dict is built once and every sample (or the ordering loop) consumes a fresh copy of it
            wdefs = A.assigns(src_.id)
        cands = {'symbols'} | {n for n in (x.id for x in ast.walk(wdefs[0].value) if isinstance(x, ast.Name)) if subset_polarity(n) in (1, -1)}
        cw = _comp_over(wdefs[0].value, cands)
        gen_ok = _pairs_generator(idx, fi, wdefs[0].value)
        if gen_ok is not None:
            if gen_ok and X.in_subtree(wsite, A.sample_loop):
                r.ok(construct_w, short(wdefs[0].value, 90), lib.loc(fi, wdefs[0]))
            else:
                r.undecided(construct_w, 'generator of (symbol, depends) pairs not recognised: %s' % short(wdefs[0].value), lib.loc(fi, wdefs[0]))
        elif cw is None or not isinstance(cw[0], ast.DictComp):
            r.undecided(construct_w, 'definition not recognised: %s' % short(wdefs[0].value), lib.loc(fi, wdefs[0]))
        else:
            comp, key, ifs, srcname = cw
            base = subset_polarity(srcname)
            pol = [_is_dependent_test(t, key) for t in ifs]
            valok = X.is_name(comp.key, key) and X.m("sample_from[%s].config['depends']" % key, comp.value) is not None
            eff = None            # effective selection: +1 dependents, -1 independents, 0 everything
            if base == 0 and len(ifs) == 1 and pol[0] in (1, -1):
                eff = pol[0]
            elif base == 0 and not ifs:
                eff = 0
            elif base in (1, -1) and not ifs:
                eff = base
            if eff == 1 and valok and (X.in_subtree(wsite, A.sample_loop) or (A.planned and X.dominates(fi, wdefs[0], A.w))):
                r.ok(construct_w, short(wdefs[0].value, 90), lib.loc(fi, wdefs[0]))
            elif eff == -1:
                r.violation(construct_w, 'the selection is negated: the independent symbols are treated as pending dependents', lib.loc(fi, wdefs[0]))
            elif eff == 0:
                r.violation(construct_w, 'no filter: every symbol is treated as a dependent', lib.loc(fi, wdefs[0]))
            elif eff == 1 and valok and not X.in_subtree(wsite, A.sample_loop) and not A.planned:
                r.violation(construct_w, 'the pending dict is built once outside the sample loop: after the first sample it is empty and '
                            'later samples contain no dependents', lib.loc(fi, wdefs[0]))
            else:
                r.undecided(construct_w, 'not recognised: %s' % short(wdefs[0].value), lib.loc(fi, wdefs[0]))
        # K3 independent draws
        construct = 'gen_symbols_samples: every non-dependent symbol gets a fresh draw in every sample'
        gens = [c for c in walk_own(fn) if isinstance(c, ast.Call) and nf.callee_name(c) == 'gen_sample']
        if len(gens) != 1:
            raise AnalysisError('gen_symbols_samples: expected one gen_sample() call, found %d' % len(gens))
        g = gens[0]
        comp = parent(g)
        while comp is not None and not isinstance(comp, (ast.DictComp, ast.stmt)):
            comp = parent(comp)
        I = None
        if isinstance(comp, ast.DictComp) and len(comp.generators) == 1 and isinstance(comp.generators[0].target, ast.Name) \
                and isinstance(comp.generators[0].iter, ast.Name) and not comp.generators[0].ifs:
            key = comp.generators[0].target.id
            I = comp.generators[0].iter.id
            shape_ok = X.is_name(comp.key, key) and X.m("sample_from[%s].gen_sample()" % key, comp.value) is not None
        else:
            shape_ok = False
        st = lib.enclosing_stmt(g)
        loop_form = False
        lp = X.enclosing_loop(st)
        if not shape_ok and isinstance(lp, ast.For) and lp is not A.sample_loop and isinstance(lp.target, ast.Name) \
                and isinstance(lp.iter, ast.Name) and X.m(X.spat("%s[%s] = sample_from[%s].gen_sample()" % (A.D, lp.target.id, lp.target.id)), st) is not None:
            shape_ok = loop_form = True
            I = lp.iter.id
            st = lp
        if not shape_ok:
            r.undecided(construct, 'draw not recognised: %s' % short(st), lib.loc(fi, st))
        elif not X.in_subtree(st, A.sample_loop):
            r.violation(construct, 'gen_sample() is called outside the per-sample loop: all samples share one draw per variable '
                        '(a wrong answer that happens to agree at that point is accepted)', lib.loc(fi, st))
        else:
            into = loop_form or (X.m(X.spat("%s.update(_X)" % A.D), st) is not None and X.in_subtree(g, st))
            if not into:
                # the dict of draws may be bound to a name first
                if isinstance(st, ast.Assign) and len(st.targets) == 1 and isinstance(st.targets[0], ast.Name):
                    into = bool(X.find_stmts(A.sample_loop, "%s.update(%s)" % (A.D, st.targets[0].id), own=False))
            r.check(into and X.dominates(fi, st, A.stage), construct, 'drawn into the sample dict before the dependency loop',
                    'the draws are not merged into the sample dict before the dependents are resolved', lib.loc(fi, st))
        construct_i = 'gen_symbols_samples: the independent symbols are exactly the non-DependentSampler symbols'
        if I is not None:
            idefs = A.assigns(I)
            where_i = lib.loc(fi, idefs[0]) if idefs else fi.loc
            pol_i = A.subset_polarity(I)
            if pol_i == -1:
                r.ok(construct_i, short(idefs[0].value, 90) if idefs else I, where_i)
            elif pol_i == 1:
                r.violation(construct_i, 'the `not` is missing: gen_sample() is called on the DependentSamplers (which always raises) and the '
                            'independent symbols are never drawn', where_i, expected='if not isinstance(sample_from[symbol], DependentSampler)')
            elif pol_i == 0 or (len(idefs) == 1 and _comp_over(idefs[0].value, {'symbols'}) is not None
                                and not isinstance(_comp_over(idefs[0].value, {'symbols'})[0], ast.DictComp)
                                and not _comp_over(idefs[0].value, {'symbols'})[2]):
                r.violation(construct_i, 'no filter: gen_sample() is also called on DependentSamplers, which always raises', where_i)
            else:
                r.undecided(construct_i, 'definition of `%s` not recognised' % I, where_i)


def d3_roles(ctx, idx):
    r = ctx.rule('D3.ROLE', 'a dependent is computed from the dict it is stored into, with functions/suffixes in their roles, only '
                 'when is_subset(<its depends>, that dict); is_subset is the universal membership test', floor=3)
    with r:
        A = Anchors(idx)
        fi, fn = A.fi, A.fn
        calls = [c for c in walk_own(fn) if isinstance(c, ast.Call) and nf.callee_name(c) == 'compute_sample']
        if len(calls) != 1:
            raise AnalysisError('gen_symbols_samples: expected one compute_sample call')
        c = calls[0]
        st = lib.enclosing_stmt(c)
        b = X.m(X.spat("%s[_S] = sample_from[_S].compute_sample(_A0, _A1, _A2)" % A.D), st)
        construct = 'gen_symbols_samples: dependent value = its own sampler evaluated on this very sample'
        if b is None:
            b2 = X.m(X.spat("_T[_S] = _R[_S2].compute_sample(_A0, _A1, _A2)"), st)
            if b2 is not None and not (X.is_name(b2['_T'], A.D)):
                r.violation(construct, 'the computed value is stored into `%s`, not into the sample dict' % short(b2['_T']), lib.loc(fi, st))
            elif b2 is not None and not nf.equal(b2['_S'], b2['_S2']):
                r.violation(construct, "the value stored under `%s` is computed by the sampler of `%s`" % (short(b2['_S']), short(b2['_S2'])), lib.loc(fi, st))
            else:
                r.undecided(construct, 'statement not recognised: %s' % short(st), lib.loc(fi, st))
            return
        probs = []
        if not X.is_name(b['_A0'], A.D):
            probs.append('it is evaluated on `%s` instead of the sample dict `%s` it is stored into: values of the other variables of '
                         'the same sample are not what the formula sees' % (short(b['_A0']), A.D))
        roles = {'_A1': 'functions', '_A2': 'suffixes'}
        for k, want in roles.items():
            if not X.is_name(b[k], want):
                if isinstance(b[k], ast.Name) and b[k].id in ('functions', 'suffixes', 'constants', 'sample_from', 'symbols'):
                    probs.append('`%s` is passed where `%s` belongs' % (b[k].id, want))
                else:
                    raise AnalysisError('compute_sample argument not recognised: %s' % short(b[k]))
        r.check(not probs, construct, short(st, 100), '; '.join(probs), lib.loc(fi, st),
                expected='sample_dict[symbol] = sample_from[symbol].compute_sample(sample_dict, functions, suffixes)')
        S = b['_S']
        if A.planned:
            _sub(r, _d3_plan, r, A, st, S)
            _d3_is_subset(r, idx)
            return
        # the loop providing (symbol, dependencies) from the pending dict
        loop = X.enclosing_loop(st)
        deps = None
        if isinstance(loop, ast.For) and isinstance(loop.target, ast.Tuple) and len(loop.target.elts) == 2 \
                and X.mentions(loop.iter, A.W) and 'items' in unparse(loop.iter) and nf.equal(loop.target.elts[0], S) \
                and isinstance(loop.target.elts[1], ast.Name):
            deps = loop.target.elts[1].id
        elif isinstance(loop, ast.For) and isinstance(loop.target, ast.Name) and nf.equal(loop.target, S) and X.any_match(
                [p_ % A.W for p_ in ("list(%s)", "%s", "list(%s.keys())", "%s.keys()", "sorted(%s)", "tuple(%s)", "sorted(%s.keys())")], loop.iter) is not None:
            # a loop over (a snapshot of) the pending symbols: the depends are read as W[symbol]
            deps = "%s[%s]" % (A.W, loop.target.id)
        construct = 'gen_symbols_samples: a dependent is computed only when all its depends are in the sample'
        def readiness(t):
            """(+1/-1, test expr) if the canonical If test is (the negation of) a readiness test."""
            c = nf.canon(t)
            neg = isinstance(c, ast.UnaryOp) and isinstance(c.op, ast.Not)
            core = c.operand if neg else c
            if isinstance(core, ast.Call) and (nf.callee_name(core) == 'is_subset' or (
                    nf.callee_name(core) == 'all' and len(core.args) == 1 and isinstance(core.args[0], (ast.GeneratorExp, ast.ListComp)))):
                return (-1 if neg else 1), core
            return None
        tests = [(t, readiness(t.test)) for t in (ast.walk(loop) if loop is not None else []) if isinstance(t, ast.If) and readiness(t.test)]
        guard = None
        for t, (pol, core) in tests:
            if X.controlled_by(fi, t, pol > 0, st):
                guard = (t, core)
        if guard is None and tests:
            r.violation(construct, 'the compute_sample call can run on the branch where `%s` is false: dependents are evaluated before the '
                        'values they depend on exist' % short(tests[0][1][1]), lib.loc(fi, st), expected='if is_subset(dependencies, sample_dict):')
        elif guard is None:
            X.absent(r, construct, 'the compute_sample call is not controlled by an is_subset(...) test: dependents are evaluated in declaration '
                     'order, before the values they depend on exist', lib.loc(fi, st), expected='if is_subset(dependencies, sample_dict):',
                     understood=loop is not None and X.only_calls([loop], {'compute_sample', 'list', 'items', 'pop'}))
        elif deps is None:
            r.undecided(construct, 'loop over the pending dict not recognised', lib.loc(fi, guard[0]))
        else:
            core = guard[1]
            pats = ["is_subset(%s, %s)" % (deps, A.D), "all(_X in %s for _X in %s)" % (A.D, deps), "all([_X in %s for _X in %s])" % (A.D, deps)]
            if X.any_match(pats, core) is not None:
                r.ok(construct, short(core), lib.loc(fi, guard[0]))
            else:
                verdict(r, construct, nf.classify(pats[0], core), lib.loc(fi, guard[0]), short(core), expected='is_subset(dependencies, sample_dict)',
                        why='the test must ask whether the depends are contained in the sample, not the reverse')
        _d3_is_subset(r, idx)


def _d3_is_subset(r, idx):
    sub = idx.func('mitxgraders.sampling.is_subset')
    construct = 'is_subset: true exactly when every item is in the superset'
    a, bname = sub.params[0], sub.params[1]
    body = _body(sub.node.body)
    done = False
    if len(body) == 1 and isinstance(body[0], ast.Return):
        for ptn in ("all(_X in %s for _X in %s)" % (bname, a), "all([_X in %s for _X in %s])" % (bname, a), "set(%s) <= set(%s)" % (a, bname),
                    "set(%s).issubset(%s)" % (a, bname)):
            if X.m(ptn, body[0].value) is not None:
                r.ok(construct, short(body[0].value), sub.loc)
                done = True
                break
    else:
        done = _subset_loop(r, sub, construct, a, bname)
    if not done:
        r.undecided(construct, 'body not recognised', sub.loc)


def _subset_loop(r, sub, construct, a, bname):
    """The search-loop family: one `for item in iterable` whose only in-loop exit is `return False` on a missing item;
    `True` is returned only after the loop has run to exhaustion. Decided on the CFG, not on the statement layout."""
    fn = sub.node
    loops = [l for l in walk_own(fn) if isinstance(l, (ast.For, ast.While))]
    rets = lib.returns_of(fn)
    if len(loops) != 1 or not isinstance(loops[0], ast.For) or not X.is_name(loops[0].iter, a) or not isinstance(loops[0].target, ast.Name) \
            or not rets or not all(isinstance(x.value, ast.Constant) and isinstance(x.value.value, bool) for x in rets):
        return False
    loop = loops[0]
    item = loop.target.id
    cfg = cfg_of(fn)
    # no path may fall off the end (None is falsy but not the documented answer)
    if any(not (p.kind == 'stmt' and isinstance(p.ast, ast.Return)) for p, lab in cfg.exit_return.preds):
        return False
    inside = [x for x in rets if X.in_subtree(x, loop)]
    outside = [x for x in rets if not X.in_subtree(x, loop)]
    true_inside = [x for x in inside if x.value.value is True]
    false_inside = [x for x in inside if x.value.value is False]
    if true_inside:
        r.violation(construct, '`return True` is reachable from inside the loop body: the function answers after looking at the first '
                    'dependenc%s only, so a dependent is computed while later dependencies are still missing' % (
                        'y that is present' if any(isinstance(p_, ast.If) for p_ in _ancestors_in(true_inside[0], loop)) else 'y'),
                    lib.loc(sub, true_inside[0]), expected='return True only after the loop has visited every item')
        return True
    if any(isinstance(x, ast.Break) for x in ast.walk(loop)) or loop.orelse:
        return False
    if not outside or any(x.value.value is not True for x in outside):
        if outside and all(x.value.value is False for x in outside) and not true_inside:
            r.violation(construct, 'the function returns False after the loop as well: no set of dependencies is ever ready', lib.loc(sub, outside[0]))
            return True
        return False
    if not false_inside:
        r.violation(construct, 'the loop never returns False: every dependent counts as ready, whatever is missing', lib.loc(sub, loop),
                    expected='if item not in iterable_superset: return False')
        return True
    # every in-loop `return False` is control dependent on "item is missing"
    tests = [g for g in ast.walk(loop) if isinstance(g, ast.If)]
    for x in false_inside:
        verdicts = []
        for g in tests:
            missing = X.m("%s not in %s" % (item, bname), g.test) is not None
            present = X.m("%s in %s" % (item, bname), g.test) is not None
            if not (missing or present):
                continue
            on_missing = X.controlled_by(sub, g, missing, x)          # reached only when the item is missing
            on_present = X.controlled_by(sub, g, not missing, x)      # reached only when the item is present
            verdicts.append((g, on_missing, on_present))
        if any(v[1] for v in verdicts):
            continue
        if any(v[2] for v in verdicts):
            g = [v[0] for v in verdicts if v[2]][0]
            r.violation(construct, '`return False` is taken when the item IS in the superset (`%s`): is_subset answers the opposite question, '
                        'dependents are computed exactly when something they need is missing' % short(g.test), lib.loc(sub, g),
                        expected='if item not in iterable_superset: return False')
            return True
        return False
    r.ok(construct, 'False on the first missing item, True only after the loop is exhausted', sub.loc)
    return True


def _ancestors_in(node, root):
    out = []
    p = parent(node)
    while p is not None and p is not root:
        out.append(p)
        p = parent(p)
    return out


# ----------------------------------------------------------------------------- D4
def _translation_by_manager(idx, fi, call):
    """Exception translation done by the context manager of an enclosing `with`: a class whose __exit__ tests the exception
    type and raises, or a generator-based manager whose `yield` sits in a try with the handler.  Returns
    ('ok'|'violation'|'undecided', text, loc) or None if the call is not inside such a `with`."""
    withs = [a for a in X._ancestors(call) if isinstance(a, ast.With)] if hasattr(X, '_ancestors') else []
    if not withs:
        p_ = parent(call)
        while p_ is not None and not isinstance(p_, (ast.FunctionDef, ast.Lambda)):
            if isinstance(p_, ast.With):
                withs.append(p_)
            p_ = parent(p_)
    orig = getattr(fi, 'original', fi)
    for wnode in withs:
        for item in wnode.items:
            ce = item.context_expr
            if not isinstance(ce, ast.Call):
                continue
            targets, how = idx.resolve_call(orig, ce)
            classes = [t[1] for t in targets if isinstance(t, tuple) and t[0] == 'class']
            funcs = [t for t in targets if hasattr(t, 'node')]
            where = lib.loc(fi, wnode)
            if classes:
                ex = idx.lookup(classes[0], '__exit__')
                if ex is None or len(ex.params) < 4:
                    continue
                et, ev = ex.params[1], ex.params[2]

                def atom(e, et=et, ev=ev, module=ex.module):
                    if X.m("%s is None" % et, e) is not None or X.m("%s is None" % ev, e) is not None:
                        return lambda w: False
                    if X.m("%s is not None" % et, e) is not None or X.m("%s is not None" % ev, e) is not None or X.is_name(e, et) or X.is_name(e, ev):
                        return lambda w: True
                    b = X.m("issubclass(%s, _C)" % et, e) or X.m("isinstance(%s, _C)" % ev, e)
                    if b is not None:
                        names = [unparse(x).split('.')[-1] for x in (b['_C'].elts if isinstance(b['_C'], ast.Tuple) else [b['_C']])]
                        return lambda w, names=names: any(n in CALC_COVER for n in names)
                    return None
                guards = X.Guards(atom)
                try:
                    sel = X.select_paths(nf.decision_paths(ex.node.body), guards, {})
                except X.Unrecognised as e_:
                    return ('undecided', '__exit__ of %s not understood: %s' % (classes[0].name, e_), where)
                if len(sel) != 1:
                    return ('undecided', '__exit__ of %s: paths not exclusive' % classes[0].name, where)
                leaf = sel[0].leaf
                if leaf.kind == 'raise':
                    cls = nf.exc_class_name(leaf.expr) if leaf.expr is not None else 're-raise'
                    if cls == 'ConfigError':
                        return ('ok', '%s.__exit__ turns CalcError into ConfigError' % classes[0].name, where)
                    return ('violation', '%s.__exit__ turns a CalcError into %s instead of ConfigError' % (classes[0].name, cls), lib.loc(ex, leaf.stmt))
                val = leaf.expr
                if leaf.kind == 'fall' or (isinstance(val, ast.Constant) and not val.value):
                    return ('violation', '%s.__exit__ lets a CalcError pass untranslated: the formula error reaches the student as a '
                            'student-facing CalcError instead of a ConfigError' % classes[0].name, lib.loc(ex, ex.node))
                if isinstance(val, ast.Constant) and val.value:
                    return ('violation', '%s.__exit__ swallows the CalcError' % classes[0].name, lib.loc(ex, ex.node))
                return ('undecided', '__exit__ returns %s' % short(val), where)
            if funcs and any('contextmanager' in d for d in funcs[0].decorators):
                g = funcs[0]
                ys = [n for n in walk_own(g.node) if isinstance(n, (ast.Yield, ast.YieldFrom))]
                if len(ys) != 1:
                    continue
                tr = lib.enclosing_try(ys[0])
                if tr is None:
                    continue
                cover = [h for h in tr.handlers if X.handler_covers(h, CALC_COVER)]
                if not cover:
                    continue
                ok, classes_ = X.body_raises(cover[0].body)
                if ok and classes_ == {'ConfigError'}:
                    return ('ok', 'context manager %s turns CalcError into ConfigError' % g.name, where)
                if ok or classes_:
                    return ('violation', 'context manager %s turns a CalcError into %s' % (g.name, sorted(classes_)), lib.loc(g, cover[0]))
                return ('undecided', 'handler of %s not understood' % g.name, where)
    return None


def _translation(r, idx, fi, call, construct):
    """The call sits in a try whose handler covers CalcError and raises ConfigError on every path."""
    tr = lib.enclosing_try(call)
    if tr is None:
        verdict_ = _translation_by_manager(idx, fi, call)
        if verdict_ is not None:
            kind, text, where = verdict_
            if kind == 'ok':
                r.ok(construct, text, where)
            elif kind == 'violation':
                r.violation(construct, text, where, expected='CalcError -> ConfigError')
            else:
                r.undecided(construct, text, where)
            return
        X.absent(r, construct, 'the call `%s` is not inside a try: a formula error reaches the student as a student-facing CalcError '
                 'instead of a ConfigError' % short(call, 50), lib.loc(fi, call), expected='except CalcError: raise ConfigError')
        return
    cover = [h for h in tr.handlers if X.handler_covers(h, CALC_COVER)]
    if not cover:
        names = [n for h in tr.handlers for n in lib.handler_class_names(h)]
        r.violation(construct, 'the handler covers %s, not CalcError: formula errors of the dependent sampler are not turned into '
                    'ConfigError' % names, lib.loc(fi, tr), expected='except CalcError', found=', '.join(names))
        return
    ok, classes = X.body_raises(cover[0].body)
    if not ok and not classes:
        r.violation(construct, 'the CalcError handler does not raise: the error is swallowed', lib.loc(fi, cover[0]))
    else:
        r.check(ok and classes == {'ConfigError'}, construct, 'CalcError -> ConfigError',
                'CalcError is translated to %s instead of ConfigError' % sorted(classes), lib.loc(fi, cover[0]), expected='ConfigError')


def d4_dependent(ctx, idx):
    r = ctx.rule('D4.DEPENDENT', 'DependentSampler: depends come from the parsed formula, CalcError -> ConfigError, '
                 'compute_sample evaluates the own formula on the given sample and returns the value, gen_sample raises', floor=6)
    with r:
        init = idx.func(DS + '.__init__')
        fn = init.node
        construct = "DependentSampler.__init__: config['depends'] = variables used by the parsed formula"
        stores = [s for s in walk_own(fn) if isinstance(s, ast.Assign) and any(lib.is_config(t, 'depends') for t in s.targets)]
        pcalls = [c for c in walk_own(fn) if isinstance(c, ast.Call) and nf.callee_name(c) == 'parse']
        host = init          # the function in which parse(...) is called (the constructor or a helper it delegates to)
        if not stores:
            X.absent(r, construct, "config['depends'] is never overwritten: the author's (possibly incomplete or missing) list decides when "
                     "the variable is computed, so it can be evaluated before the values it really uses", init.loc,
                     expected="self.config['depends'] = list(parsed.variables_used)",
                     understood=X.only_calls([fn], {'super', '__init__', 'parse', 'ConfigError', 'list'}))
        else:
            val = lib.inline_locals(stores[0].value, fn)
            if isinstance(val, ast.Call) and nf.callee_name(val) not in ('list', 'sorted', 'set', 'tuple', 'parse'):
                targets, how = idx.resolve_call(init, val)
                fts = [t for t in targets if hasattr(t, 'node')]
                if len(fts) == 1 and len(lib.returns_of(fts[0].node)) == 1:
                    host = fts[0]
                    bound = X.bind_call(val, host.params, skip_self=not host.is_static and host.cls is not None)
                    val = nf.subst(lib.inline_locals(lib.returns_of(host.node)[0].value, host.node), bound)
                    pcalls = [c for c in walk_own(host.node) if isinstance(c, ast.Call) and nf.callee_name(c) == 'parse']
            src = X.copy_source(val) or val
            if X.m("parse(self.config['formula']).variables_used", src) is not None:
                r.ok(construct, short(val), lib.loc(init, stores[0]))
            elif isinstance(src, ast.Attribute) and src.attr in ('functions_used', 'suffixes_used') and \
                    X.m("parse(self.config['formula'])", src.value) is not None:
                r.violation(construct, 'depends is taken from `.%s` of the parsed formula, not from the variables it uses' % src.attr,
                            lib.loc(init, stores[0]), expected='.variables_used', found='.' + src.attr)
            else:
                r.undecided(construct, 'value not recognised: %s' % short(val), lib.loc(init, stores[0]))
        if len(pcalls) == 1:
            _translation(r, idx, host, pcalls[0], 'DependentSampler.__init__: a formula that does not parse raises ConfigError')
        else:
            r.undecided('DependentSampler.__init__: parse', 'expected one parse(...) call', init.loc)
        comp = idx.func(DS + '.compute_sample')
        fn = comp.node
        if comp.params != ['self', 'sample_dict', 'functions', 'suffixes']:
            raise AnalysisError('compute_sample: signature changed: %s' % comp.params)
        ev = [c for c in walk_own(fn) if isinstance(c, ast.Call) and nf.callee_name(c) == 'evaluator']
        if len(ev) != 1:
            raise AnalysisError('compute_sample: expected one evaluator call')
        bound = X.bind_call(ev[0], idx.func(EVALUATOR).params)
        want = {'formula': "self.config['formula']", 'variables': 'sample_dict', 'functions': 'functions', 'suffixes': 'suffixes'}
        probs = []
        for role, src in want.items():
            got = bound.get(role)
            if got is not None:
                got = lib.inline_locals(got, fn)
            if got is None:
                probs.append('%s is not passed (the library default is used)' % role)
            elif X.m(src, got) is None:
                if any(X.m(o, got) is not None for o in want.values()) or isinstance(got, (ast.Dict, ast.Constant)) \
                        or (isinstance(got, ast.Call) and X.copy_source(got) is None and not got.args):
                    probs.append('%s=%s instead of %s' % (role, short(got), src))
                elif X.copy_source(got) is not None and X.m(src, X.copy_source(got)) is not None:
                    pass
                else:
                    raise AnalysisError('evaluator argument %s=%s not recognised' % (role, short(got)))
        extra = set(bound) - set(want)
        if extra:
            raise AnalysisError('evaluator called with extra arguments %s' % sorted(extra))
        r.check(not probs, 'DependentSampler.compute_sample: own formula evaluated on the given sample with the given functions/suffixes',
                'argument roles', '; '.join(probs) + ': the dependent value is not the formula evaluated on the other values of the same sample',
                lib.loc(comp, ev[0]), expected='evaluator(formula=self.config[formula], variables=sample_dict, functions=functions, suffixes=suffixes)')
        _translation(r, idx, comp, ev[0], 'DependentSampler.compute_sample: CalcError from the evaluation raises ConfigError')
        construct = 'DependentSampler.compute_sample: returns the value (first element of the evaluator result)'
        rets = lib.returns_of(fn)
        un = X.find_stmts(fn, "_V, _W = evaluator(*__)")
        if len(rets) == 1 and un and isinstance(un[0][1]['_V'], ast.Name):
            vname = un[0][1]['_V'].id
            wname = un[0][1]['_W'].id if isinstance(un[0][1]['_W'], ast.Name) else None
            if X.is_name(rets[0].value, vname):
                r.ok(construct, '', lib.loc(comp, rets[0]))
            elif wname and X.is_name(rets[0].value, wname):
                r.violation(construct, 'the usage record (second element) is returned instead of the value', lib.loc(comp, rets[0]))
            else:
                r.undecided(construct, 'returned value not recognised', lib.loc(comp, rets[0]))
        elif len(rets) == 1 and X.m("evaluator(*__)[0]", rets[0].value) is not None:
            r.ok(construct, '', lib.loc(comp, rets[0]))
        else:
            r.undecided(construct, 'return not recognised', comp.loc)
        gen = idx.func(DS + '.gen_sample')
        cfg = cfg_of(gen.node)
        r.check(cfg.always_raises_from([cfg.entry]), 'DependentSampler.gen_sample: raises on every path', 'no path returns',
                'gen_sample can return a value: a dependent variable sampled on its own is inconsistent with the rest of the sample', gen.loc)


# ----------------------------------------------------------------------------- D5 (regex term)
def d5_regex(ctx, idx):
    r = ctx.rule('D5.REGEX', 'numbered-variable pattern: heads alternation intact in its own group inside the full-name group, '
                 'end-anchored, index language 0 | -?[1-9][0-9]*', floor=4)
    with r:
        fi = idx.func('mitxgraders.helpers.math_helpers.numbered_vars_regexp')
        param = fi.params[0]
        env = lib.local_env(fi.node)

        def is_hole(e):
            # '|'.join(map(re.escape, heads)) / '|'.join(re.escape(h) for h in heads) / '|'.join(heads)
            if isinstance(e, ast.Call) and isinstance(e.func, ast.Attribute) and e.func.attr == 'join' \
                    and isinstance(e.func.value, ast.Constant) and e.func.value.value == '|' and len(e.args) == 1:
                if param in lib.names_in(e.args[0]):
                    return 'heads'
            return None
        compiles = [c for c in walk_own(fi.node) if isinstance(c, ast.Call) and idx.dotted_of(fi.module, c.func) == 're.compile']
        if len(compiles) != 1 or not compiles[0].args:
            raise AnalysisError('numbered_vars_regexp: expected one re.compile(pattern) call')
        flags = compiles[0].args[1:] or [k.value for k in compiles[0].keywords]
        if flags:
            raise AnalysisError('numbered_vars_regexp: re.compile is given flags (%s)' % short(compiles[0]))
        parts = rx.fold(compiles[0].args[0], fi.node, is_hole)
        where = lib.loc(fi, compiles[0])
        text = rx.render(parts)
        if not any(isinstance(p, rx.Hole) for p in parts):
            raise AnalysisError('numbered_vars_regexp: the pattern does not contain the joined list of heads: %s' % text)
        tree = rx.parse(parts)
        lead, core, trail = rx.split_anchors(tree)
        # how generate_variable_list applies the pattern
        gv = gvl_view(idx)
        uses = [c for c in walk_own(gv.node) if isinstance(c, ast.Call) and isinstance(c.func, ast.Attribute)
                and c.func.attr in ('match', 'fullmatch', 'search') and isinstance(c.func.value, ast.Name)
                and _bound_to_call(gv, c.func.value.id, 'numbered_vars_regexp')]
        if len(uses) != 1:
            raise AnalysisError('generate_variable_list: expected one application of the numbered-variable pattern')
        method = uses[0].func.attr
        # (1) structure: one capturing group spanning everything, whose first item is the group of heads
        ok_struct = False
        detail = ''
        if len(core) == 1 and core[0][0] is sre_c.SUBPATTERN and core[0][1][0] == 1:
            inner = list(core[0][1][3])
            if inner:
                head_item, groups = rx.unwrap_groups(inner[0])
                if rx.is_intact_hole(head_item) and groups and groups[0] == 2:
                    ok_struct = True
        if not ok_struct and rx.hole_absorbed(tree):
            detail = ('the alternation of heads is not enclosed in its own group (pattern %s): `|` binds looser than '
                      'concatenation, so with more than one head only the last head is followed by `_{index}` and only the '
                      'first is anchored' % text)
        if ok_struct:
            r.ok('numbered_vars_regexp: group 1 = full name, group 2 = alternation of heads', text, where)
        elif detail:
            r.violation('numbered_vars_regexp: group 1 = full name, group 2 = alternation of heads', detail, where,
                        expected='^((head1|head2|...)_{index})$', found=text)
        else:
            r.undecided('numbered_vars_regexp: group 1 = full name, group 2 = alternation of heads',
                        'pattern structure not recognised: %s' % text, where)
        # (2) anchoring, given the way the pattern is applied
        end_ok = bool(trail) or method == 'fullmatch'
        start_ok = bool(lead) or method in ('match', 'fullmatch')
        r.check(end_ok, 'numbered_vars_regexp: anchored at the end',
                'end anchor present' if trail else 'applied with fullmatch',
                "the pattern %s is applied with .%s and has no end anchor: a longer name such as b_{1}' or b_{1}^{2} is taken for "
                "the numbered variable b_{1} and registered under the wrong name" % (text, method), where,
                expected='...)$', found=text)
        r.check(start_ok, 'numbered_vars_regexp: anchored at the start',
                'start anchor present' if lead else 'applied with .%s' % method,
                'the pattern %s is applied with .search and has no start anchor: xb_{1} is taken for an instance of b' % text,
                where)
        # (3) the term between the head group and the end of the full-name group: `_{` INDEX `}`
        construct = 'numbered_vars_regexp: index term is `_{` (-?[1-9][0-9]* | 0) `}`'
        if not ok_struct:
            # an alternation that splits the full-name group is a recognised defect
            split = False
            if len(core) == 1 and core[0][0] is sre_c.SUBPATTERN:
                inner = list(core[0][1][3])
                split = len(inner) == 1 and inner[0][0] is sre_c.BRANCH and not rx.is_intact_hole(inner[0])
            elif len(core) == 1 and core[0][0] is sre_c.BRANCH and not rx.is_intact_hole(core[0]):
                split = True
            if split:
                r.violation(construct, 'an unparenthesised `|` splits the pattern %s into alternatives: the index alternation is not '
                            'enclosed in a group, so `_{`/`}` and the anchors apply to one alternative only' % text, where,
                            expected='_{(?:-?[1-9][0-9]*|0)}', found=text)
            else:
                r.undecided(construct, 'not analysed (structure not recognised)', where)
        else:
            rest = list(core[0][1][3])[1:]
            got = _index_term(rest)
            if got is None:
                r.undecided(construct, 'regex term after the heads not recognised in %s' % text, where)
            elif got == INDEX_REFERENCE:
                r.ok(construct, text, where)
            else:
                r.violation(construct, 'the term after the heads is %s, the property needs %s: %s' % (
                    _show_term(got), _show_term(INDEX_REFERENCE), _index_hint(got)), where, expected='_{(?:-?[1-9][0-9]*|0)}', found=text)


DIGITS = frozenset('0123456789')
INF_ = sre_c.MAXREPEAT


def _charset(item):
    """frozenset of characters a single-character regex item matches, or None."""
    op, av = item
    if op is sre_c.LITERAL:
        return frozenset(chr(av))
    if op is sre_c.IN:
        out = set()
        for o, a in av:
            if o is sre_c.LITERAL:
                out.add(chr(a))
            elif o is sre_c.RANGE:
                if a[1] - a[0] > 200:
                    return None
                out |= {chr(x) for x in range(a[0], a[1] + 1)}
            elif o is sre_c.CATEGORY and a is sre_c.CATEGORY_DIGIT:
                out |= DIGITS
            else:
                return None
        return frozenset(out)
    return None


def _units(seq):
    """[(lo, hi, charset)] for a sequence of single-character items with optional repeats, or None."""
    out = []
    for item in seq:
        op, av = item
        if op in (sre_c.MAX_REPEAT, sre_c.MIN_REPEAT):
            lo, hi, sub = av
            sub = list(sub)
            if len(sub) != 1:
                return None
            cs = _charset(sub[0])
            if cs is None:
                return None
            out.append((lo, hi, cs))
        elif op is sre_c.SUBPATTERN and av[0] is None and not av[1] and not av[2]:
            inner = _units(list(av[3]))
            if inner is None:
                return None
            out.extend(inner)
        else:
            cs = _charset(item)
            if cs is None:
                return None
            out.append((1, 1, cs))
    return tuple(out)


def _index_term(rest):
    """Normal form of the items after the head group: (prefix units, frozenset of alternative unit tuples, suffix units)."""
    br = [i for i, it in enumerate(rest) if it[0] is sre_c.BRANCH]
    if len(br) > 1:
        return None
    if br:
        i = br[0]
        pre, post = _units(rest[:i]), _units(rest[i + 1:])
        alts = [_units(list(a)) for a in rest[i][1][1]]
        if pre is None or post is None or any(a is None for a in alts):
            return None
        return pre, frozenset(alts), post
    u = _units(rest)
    if u is None:
        return None
    # no alternation: prefix = leading literal units `_{`, suffix = trailing `}`
    pre = tuple(x for x in u[:2] if x[:2] == (1, 1) and x[2] in (frozenset('_'), frozenset('{')))
    post = tuple(x for x in u[-1:] if x[:2] == (1, 1) and x[2] == frozenset('}'))
    return pre, frozenset([u[len(pre):len(u) - len(post)]]), post


INDEX_REFERENCE = (((1, 1, frozenset('_')), (1, 1, frozenset('{'))),
                   frozenset([((0, 1, frozenset('-')), (1, 1, frozenset('123456789')), (0, INF_, DIGITS)), ((1, 1, frozenset('0')),)]),
                   ((1, 1, frozenset('}')),))


def _show_units(u):
    def cs(c):
        if c == DIGITS:
            return '[0-9]'
        if c == frozenset('123456789'):
            return '[1-9]'
        return ''.join(sorted(c)) if len(c) == 1 else '[%s]' % ''.join(sorted(c))

    def rep(lo, hi):
        if (lo, hi) == (1, 1):
            return ''
        if (lo, hi) == (0, 1):
            return '?'
        if (lo, hi) == (0, INF_):
            return '*'
        if (lo, hi) == (1, INF_):
            return '+'
        return '{%s,%s}' % (lo, '' if hi == INF_ else hi)
    return ''.join(cs(c) + rep(lo, hi) for lo, hi, c in u)


def _show_term(t):
    return '`%s(%s)%s`' % (_show_units(t[0]), '|'.join(sorted(_show_units(a) for a in t[1])), _show_units(t[2]))


def _index_hint(got):
    alts = got[1]
    firsts = [a for a in alts if a]
    if any(a and a[0][2] >= DIGITS and a[0][1] == INF_ for a in alts) or any(
            len(a) >= 2 and a[0] == (0, 1, frozenset('-')) and '0' in a[1][2] and (len(a) > 2 or a[1][1] != 1) for a in alts):
        return 'indices with leading zeros (b_{05}) are taken for numbered variables'
    if not any(a and a[0] == (0, 1, frozenset('-')) for a in alts):
        return 'negative indices (b_{-3}) are no longer numbered variables'
    if not any(any(u[2] >= DIGITS and u[1] == INF_ for u in a[1:]) for a in alts if len(a) > 1):
        return ('after the first digit only %s may follow: multi-digit indices containing the digit 0 (b_{10}, b_{-20}, b_{105}) are no '
                'longer numbered variables and get no sample' % ('non-zero digits' if any(
                    any(u[1] == INF_ and u[2] == frozenset('123456789') for u in a) for a in alts) else 'a restricted set of digits'))
    if ((1, 1, frozenset('0')),) not in alts:
        return 'the index 0 is no longer accepted'
    if got[0] != INDEX_REFERENCE[0] or got[2] != INDEX_REFERENCE[2]:
        return 'the braces around the index differ'
    return 'the accepted index strings differ'


def _helper_view(idx, qualname, how):
    """A function with the helpers the normaliser left behind (unreviewed, or inlined at some call sites only) hoisted in."""
    cache = idx.__dict__.setdefault('_c13_views', {})
    if qualname in cache:
        return cache[qualname]
    fi0 = idx.func(qualname)
    partly = set((getattr(idx, 'normalization', None) or {}).get('inlined', {}) or {})
    view, done = how(idx, fi0, only=set(getattr(idx, 'unreviewed', None) or []) | partly)
    X.settle_unreviewed(idx, done, {fi0.qualname})
    view = X.scalarize(idx, view)
    cache[qualname] = view
    return view


def gvl_view(idx):
    def how(idx_, fi_, only=None):
        v1, d1 = X.inline_straight_calls(idx_, fi_, only=only)
        v2, d2 = X.inline_generator_loops(idx_, v1, only=only)
        return v2, set(d1) | set(d2)
    return _helper_view(idx, MM + '.generate_variable_list', how)


def _bound_to_call(fi, name, callee):
    for v in lib.assigned_value(fi.node, name):
        if isinstance(v, ast.Call) and nf.callee_name(v) == callee:
            return True
    return False




# ----------------------------------------------------------------------------- D5 (use of the pattern)
def d5_numbered(ctx, idx):
    r = ctx.rule('D5.NUMBERED', "generate_variable_list: copies of the configured variables/samplers; only undeclared names are "
                 "matched; group 1 is appended and given the sampler of group 2", floor=7)
    with r:
        fi = gvl_view(idx)
        fn = fi.node
        rets = lib.returns_of(fn)
        if len(rets) != 1 or not (isinstance(rets[0].value, ast.Tuple) and len(rets[0].value.elts) == 2
                                  and all(isinstance(e, ast.Name) for e in rets[0].value.elts)):
            raise AnalysisError('generate_variable_list: expected `return variable_list, sample_from_dict`')
        VL, SF = [e.id for e in rets[0].value.elts]

        def one_def(name):
            d = [s for s in walk_own(fn) if isinstance(s, ast.Assign) and len(s.targets) == 1 and X.is_name(s.targets[0], name)]
            if len(d) != 1:
                raise AnalysisError('generate_variable_list: %d definitions of %s' % (len(d), name))
            return d[0]
        for name, key, label in ((VL, 'variables', 'variable list'), (SF, 'sample_from', 'sampler dict')):
            st = one_def(name)
            construct = "generate_variable_list: the %s starts as a copy of config['%s']" % (label, key)
            src = X.copy_source(st.value)
            if src is not None and lib.is_config(src, key):
                r.ok(construct, short(st.value), lib.loc(fi, st))
            elif lib.is_config(st.value, key):
                r.violation(construct, "`%s = %s` is the configured object itself: numbered instances are added to the grader's "
                            "configuration and are treated as declared variables by every later call" % (name, short(st.value)),
                            lib.loc(fi, st), expected='a copy')
            else:
                r.undecided(construct, 'value not recognised: %s' % short(st.value), lib.loc(fi, st))
        # the application of the pattern
        uses = [c for c in walk_own(fn) if isinstance(c, ast.Call) and isinstance(c.func, ast.Attribute)
                and c.func.attr in ('match', 'fullmatch', 'search') and isinstance(c.func.value, ast.Name)
                and _bound_to_call(fi, c.func.value.id, 'numbered_vars_regexp')]
        if len(uses) != 1:
            raise AnalysisError('generate_variable_list: expected one application of the numbered-variable pattern')
        use = uses[0]
        rx_def = [v for v in lib.assigned_value(fn, use.func.value.id)]
        construct = "generate_variable_list: the pattern is built from config['numbered_vars']"
        rx_src = lib.inline_locals(rx_def[0], fn) if len(rx_def) == 1 else None
        if rx_src is not None and X.m("numbered_vars_regexp(self.config['numbered_vars'])", rx_src) is not None:
            r.ok(construct, short(rx_def[0]), lib.loc(fi, use))
        elif rx_src is not None and isinstance(rx_src, ast.Call) and len(rx_src.args) == 1 and nf.config_key(rx_src.args[0]) not in (None, 'numbered_vars'):
            r.violation(construct, "the pattern is built from config['%s'] instead of config['numbered_vars']" % nf.config_key(rx_src.args[0]),
                        lib.loc(fi, use))
        else:
            r.undecided(construct, 'argument of numbered_vars_regexp not recognised: %s' % (short(rx_src) if rx_src is not None else '?'), lib.loc(fi, use))
        loop = X.enclosing_loop(use)
        if not (isinstance(loop, ast.For) and isinstance(loop.target, ast.Name) and len(use.args) == 1
                and X.is_name(use.args[0], loop.target.id) and isinstance(loop.iter, ast.Name)):
            _numbered_streams(r, fi, use, VL, SF)
            return
        # which names are tried
        construct = 'generate_variable_list: only names that are not declared variables are tried'
        bdef = one_def(loop.iter.id)
        val = bdef.value
        inner = val.args[0] if (isinstance(val, ast.Call) and isinstance(val.func, ast.Name) and val.func.id in ('set', 'list', 'sorted')
                                and len(val.args) == 1) else val
        if isinstance(inner, (ast.GeneratorExp, ast.ListComp, ast.SetComp)) and len(inner.generators) == 1 \
                and isinstance(inner.generators[0].target, ast.Name):
            g = inner.generators[0]
            t = g.target.id
            tests = [nf.canon(x) for x in g.ifs]
            if len(tests) == 1 and X.any_match(["%s not in %s" % (t, VL), "%s not in self.config['variables']" % t], tests[0]) is not None:
                r.ok(construct, short(val, 80), lib.loc(fi, bdef))
            elif len(tests) == 1 and X.any_match(["%s in %s" % (t, VL)], tests[0]) is not None:
                r.violation(construct, 'the filter is inverted: only declared variables are tried', lib.loc(fi, bdef))
            elif not tests:
                r.violation(construct, 'every used name is tried, including declared variables: a declared `b_{7}` is appended a second time '
                            'and its own sampler is replaced by the sampler of `b`', lib.loc(fi, bdef))
            else:
                r.undecided(construct, 'filter not recognised: %s' % short(val), lib.loc(fi, bdef))
        elif _is_all_used(fn, inner):
            r.violation(construct, 'the pattern is tried on every used name (`%s`), including declared variables: a declared `b_{7}` is appended '
                        'a second time and its own sampler is replaced by the sampler of `b`' % short(val), lib.loc(fi, bdef),
                        expected='names not in the variable list')
        else:
            r.undecided(construct, 'definition not recognised: %s' % short(val), lib.loc(fi, bdef))
        # groups -> roles
        mst = lib.enclosing_stmt(use)
        if not (isinstance(mst, ast.Assign) and len(mst.targets) == 1 and isinstance(mst.targets[0], ast.Name)):
            raise AnalysisError('generate_variable_list: match result not bound to a name')
        M = mst.targets[0].id
        un = X.find_stmts(loop, "_G1, _G2 = %s.groups()" % M, own=False)
        if len(un) != 1 or not all(isinstance(un[0][1][k], ast.Name) for k in ('_G1', '_G2')):
            raise AnalysisError('generate_variable_list: `(full, head) = match.groups()` not found')
        G1, G2 = un[0][1]['_G1'].id, un[0][1]['_G2'].id
        gst = un[0][0]
        construct = 'generate_variable_list: groups are read only when the name matched'
        tests = [(t, X.truth_test(t.test, M)) for t in ast.walk(loop) if isinstance(t, ast.If) and X.truth_test(t.test, M) != 0]
        if any(X.controlled_by(fi, t, pol > 0, gst) for t, pol in tests):
            r.ok(construct, 'match.groups() is control dependent on the match test', lib.loc(fi, gst))
        elif tests:
            r.violation(construct, 'match.groups() can run on the branch where `%s` found no match (AttributeError on None for ordinary '
                        'undeclared names)' % short(tests[0][0].test), lib.loc(fi, gst))
        else:
            X.absent(r, construct, 'match.groups() is evaluated without testing the match (AttributeError on None for ordinary undeclared '
                     'names)', lib.loc(fi, gst), understood=X.only_calls([loop], {'match', 'fullmatch', 'search', 'groups', 'append'}))
        construct = 'generate_variable_list: the full name (group 1) is added to the variable list'
        apps = X.find_stmts(loop, "%s.append(_A)" % VL, own=False)
        if not apps:
            X.absent(r, construct, 'nothing is appended to the variable list: numbered instances get no sample', lib.loc(fi, loop),
                     understood=X.only_calls([loop], {'match', 'fullmatch', 'search', 'groups'}))
        else:
            a = apps[0][1]['_A']
            if X.is_name(a, G1):
                r.ok(construct, short(apps[0][0]), lib.loc(fi, apps[0][0]))
            elif X.is_name(a, G2):
                r.violation(construct, 'group 2 (the head, e.g. `b`) is appended instead of group 1 (the full name, e.g. `b_{3}`): the '
                            'instance that occurs in the expressions gets no value', lib.loc(fi, apps[0][0]), expected=G1, found=G2)
            else:
                r.undecided(construct, 'appended value not recognised: %s' % short(a), lib.loc(fi, apps[0][0]))
        construct = "generate_variable_list: the instance is sampled from its head's sampling set"
        stores = X.find_stmts(loop, "%s[_K] = _V" % SF, own=False)
        if not stores:
            X.absent(r, construct, 'no sampler is registered for the numbered instance: gen_symbols_samples fails with KeyError', lib.loc(fi, loop),
                     understood=X.only_calls([loop], {'match', 'fullmatch', 'search', 'groups', 'append'}))
        else:
            k, v = stores[0][1]['_K'], X.local_value(fn, stores[0][1]['_V'], stores[0][0])
            probs = []
            if X.is_name(k, G2):
                probs.append('the sampler is stored under the head `%s` instead of the full name' % G2)
            elif not X.is_name(k, G1):
                raise AnalysisError('key of the sampler store not recognised: %s' % short(k))
            vb = X.any_match(["%s[_H]" % SF, "self.config['sample_from'][_H]"], v)
            if vb is None:
                if isinstance(v, ast.Call):
                    probs.append('a new sampler `%s` is used instead of the sampling set of the head' % short(v))
                else:
                    raise AnalysisError('sampler value not recognised: %s' % short(v))
            elif X.is_name(vb['_H'], G1):
                probs.append('the sampler is looked up under the full name (group 1), which has none, instead of the head (group 2)')
            elif not X.is_name(vb['_H'], G2):
                probs.append('the sampler is looked up under `%s` instead of the head of this instance' % short(vb['_H']))
            r.check(not probs, construct, short(stores[0][0]), '; '.join(probs), lib.loc(fi, stores[0][0]),
                    expected='%s[%s] = %s[%s]' % (SF, G1, SF, G2))


def _numbered_streams(r, fi, use, VL, SF):
    """generate_variable_list written with comprehensions: names -> matches -> (full name, head) pairs -> consumers.
    Roles are decided per consumer from the tuple its own target binds (position 0 = group 1 = full name, position 1 =
    group 2 = head); a name that the consumer does not bind is a stale variable of an earlier loop."""
    fn = fi.node
    env = lib.local_env(fn)
    RX = use.func.value.id

    def deref(e, depth=0):
        while isinstance(e, ast.Name) and e.id in env and depth < 6:
            e, depth = env[e.id], depth + 1
        return e

    def names_kind(e, depth=0):
        """'undeclared' / 'all' / None for the collection of candidate names."""
        e = deref(e)
        if depth > 6:
            return None
        if isinstance(e, ast.Call) and isinstance(e.func, ast.Name) and e.func.id in ('sorted', 'set', 'list', 'tuple', 'frozenset') and len(e.args) == 1:
            return names_kind(e.args[0], depth + 1)
        if _is_all_used(fn, e):
            return 'all'
        b = X.any_match(["_U.difference(_D)", "_U - _D"], e)
        if b is not None and names_kind(b['_U'], depth + 1) in ('all', 'undeclared'):
            d = deref(b['_D'])
            d = d.args[0] if (isinstance(d, ast.Call) and isinstance(d.func, ast.Name) and d.func.id in ('set', 'list', 'frozenset') and len(d.args) == 1) else d
            if X.is_name(b['_D'], VL) or X.is_name(d, VL) or lib.is_config(d, 'variables') or (
                    X.copy_source(d) is not None and lib.is_config(X.copy_source(d), 'variables')):
                return 'undeclared'
            return None
        if isinstance(e, (ast.GeneratorExp, ast.ListComp, ast.SetComp)) and len(e.generators) == 1 and isinstance(e.generators[0].target, ast.Name):
            g = e.generators[0]
            base = names_kind(g.iter, depth + 1)
            if base is None or not X.is_name(e.elt, g.target.id):
                return None
            tests = [nf.canon(t) for t in g.ifs]
            if not tests:
                return base
            if len(tests) == 1 and X.any_match(["%s not in %s" % (g.target.id, VL), "%s not in self.config['variables']" % g.target.id], tests[0]) is not None:
                return 'undeclared'
            return None
        return None

    # the comprehension that applies the pattern
    comp = parent(use)
    while comp is not None and not isinstance(comp, (ast.GeneratorExp, ast.ListComp, ast.SetComp, ast.stmt)):
        comp = parent(comp)
    if not isinstance(comp, (ast.GeneratorExp, ast.ListComp, ast.SetComp)) or len(comp.generators) != 1 \
            or not isinstance(comp.generators[0].target, ast.Name) or len(use.args) != 1 or not X.is_name(use.args[0], comp.generators[0].target.id):
        raise AnalysisError('generate_variable_list: the pattern is not applied to the elements of a loop / comprehension over names')
    construct = 'generate_variable_list: only names that are not declared variables are tried'
    kind = names_kind(comp.generators[0].iter)
    if kind == 'undeclared' or (kind == 'all' and any(X.any_match(["%s not in %s" % (comp.generators[0].target.id, VL)], nf.canon(t)) is not None
                                                        for t in comp.generators[0].ifs)):
        r.ok(construct, short(comp.generators[0].iter, 80), lib.loc(fi, comp))
    elif kind == 'all':
        r.violation(construct, 'the pattern is tried on every used name (`%s`), including declared variables: a declared `b_{7}` is appended a '
                    'second time and its own sampler is replaced by the sampler of `b`' % short(comp.generators[0].iter), lib.loc(fi, comp),
                    expected='names not in the variable list')
    else:
        r.undecided(construct, 'candidate names not recognised: %s' % short(comp.generators[0].iter), lib.loc(fi, comp))
    # pairs = M.groups() for M in matches if M
    matches_names = {n for n, v in env.items() if v is comp}
    pair_comps = []
    if X.m("%s.%s(_C).groups()" % (RX, use.func.attr), comp.elt) is not None:
        guarded = any(nf.equal(nf.canon(t), nf.canon(use)) or X.truth_test(t, '__none__') for t in comp.generators[0].ifs)
        pair_comps.append((comp, any(isinstance(c_, ast.Call) and nf.equal(c_, use) for t in comp.generators[0].ifs for c_ in ast.walk(t))))
    for c2 in [n for n in walk_own(fn) if isinstance(n, (ast.GeneratorExp, ast.ListComp, ast.SetComp)) and n is not comp]:
        if len(c2.generators) == 1 and isinstance(c2.generators[0].target, ast.Name) and (
                (isinstance(c2.generators[0].iter, ast.Name) and c2.generators[0].iter.id in matches_names) or c2.generators[0].iter is comp):
            m_ = c2.generators[0].target.id
            if X.m("%s.groups()" % m_, c2.elt) is not None:
                pair_comps.append((c2, any(X.truth_test(t, m_) > 0 for t in c2.generators[0].ifs)))
    construct = 'generate_variable_list: groups are read only when the name matched'
    if len(pair_comps) != 1:
        raise AnalysisError('generate_variable_list: the (full name, head) pairs are not produced by one recognised comprehension')
    pc, guarded = pair_comps[0]
    r.check(guarded, construct, 'the comprehension keeps only successful matches',
            'match.groups() is evaluated for every candidate, also where the pattern did not match (AttributeError on None for ordinary '
            'undeclared names)', lib.loc(fi, pc))
    pair_names = {n for n, v in env.items() if v is pc}
    # consumers of the pairs
    appended, stored = [], []           # (expr for the appended name, binder), (key expr, value expr, binder)
    for node in walk_own(fn):
        it = tgt = None
        if isinstance(node, ast.For):
            it, tgt = node.iter, node.target
        elif isinstance(node, (ast.GeneratorExp, ast.ListComp, ast.SetComp, ast.DictComp)) and len(node.generators) == 1:
            it, tgt = node.generators[0].iter, node.generators[0].target
        if it is None or not ((isinstance(it, ast.Name) and it.id in pair_names) or it is pc):
            continue
        if not (isinstance(tgt, ast.Tuple) and len(tgt.elts) == 2 and all(isinstance(t, ast.Name) for t in tgt.elts)):
            raise AnalysisError('consumer of the (full name, head) pairs does not unpack them: %s' % short(tgt))
        g1, g2 = tgt.elts[0].id, tgt.elts[1].id
        if isinstance(node, ast.For):
            for st_, b_ in X.find_stmts(node, "%s.append(_A)" % VL, own=False):
                appended.append((b_['_A'], (g1, g2), st_))
            for st_, b_ in X.find_stmts(node, "%s[_K] = _V" % SF, own=False):
                stored.append((b_['_K'], b_['_V'], (g1, g2), st_))
        else:
            user = parent(node)
            if isinstance(node, ast.DictComp) and isinstance(user, ast.Call) and X.m("%s.update(__)" % SF, user) is not None:
                stored.append((node.key, node.value, (g1, g2), node))
            elif isinstance(user, ast.Call) and isinstance(user.func, ast.Attribute) and user.func.attr == 'extend' and X.is_name(user.func.value, VL):
                appended.append((node.elt, (g1, g2), node))
            elif isinstance(user, ast.AugAssign) and X.is_name(user.target, VL):
                appended.append((node.elt, (g1, g2), node))
            else:
                raise AnalysisError('consumer of the pairs not recognised: %s' % short(user))
    construct = 'generate_variable_list: the full name (group 1) is added to the variable list'
    if not appended:
        X.absent(r, construct, 'nothing is appended to the variable list: numbered instances get no sample', fi.loc, understood=False)
    for a, (g1, g2), where_ in appended:
        if X.is_name(a, g1):
            r.ok(construct, short(where_, 70), lib.loc(fi, where_))
        elif X.is_name(a, g2):
            r.violation(construct, 'group 2 (the head, e.g. `b`) is appended instead of group 1 (the full name, e.g. `b_{3}`)', lib.loc(fi, where_))
        else:
            r.undecided(construct, 'appended value not recognised: %s' % short(a), lib.loc(fi, where_))
    construct = "generate_variable_list: the instance is sampled from its head's sampling set"
    if not stored:
        X.absent(r, construct, 'no sampler is registered for the numbered instance', fi.loc, understood=False)
    for k, v, (g1, g2), where_ in stored:
        probs = []
        if X.is_name(k, g2):
            probs.append('the sampler is stored under the head `%s` instead of the full name' % g2)
        elif not X.is_name(k, g1):
            raise AnalysisError('key of the sampler store not recognised: %s' % short(k))
        vb = X.any_match(["%s[_H]" % SF, "self.config['sample_from'][_H]"], v)
        if vb is None:
            raise AnalysisError('sampler value not recognised: %s' % short(v))
        h = vb['_H']
        if X.is_name(h, g1):
            probs.append('the sampler is looked up under the full name (group 1), which has none, instead of the head (group 2)')
        elif isinstance(h, ast.Name) and h.id != g2:
            probs.append("the sampler is looked up with `%s`, a name that this %s does not bind (its own head is `%s`): it is the variable "
                         "left over from an earlier loop, i.e. the head of the LAST instance, so every numbered instance gets that head's "
                         "sampling set" % (h.id, 'comprehension' if not isinstance(where_, ast.stmt) else 'loop', g2))
        elif not X.is_name(h, g2):
            raise AnalysisError('sampler lookup not recognised: %s' % short(h))
        r.check(not probs, construct, short(where_, 80), '; '.join(probs), lib.loc(fi, where_), expected='%s[full] = %s[head]' % (SF, SF))


def _is_all_used(fn, e, depth=0):
    """e denotes all variables used in the expressions: self.get_used_vars(...) possibly through names / set() / list()."""
    if depth > 4:
        return False
    if isinstance(e, ast.Call) and nf.callee_name(e) == 'get_used_vars':
        return True
    if isinstance(e, ast.Call) and isinstance(e.func, ast.Name) and e.func.id in ('set', 'list', 'sorted', 'tuple') and len(e.args) == 1:
        return _is_all_used(fn, e.args[0], depth + 1)
    if isinstance(e, ast.Name):
        vals = lib.assigned_value(fn, e.id)
        return len(vals) == 1 and _is_all_used(fn, vals[0], depth + 1)
    return False


# ----------------------------------------------------------------------------- D6
def d6_constants(ctx, idx):
    r = ctx.rule('D6.CONSTANTS', 'construct_constants returns a copy of the defaults overridden by the user constants', floor=4)
    with r:
        fi = idx.func('mitxgraders.sampling.construct_constants')
        fn = fi.node
        if fi.params != ['default_variables', 'user_consts']:
            raise AnalysisError('construct_constants: signature changed: %s' % fi.params)
        rets = lib.returns_of(fn)
        if len(rets) != 1:
            raise AnalysisError('construct_constants: expected one return')
        if not isinstance(rets[0].value, ast.Name):
            # e.g. dict(default_variables, **user_consts) / {**default_variables, **user_consts}
            v = rets[0].value
            if X.any_match(["dict(default_variables, **user_consts)", "merge_dicts(default_variables, user_consts)"], v) is not None or (
                    isinstance(v, ast.Dict) and all(k is None for k in v.keys) and [unparse(x) for x in v.values] == ['default_variables', 'user_consts']):
                r.ok('construct_constants: defaults then user constants', short(v), lib.loc(fi, rets[0]))
                r.ok('construct_constants: a new dict is returned', short(v), lib.loc(fi, rets[0]))
                r.ok('construct_constants: user entries win', short(v), lib.loc(fi, rets[0]))
                return
            raise AnalysisError('construct_constants: return value not recognised')
        C = rets[0].value.id
        defs = [s for s in walk_own(fn) if isinstance(s, ast.Assign) and len(s.targets) == 1 and X.is_name(s.targets[0], C)]
        if len(defs) != 1:
            raise AnalysisError('construct_constants: base dict not uniquely defined')
        base = defs[0].value
        src = X.copy_source(base)
        construct = 'construct_constants: a new dict is returned'
        if isinstance(base, ast.Name):
            r.violation(construct, '`%s = %s` is no copy: the shared table of default constants is modified by every grader with user '
                        'constants' % (C, base.id), lib.loc(fi, defs[0]), expected='%s.copy()' % base.id)
            src = base
        elif src is None:
            raise AnalysisError('construct_constants: base value not recognised: %s' % short(base))
        else:
            r.ok(construct, short(base), lib.loc(fi, defs[0]))
        # merge
        merged = None
        how = None
        for st, b in X.find_stmts(fn, "%s.update(_Y)" % C):
            merged, how, mst = b['_Y'], 'update', st
        for lp in [l for l in walk_own(fn) if isinstance(l, ast.For) and isinstance(l.target, ast.Name)]:
            t = lp.target.id
            for st in _body(lp.body):
                b1 = X.m(X.spat("%s[%s] = _Y[%s]" % (C, t, t)), st)
                if b1 is not None and isinstance(b1['_Y'], ast.Name) and X.is_name(lp.iter, b1['_Y'].id):
                    merged, how, mst = lp.iter, 'store', st
                b2 = X.m(X.spat("%s.setdefault(%s, _Y[%s])" % (C, t, t)), st)
                if b2 is not None and isinstance(b2['_Y'], ast.Name) and X.is_name(lp.iter, b2['_Y'].id):
                    merged, how, mst = lp.iter, 'setdefault', st
        construct = 'construct_constants: defaults then user constants'
        if merged is None:
            X.absent(r, construct, 'nothing is merged into the copy: user constants are ignored', fi.loc,
                     understood=X.only_calls([fn], {'copy', 'dict'}))
            return
        if X.is_name(src, 'default_variables') and X.is_name(merged, 'user_consts'):
            r.ok(construct, 'base = defaults, merged = user constants', lib.loc(fi, mst))
            win = how != 'setdefault'
        elif X.is_name(src, 'user_consts') and X.is_name(merged, 'default_variables'):
            r.ok(construct, 'base = user constants, merged = defaults', lib.loc(fi, mst))
            win = how == 'setdefault'
        else:
            raise AnalysisError('construct_constants: merge of `%s` into a copy of `%s` not recognised' % (short(merged), short(src)))
        r.check(win, 'construct_constants: user entries win', how,
                "with `%s` the default value wins when the user redefines a constant (e.g. a user constant `pi` or `T` colliding with a "
                "default is ignored)" % short(mst), lib.loc(fi, mst), expected='constants[var] = user_consts[var]')
        vm = idx.func(MM + '.validate_math_config')
        hits = X.find_stmts(vm.node, "self.constants = construct_constants(self.default_variables, self.config['user_constants'])")
        r.check(bool(hits), 'MathMixin.validate_math_config: self.constants', 'construct_constants(default_variables, user_constants)',
                "self.constants is no longer construct_constants(self.default_variables, self.config['user_constants'])", vm.loc)


def d6_siblings(ctx, idx):
    r = ctx.rule('D6.SIBLINGS', 'gen_var_and_func_samples: siblings declared, empty ones refused (MissingInput) before '
                 'DependentSampler(formula=<theirs>); all expressions searched; argument roles of gen_symbols_samples', floor=8)
    with r:
        fi = X.scalarize(idx, idx.func(MM + '.gen_var_and_func_samples'))
        fn = fi.node
        gv = [s for s, b in X.find_stmts(fn, "_VARS, _SF = self.generate_variable_list(_E)")]
        if len(gv) != 1:
            raise AnalysisError('gen_var_and_func_samples: `variables, sample_from = self.generate_variable_list(expressions)` not found')
        b = X.m(X.spat("_VARS, _SF = self.generate_variable_list(_E)"), gv[0])
        if not all(isinstance(b[k], ast.Name) for k in ('_VARS', '_SF', '_E')):
            raise AnalysisError('gen_var_and_func_samples: names not plain')
        VARS, SF, EX = b['_VARS'].id, b['_SF'].id, b['_E'].id
        # expressions: str / list / dict values
        construct = 'gen_var_and_func_samples: expressions inside dict arguments are searched for variables too'
        branches = [s for s in walk_own(fn) if isinstance(s, ast.If) and X.m("isinstance(_X, dict)", s.test) is not None
                    and X.enclosing_loop(s) is not None and not X.in_subtree(gv[0], X.enclosing_loop(s))
                    and X.dominates(fi, X.enclosing_loop(s), gv[0])]
        EXS = X.aliases(fn, EX)
        ext = False
        empty_branch = False
        for s in list(branches):
            body = [x for x in _body(s.body) if not isinstance(x, ast.Pass)]
            if not body:
                empty_branch = True
            for x in ast.walk(ast.Module(body=s.body, type_ignores=[])):
                if isinstance(x, ast.AugAssign) and isinstance(x.target, ast.Name) and x.target.id in EXS:
                    ext = True
                if isinstance(x, ast.Call) and isinstance(x.func, ast.Attribute) and x.func.attr in ('extend', 'append', 'update') \
                        and isinstance(x.func.value, ast.Name) and x.func.value.id in EXS:
                    ext = True
                if isinstance(x, ast.Assign) and any(isinstance(t, ast.Name) and t.id in EXS for t in x.targets):
                    ext = True
        table_ok = False
        if not branches:
            # a dispatch table of (type, extractor) pairs tested in order
            for lp in [l for l in walk_own(fn) if isinstance(l, ast.For) and isinstance(l.target, ast.Tuple) and len(l.target.elts) == 2
                       and all(isinstance(t, ast.Name) for t in l.target.elts)]:
                tbl = lp.iter
                val = None
                if isinstance(tbl, ast.Attribute) and isinstance(tbl.value, ast.Name) and tbl.value.id in ('self', 'cls') and fi.cls is not None:
                    ci, val = idx.lookup_attr(fi.cls, tbl.attr)
                elif isinstance(tbl, ast.Name):
                    vals = fi.module.assigns.get(tbl.id, []) or lib.assigned_value(fn, tbl.id)
                    val = vals[0] if len(vals) == 1 else None
                elif isinstance(tbl, (ast.Tuple, ast.List)):
                    val = tbl
                kind, extract = lp.target.elts[0].id, lp.target.elts[1].id
                uses = X.find_exprs(lp, "isinstance(_E, %s)" % kind, own=False) and any(
                    isinstance(c, ast.Call) and isinstance(c.func, ast.Attribute) and c.func.attr in ('extend', 'append')
                    and isinstance(c.func.value, ast.Name) and c.func.value.id in EXS and X.find_exprs(c, "%s(_E)" % extract, own=False)
                    for c in ast.walk(lp))
                if not uses or not isinstance(val, (ast.Tuple, ast.List)):
                    continue
                for pair in val.elts:
                    if isinstance(pair, (ast.Tuple, ast.List)) and len(pair.elts) == 2 and X.is_name(pair.elts[0], 'dict') \
                            and isinstance(pair.elts[1], ast.Lambda) and any(
                                isinstance(a_, ast.Attribute) and a_.attr in ('values', 'items') for a_ in ast.walk(pair.elts[1].body)):
                        table_ok = True
                        branches = [lp]
        cond_ok = None
        if not branches and not table_ok:
            # one extension per entry whose value is a chain of conditional expressions on the entry's type
            for lp in [l for l in walk_own(fn) if isinstance(l, ast.For) and isinstance(l.target, ast.Name) and not X.in_subtree(gv[0], l)
                       and X.dominates(fi, l, gv[0])]:
                e_ = lp.target.id
                for x in ast.walk(lp):
                    val = x.value if isinstance(x, ast.AugAssign) and isinstance(x.target, ast.Name) and x.target.id in EXS else (
                        x.args[0] if isinstance(x, ast.Call) and isinstance(x.func, ast.Attribute) and x.func.attr == 'extend'
                        and isinstance(x.func.value, ast.Name) and x.func.value.id in EXS and len(x.args) == 1 else None)
                    while isinstance(val, ast.IfExp):
                        if X.m("isinstance(%s, dict)" % e_, val.test) is not None:
                            cond_ok = (lp, any(isinstance(a_, ast.Attribute) and a_.attr in ('values', 'items') and X.is_name(a_.value, e_)
                                               for a_ in ast.walk(val.body)))
                            break
                        val = val.orelse
        if cond_ok is not None and cond_ok[1]:
            r.ok(construct, 'conditional expression: dict -> its values', lib.loc(fi, cond_ok[0]))
        elif table_ok:
            r.ok(construct, 'dispatch table: dict -> its values', lib.loc(fi, branches[0]))
        elif not branches:
            r.undecided(construct, 'no isinstance(entry, dict) branch before generate_variable_list', fi.loc)
        elif ext:
            r.ok(construct, 'dict values are added to the expressions', lib.loc(fi, branches[0]))
        elif empty_branch and X.no_unreviewed(r):
            r.violation(construct, 'the dict branch is empty, it no longer adds the values to `%s`: variables (incl. numbered ones) that occur '
                        'only in sibling or answer dicts get no sample' % EX, lib.loc(fi, branches[0]))
        else:
            r.undecided(construct, 'the dict branch does not visibly extend `%s`' % EX, lib.loc(fi, branches[0]))
        # sibling loop
        ds = [c for c in walk_own(fn) if isinstance(c, ast.Call) and nf.callee_name(c) == 'DependentSampler']
        if len(ds) != 1:
            raise AnalysisError('gen_var_and_func_samples: expected one DependentSampler(...) construction')
        dst = lib.enclosing_stmt(ds[0])
        dst_pat = None
        if isinstance(dst, ast.Assign) and len(dst.targets) == 1 and isinstance(dst.targets[0], ast.Name) and dst.value is ds[0]:
            # the sampler is bound to a local first and stored by a later statement of the same block
            for st_, b_ in X.find_stmts(fn, "%s[_KEY] = %s" % (SF, dst.targets[0].id), own=False):
                if X.local_value(fn, ast.Name(id=dst.targets[0].id, ctx=ast.Load()), st_) is ds[0]:
                    dst_pat = ast.copy_location(ast.Assign(targets=st_.targets, value=ds[0]), st_)
                    dst = st_
                    break
        loop = X.enclosing_loop(dst)
        K = E = None
        value_pats = []
        if isinstance(loop, ast.For) and isinstance(loop.target, ast.Name) and isinstance(loop.iter, ast.Name):
            K, E = loop.target.id, loop.iter.id
            value_pats = ["%s[%s]" % (E, K)]
        elif isinstance(loop, ast.For) and isinstance(loop.target, ast.Tuple) and len(loop.target.elts) == 2 \
                and all(isinstance(t, ast.Name) for t in loop.target.elts) and X.m("_E.items()", loop.iter) is not None \
                and isinstance(X.m("_E.items()", loop.iter)['_E'], ast.Name):
            K, E = loop.target.elts[0].id, X.m("_E.items()", loop.iter)['_E'].id
            value_pats = [loop.target.elts[1].id, "%s[%s]" % (E, K)]
        elif isinstance(loop, ast.For) and isinstance(loop.target, ast.Tuple) and len(loop.target.elts) == 2 \
                and all(isinstance(t, ast.Name) for t in loop.target.elts) and X.m("_E.items()", loop.iter) is not None \
                and isinstance(X.m("_E.items()", loop.iter)['_E'], ast.Call):
            # the sibling dict is handed out by a helper and consumed at once
            K, E = loop.target.elts[0].id, unparse(X.m("_E.items()", loop.iter)['_E'])
            value_pats = [loop.target.elts[1].id]
        else:
            raise AnalysisError('gen_var_and_func_samples: sibling loop not recognised')
        # where the sibling dict comes from: the in-line search over the arguments, or a helper that performs it
        src_call = X.m("_E.items()", loop.iter)['_E'] if X.m("_E.items()", loop.iter) is not None else None
        if isinstance(src_call, ast.Name):
            d_ = [x for x in walk_own(fn) if isinstance(x, ast.Assign) and len(x.targets) == 1 and X.is_name(x.targets[0], src_call.id)]
            src_call = d_[0].value if len(d_) == 1 else None
        if isinstance(src_call, ast.Call) and nf.callee_name(src_call) not in (None, 'dict', 'list', 'sorted'):
            _sibling_selector(r, idx, fi, src_call)
        vtext = value_pats[0]
        understood = X.only_calls([loop], {'append', 'DependentSampler', 'MissingInput', 'items', 'format'})
        construct = 'gen_var_and_func_samples: a sibling becomes DependentSampler(formula=<its formula>) under its own name'
        sb = X.m(X.spat("%s[_KEY] = DependentSampler(formula=_F)" % SF), dst_pat or dst)
        if sb is None:
            sb = X.m(X.spat("%s[_KEY] = DependentSampler({'formula': _F})" % SF), dst_pat or dst)
        pairs = None
        if sb is None:
            # (name, sampler) pairs collected in a list that is merged into the sampler table afterwards
            pb = X.m(X.spat("_P.append((_KEY, DependentSampler(formula=_F)))"), dst)
            if pb is not None and isinstance(pb['_P'], ast.Name):
                PS = X.aliases(fn, pb['_P'].id)
                pinit = [x for x in walk_own(fn) if isinstance(x, ast.Assign) and len(x.targets) == 1 and X.is_name(x.targets[0], pb['_P'].id)]
                merged = [st_ for n_ in PS for st_, _ in X.find_stmts(fn, "%s.update(%s)" % (SF, n_))]
                others = [x for x in walk_own(fn) if isinstance(x, ast.Attribute) and isinstance(x.value, ast.Name) and x.value.id in PS
                          and x.attr != 'append' and isinstance(parent(x), ast.Call)]
                if len(pinit) == 1 and isinstance(pinit[0].value, ast.List) and not pinit[0].value.elts and X.enclosing_loop(pinit[0]) is None \
                        and len(merged) == 1 and not others and X.dominates(fi, loop, merged[0]) and not X.in_subtree(merged[0], loop):
                    sb, pairs = pb, PS
        if sb is None:
            r.undecided(construct, 'statement not recognised: %s' % short(dst), lib.loc(fi, dst))
        else:
            probs = []
            if not X.is_name(sb['_KEY'], K):
                probs.append('stored under `%s`' % short(sb['_KEY']))
            if X.any_match(value_pats, sb['_F']) is None:
                if X.is_name(sb['_F'], K):
                    probs.append('the formula is the sibling\'s *name* `%s` instead of its formula %s (a self-reference, reported as circular)' % (K, vtext))
                else:
                    raise AnalysisError('sibling formula not recognised: %s' % short(sb['_F']))
            r.check(not probs, construct, short(dst), '; '.join(probs), lib.loc(fi, dst), expected='%s[%s] = DependentSampler(formula=%s)' % (SF, K, vtext))
        construct = 'gen_var_and_func_samples: every sibling is declared as a variable'
        apps = X.find_stmts(loop, "%s.append(%s)" % (VARS, K), own=False) or (
            (X.find_stmts(fn, "%s.extend(%s)" % (VARS, E)) or X.find_stmts(fn, "%s += list(%s)" % (VARS, E))) if '(' not in E else [])
        if not apps and pairs:
            for n_ in pairs:
                for ptn in ("%s.extend((_N for _N, __ in %s))", "%s.extend([_N for _N, __ in %s])", "%s += [_N for _N, __ in %s]"):
                    apps = apps or X.find_stmts(fn, ptn % (VARS, n_))
        if apps:
            r.ok(construct, short(apps[0][0]), lib.loc(fi, apps[0][0]))
        else:
            X.absent(r, construct, 'siblings are not added to the variable list: they get a sampler but no value, so sibling references are '
                     'undefined', lib.loc(fi, loop), understood=understood and X.only_calls(
                         [x for x in fn.body if not X.in_subtree(loop, x)],
                         {'append', 'extend', 'isinstance', 'all', 'startswith', 'generate_variable_list', 'gen_symbols_samples', 'list', 'keys',
                          'values', 'items'}))
        construct = 'gen_var_and_func_samples: an empty sibling raises MissingInput before its sampler is built'
        tests = [s for s in ast.walk(loop) if isinstance(s, ast.If) and any(isinstance(x, ast.Raise) for x in ast.walk(s))]
        if not tests:
            X.absent(r, construct, 'no check for an empty sibling: DependentSampler(formula="") is built and the student gets a configuration '
                     'error instead of "a required input is missing"', lib.loc(fi, loop), expected="if entry[k] == '': raise MissingInput",
                     understood=understood and not any(isinstance(x, (ast.Raise, ast.Assert)) for x in ast.walk(loop)))
        else:
            t = tests[0]
            res = nf.classify(["%s == ''" % v for v in value_pats] + ["not %s" % v for v in value_pats], t.test)
            verdict(r, construct, res, lib.loc(fi, t), short(t.test), expected="entry[k] == ''")
            ok, classes = X.body_raises(t.body)
            r.check(ok and classes == {'MissingInput'} and X.dominates(fi, t, lib.enclosing_stmt(ds[0])), construct + ' [class, order]', 'MissingInput, before DependentSampler',
                    'the check raises %s / does not precede the construction of the sampler' % (sorted(classes) or 'nothing'), lib.loc(fi, t))
        # gen_symbols_samples calls
        calls = lib.calls_named(fn, 'gen_symbols_samples')
        if len(calls) != 2:
            raise AnalysisError('gen_var_and_func_samples: expected two gen_symbols_samples calls')
        params = idx.func(GSS).params
        wants = [('variables', {'symbols': [VARS], 'samples': ["self.config['samples']"], 'sample_from': [SF], 'functions': ['self.functions'],
                                'suffixes': ['self.suffixes'], 'constants': ['self.constants']}),
                 ('random functions', {'symbols': ['list(self.random_funcs.keys())', 'list(self.random_funcs)', 'sorted(self.random_funcs)'],
                                       'samples': ["self.config['samples']"], 'sample_from': ['self.random_funcs'],
                                       'functions': ['self.functions'], 'suffixes': ['self.suffixes'], 'constants': ['{}', 'dict()']})]
        known = ['self.functions', 'self.suffixes', 'self.constants', 'self.random_funcs', '{}', "self.config['samples']", VARS, SF]
        order = sorted(calls, key=lambda c: 0 if X.mentions(c, VARS) else 1)
        for (label, want), c in zip(wants, order):
            bound = X.bind_call(c, params)
            probs = []
            for role, alts in want.items():
                got = bound.get(role)
                if got is None:
                    probs.append('%s missing' % role)
                elif X.any_match(alts, got) is None and X.any_match(alts, _inline_keep(got, fn, {VARS, SF})) is not None:
                    pass                  # the value is bound to a local first (e.g. num_samples = self.config['samples'])
                elif X.any_match(alts, got) is None:
                    if any(X.m(k, got) is not None for k in known):
                        probs.append('%s=%s instead of %s' % (role, short(got), alts[0]))
                    else:
                        raise AnalysisError('argument %s=%s not recognised' % (role, short(got)))
            r.check(not probs, 'gen_var_and_func_samples: gen_symbols_samples(%s) receives every argument in its role' % label,
                    short(c, 100), '; '.join(probs) + (': constants would be missing from the samples and from dependent formulas'
                                                      if any('constants' in p for p in probs) else ''), lib.loc(fi, c))
        # return order
        construct = 'gen_var_and_func_samples: returns (variable samples, function samples)'
        rets = lib.returns_of(fn)
        okr = len(rets) == 1 and isinstance(rets[0].value, ast.Tuple) and len(rets[0].value.elts) == 2
        if okr:
            v0 = lib.inline_locals(rets[0].value.elts[0], fn)
            v1 = lib.inline_locals(rets[0].value.elts[1], fn)
            same = lambda v, c: isinstance(v, ast.Call) and (nf.equal(v, c) or nf.equal(v, lib.inline_locals(c, fn)))
            if same(v0, order[0]) and same(v1, order[1]):
                r.ok(construct, '', lib.loc(fi, rets[0]))
            elif same(v0, order[1]) and same(v1, order[0]):
                r.violation(construct, 'the two sample lists are returned in the opposite order', lib.loc(fi, rets[0]))
            else:
                r.undecided(construct, 'returned values not recognised', lib.loc(fi, rets[0]))
        else:
            r.undecided(construct, 'return not recognised', fi.loc)


def _inline_keep(expr, fn, keep):
    """lib.inline_locals, but the locals named in `keep` stay as names."""
    env = {k: v for k, v in lib.local_env(fn).items() if k not in keep}
    cur = expr
    for _ in range(4):
        new = nf.subst(cur, env)
        if ast.dump(new) == ast.dump(cur):
            break
        cur = new
    return cur


def _sibling_selector(r, idx, fi, call):
    """The helper that hands out the sibling dict: a search loop over its argument returning the first dict all of whose
    keys start with 'sibling_' (the in-line original stops at the first such dict too: `break`)."""
    construct = 'gen_var_and_func_samples: the sibling dict is the first dict argument whose keys all start with sibling_'
    try:
        targets, how = idx.resolve_call(getattr(fi, 'original', fi), call)
    except Exception:
        targets = []
    fts = [t for t in targets if hasattr(t, 'node')]
    if len(fts) != 1:
        r.undecided(construct, 'source of the sibling dict not resolved: %s' % short(call), lib.loc(fi, call))
        return
    h = fts[0]
    params = [p_ for p_ in h.params if p_ not in ('self', 'cls')]
    loops = [l for l in walk_own(h.node) if isinstance(l, (ast.For, ast.While))]
    rets = lib.returns_of(h.node)
    ok = len(call.args) == 1 and X.is_name(call.args[0], 'args') and len(params) == 1 and len(loops) == 1 and isinstance(loops[0], ast.For) \
        and X.is_name(loops[0].iter, params[0]) and isinstance(loops[0].target, ast.Name) and not loops[0].orelse \
        and not any(isinstance(x, ast.Break) for x in ast.walk(loops[0]))
    if ok:
        e = loops[0].target.id
        inside = [x for x in rets if X.in_subtree(x, loops[0])]
        outside = [x for x in rets if not X.in_subtree(x, loops[0])]
        empty = lambda v: v is None or (isinstance(v, ast.Constant) and v.value is None) or (isinstance(v, ast.Dict) and not v.keys) \
            or X.m("dict()", v) is not None
        ok = len(inside) == 1 and X.is_name(inside[0].value, e) and all(empty(x.value) for x in outside)
        if ok:
            # the return is control dependent on both tests, whatever their layout (nested ifs, `and`, guard-clause continue)
            need = {'dict': False, 'prefix': False}
            for t in [x for x in ast.walk(loops[0]) if isinstance(x, ast.If)]:
                c = nf.canon(t.test)
                parts = list(c.values) if isinstance(c, ast.BoolOp) and isinstance(c.op, ast.And) else [c]
                for q in parts:
                    neg = isinstance(q, ast.UnaryOp) and isinstance(q.op, ast.Not)
                    core = q.operand if neg else q
                    kind = 'dict' if X.m("isinstance(%s, dict)" % e, core) is not None else 'prefix' if X.any_match(
                        ["all([_K.startswith('sibling_') for _K in %s])" % e, "all(_K.startswith('sibling_') for _K in %s)" % e], core) is not None else None
                    if kind and len(parts) == 1 and X.controlled_by(h, t, not neg, inside[0]):
                        need[kind] = True
                    elif kind and not neg and len(parts) > 1 and X.controlled_by(h, t, True, inside[0]):
                        need[kind] = True
            ok = all(need.values())
    if ok:
        left = getattr(idx, 'unreviewed', None)
        if left and h.qualname in left:
            left.remove(h.qualname)
        r.ok(construct, 'search loop of %s' % h.qualname.rsplit('.', 1)[-1], h.loc)
    else:
        r.undecided(construct, 'helper %s not recognised as that search' % h.qualname.rsplit('.', 1)[-1], h.loc)


# ----------------------------------------------------------------------------- D7
def _sf_domain(e):
    """'full' if e ranges over all keys/values of config['sample_from'], 'variables' / 'numbered_vars' for the narrower name
    lists, 'names' for variables + numbered_vars (the full key set by construction of the schema), else None."""
    if isinstance(e, ast.Call) and isinstance(e.func, ast.Name) and e.func.id in ('list', 'sorted', 'set', 'tuple', 'iter') and len(e.args) == 1:
        return _sf_domain(e.args[0])
    if isinstance(e, ast.Call) and isinstance(e.func, ast.Attribute) and e.func.attr in ('keys', 'values', 'items') and not e.args:
        return 'full' if lib.is_config(e.func.value, 'sample_from') else None
    if lib.is_config(e, 'sample_from'):
        return 'full'
    if lib.is_config(e, 'variables'):
        return 'variables'
    if lib.is_config(e, 'numbered_vars'):
        return 'numbered_vars'
    if isinstance(e, ast.BinOp) and isinstance(e.op, ast.Add):
        parts = {_sf_domain(e.left), _sf_domain(e.right)}
        if parts == {'variables', 'numbered_vars'}:
            return 'names'
    return None


def d7_samplers(ctx, idx):
    r = ctx.rule('D7.SAMPLERS', "every enumeration of the grader's sampling sets ranges over config['sample_from'], the one table that "
                 "holds them all (numbered-variable heads have samplers but are not in config['variables'])", floor=1)
    with r:
        n = 0
        for fi in idx.package_funcs():
            if not fi.module.name.startswith('mitxgraders.') or fi.module.name.startswith('mitxgraders.helpers.calc'):
                continue
            gens = []
            for node in walk_own(fi.node):
                if isinstance(node, (ast.ListComp, ast.SetComp, ast.GeneratorExp, ast.DictComp)):
                    for g in node.generators:
                        gens.append((g.target, g.iter, node))
                elif isinstance(node, ast.For):
                    gens.append((node.target, node.iter, node))
            for target, it, scope in gens:
                if not isinstance(target, ast.Name):
                    continue
                looks_up = bool(X.find_exprs(scope, "self.config['sample_from'][%s]" % target.id, own=False))
                dom = _sf_domain(lib.inline_locals(it, fi.node))
                if not looks_up and not (dom == 'full' and any(
                        isinstance(c, ast.Call) and nf.callee_name(c) == 'isinstance' and X.mentions(c, target.id) for c in ast.walk(scope))):
                    continue
                n += 1
                construct = "%s: enumeration of the sampling sets" % fi.qualname.split('mitxgraders.')[-1]
                if dom in ('full', 'names'):
                    r.ok(construct, 'ranges over %s' % short(it), lib.loc(fi, scope))
                elif dom in ('variables', 'numbered_vars'):
                    other = 'the heads of numbered variables' if dom == 'variables' else 'the declared variables'
                    r.violation(construct, "the sampling sets are looked up for the names in config['%s'] only: %s also have samplers in "
                                "config['sample_from'], so e.g. a DependentSampler attached to a numbered-variable head is overlooked (a sibling "
                                "input it depends on is never defined -> 'depend on undefined quantities' for a valid configuration)"
                                % (dom, other), lib.loc(fi, scope), expected="for x in self.config['sample_from']", found=short(it))
                else:
                    r.undecided(construct, 'iteration domain not recognised: %s' % short(it), lib.loc(fi, scope))
        if n == 0:
            raise AnalysisError("no enumeration of config['sample_from'] found")


# ------------------------------------------------------------------------ self-test
_W5_HELPER = ("def validate_no_collisions(config, keys):",
              "def find_numbered_vars(candidates, numbered_vars):\n    regexp = numbered_vars_regexp(numbered_vars)\n"
              "    matches = (regexp.match(candidate) for candidate in sorted(candidates))\n"
              "    return [match.groups() for match in matches if match]\n\ndef validate_no_collisions(config, keys):")
_W5_OLD = ("        bad_vars = set(var for var in vars_used if var not in variable_list)\n        \n"
           "        # Check to see if any unassigned variables are numbered_vars\n"
           "        regexp = numbered_vars_regexp(self.config['numbered_vars'])\n"
           "        for var in bad_vars:\n            match = regexp.match(var)  # Returns None if no match\n            if match:\n"
           "                # This variable is a numbered_variable\n                # Go and add it to variable_list with the appropriate sampler\n"
           "                (full_string, head) = match.groups()\n                variable_list.append(full_string)\n"
           "                sample_from_dict[full_string] = sample_from_dict[head]\n")
_W5_NEW = ("        unassigned = set(vars_used).difference(variable_list)\n"
           "        numbered = find_numbered_vars(unassigned, self.config['numbered_vars'])\n"
           "        for full_string, head in numbered:\n            variable_list.append(full_string)\n"
           "        sample_from_dict.update({\n            full_string: sample_from_dict[head] for full_string, %s in numbered\n        })\n")


_W5J_HELPER = ('def gen_symbols_samples(symbols,',
               'def order_dependents(dependents, available):\n    """\n    Helper function for gen_symbols_samples below.\n    Takes a dictionary mapping dependent symbols to their lists of dependencies and the\n    names that have values before any of them is evaluated. Returns the dependent symbols\n    in an order in which they can be evaluated, following chains as necessary.\n    """\n    available = set(available)\n    unordered = dict(dependents)\n    ordered = []\n    while unordered:\n        ready = [symbol for symbol, dependencies in unordered.items()\n                 if is_subset(dependencies, available)]\n        if not ready:\n            # Two possible causes\n            # 1: Depends on variables that are undefined\n            # Check for this first\n            all_depends = set().union(*unordered.values())\n            bad_items = [item for item in all_depends\n                         if item not in unordered and item not in available]\n            if bad_items:\n                bad_symbols = ", ".join(sorted(bad_items))\n                raise ConfigError("DependentSamplers depend on undefined quantities: " +\n                                  bad_symbols)\n\n            # 2: Circular dependencies\n            bad_symbols = ", ".join(sorted(unordered.keys()))\n            raise ConfigError("Circularly dependent DependentSamplers detected: " +\n                              bad_symbols)\n\n        for symbol in ready:\n            del unordered[symbol]\n        available.update(ready)\n        ordered.extend(ready)\n    return ordered\n\ndef gen_symbols_samples(symbols,')
_W5J_MID = ('    pruned_constants = {sym: constants[sym] for sym in constants if sym not in symbols}\n',
            "    dependents = {\n        symbol: sample_from[symbol].config['depends'] for symbol in symbols\n        if isinstance(sample_from[symbol], DependentSampler)\n    }\n\n    pruned_constants = {sym: constants[sym] for sym in constants if sym not in symbols}\n\n    # The evaluation order of the dependent symbols is the same for every sample\n    evaluation_order = order_dependents(dependents, set(%s).union(independent))\n\n")
_W5J_LOOP = ('        # Generate dependent samples, following chains as necessary\n        unevaluated_dependents = {\n            symbol: sample_from[symbol].config[\'depends\'] for symbol in symbols\n            if isinstance(sample_from[symbol], DependentSampler)\n        }\n        while unevaluated_dependents:\n            progress_made = False\n            for symbol, dependencies in list(unevaluated_dependents.items()):\n                if is_subset(dependencies, sample_dict):\n                    sample_dict[symbol] = sample_from[symbol].compute_sample(\n                        sample_dict, functions, suffixes)\n                    del unevaluated_dependents[symbol]\n                    progress_made = True\n\n            if not progress_made:\n                # Two possible causes\n                # 1: Depends on variables that are undefined\n                # Check for this first\n                all_depends = set()\n                for symbol, dependencies in list(unevaluated_dependents.items()):\n                    for item in dependencies:\n                        all_depends.add(item)\n                bad_items = []\n                for item in all_depends:\n                    if item not in unevaluated_dependents and item not in sample_dict:\n                        bad_items.append(item)\n                if bad_items:\n                    bad_symbols = ", ".join(sorted(bad_items))\n                    raise ConfigError("DependentSamplers depend on undefined quantities: " +\n                                      bad_symbols)\n\n                # 2: Circular dependencies\n                bad_symbols = ", ".join(sorted(unevaluated_dependents.keys()))\n                raise ConfigError("Circularly dependent DependentSamplers detected: " +\n                                  bad_symbols)\n\n',
             '        # Generate dependent samples\n        for symbol in evaluation_order:\n            sample_dict[symbol] = sample_from[symbol].compute_sample(\n                sample_dict, functions, suffixes)\n\n')

_W5R_SPLIT = [('    independent = [\n        symbol for symbol in symbols\n        if not isinstance(sample_from[symbol], DependentSampler)\n    ]\n\n', '    independent, dependent = [], []\n    for symbol in symbols:\n        if isinstance(sample_from[symbol], DependentSampler):\n            dependent.append(symbol)\n        else:\n            independent.append(symbol)\n\n'), ("        unevaluated_dependents = {\n            symbol: sample_from[symbol].config['depends'] for symbol in symbols\n            if isinstance(sample_from[symbol], DependentSampler)\n        }\n", "        unevaluated_dependents = {symbol: sample_from[symbol].config['depends'] for symbol in dependent}\n"), ('            for symbol, dependencies in list(unevaluated_dependents.items()):\n                if is_subset(dependencies, sample_dict):\n                    sample_dict[symbol] = sample_from[symbol].compute_sample(\n                        sample_dict, functions, suffixes)\n                    del unevaluated_dependents[symbol]\n                    progress_made = True\n', '            for symbol in list(unevaluated_dependents):\n                if not is_subset(unevaluated_dependents[symbol], sample_dict):\n                    continue\n                sample_dict[symbol] = sample_from[symbol].compute_sample(sample_dict, functions, suffixes)\n                del unevaluated_dependents[symbol]\n                progress_made = True\n')]
_W5R_MATCH = [("        regexp = numbered_vars_regexp(self.config['numbered_vars'])\n        for var in bad_vars:\n            match = regexp.match(var)  # Returns None if no match\n            if match:\n                # This variable is a numbered_variable\n                # Go and add it to variable_list with the appropriate sampler\n                (full_string, head) = match.groups()\n                variable_list.append(full_string)\n                sample_from_dict[full_string] = sample_from_dict[head]\n\n", '        for full_string, head in self._match_numbered_vars(bad_vars):\n            variable_list.append(full_string)\n            sample_from_dict[full_string] = sample_from_dict[head]\n\n'), ('    def generate_variable_list(self, expressions):\n', "    def _match_numbered_vars(self, candidates):\n        regexp = numbered_vars_regexp(self.config['numbered_vars'])\n        matches = [regexp.match(var) for var in candidates]\n        return [match.groups() for match in matches if match]\n\n    def generate_variable_list(self, expressions):\n")]

_W6_HELPERS = ('def gen_symbols_samples(symbols,', 'def evaluate_ready_dependents(pending, sample_dict, sample_from, functions, suffixes):\n    """\n    Helper function for gen_symbols_samples below.\n    Makes one pass over the pending dependent symbols (a dictionary symbol -> dependencies),\n    evaluating into sample_dict each one whose dependencies are all available by the time it\n    is visited, and removing it from pending. Returns the list of symbols evaluated.\n    """\n    evaluated = []\n    for symbol, dependencies in list(pending.items()):\n        if is_subset(dependencies, sample_dict):\n            sample_dict[symbol] = sample_from[symbol].compute_sample(\n                sample_dict, functions, suffixes)\n            del pending[symbol]\n            evaluated.append(symbol)\n    return evaluated\n\ndef find_undefined_quantities(pending, sample_dict):\n    """Lists the dependencies of pending symbols that nothing will ever provide"""\n    all_depends = set().union(*pending.values())\n    return [item for item in all_depends\n            if item not in pending and item not in sample_dict]\n\ndef find_circular_dependents(pending, sample_dict):\n    """Lists the pending symbols that are waiting on another symbol that is itself pending"""\n    return [symbol for symbol, dependencies in pending.items()\n%s\n# Possible causes for no pending DependentSampler being ready for evaluation.\n# The first cause that names any culprits is the one reported.\nSTALLED_DEPENDENTS_CAUSES = [\n    (find_undefined_quantities, "DependentSamplers depend on undefined quantities: "),\n    (find_circular_dependents, "Circularly dependent DependentSamplers detected: "),\n]\n\ndef report_stalled_dependents(pending, sample_dict):\n    """\n    Helper function for gen_symbols_samples below.\n    Raises the ConfigError explaining why none of the pending symbols can be evaluated.\n    """\n    for find_culprits, message in STALLED_DEPENDENTS_CAUSES:\n        culprits = find_culprits(pending, sample_dict)\n        if culprits:\n            raise ConfigError(message + ", ".join(sorted(culprits)))\n\ndef gen_symbols_samples(symbols,')
_W6_MID = ('    pruned_constants = {sym: constants[sym] for sym in constants if sym not in symbols}\n', "    dependents = {\n        symbol: sample_from[symbol].config['depends'] for symbol in symbols\n        if isinstance(sample_from[symbol], DependentSampler)\n    }\n\n    pruned_constants = {sym: constants[sym] for sym in constants if sym not in symbols}\n")
_W6_LOOP = ('        unevaluated_dependents = {\n            symbol: sample_from[symbol].config[\'depends\'] for symbol in symbols\n            if isinstance(sample_from[symbol], DependentSampler)\n        }\n        while unevaluated_dependents:\n            progress_made = False\n            for symbol, dependencies in list(unevaluated_dependents.items()):\n                if is_subset(dependencies, sample_dict):\n                    sample_dict[symbol] = sample_from[symbol].compute_sample(\n                        sample_dict, functions, suffixes)\n                    del unevaluated_dependents[symbol]\n                    progress_made = True\n\n            if not progress_made:\n                # Two possible causes\n                # 1: Depends on variables that are undefined\n                # Check for this first\n                all_depends = set()\n                for symbol, dependencies in list(unevaluated_dependents.items()):\n                    for item in dependencies:\n                        all_depends.add(item)\n                bad_items = []\n                for item in all_depends:\n                    if item not in unevaluated_dependents and item not in sample_dict:\n                        bad_items.append(item)\n                if bad_items:\n                    bad_symbols = ", ".join(sorted(bad_items))\n                    raise ConfigError("DependentSamplers depend on undefined quantities: " +\n                                      bad_symbols)\n\n                # 2: Circular dependencies\n                bad_symbols = ", ".join(sorted(unevaluated_dependents.keys()))\n                raise ConfigError("Circularly dependent DependentSamplers detected: " +\n                                  bad_symbols)\n\n', '        unevaluated_dependents = dependents.copy()\n        while unevaluated_dependents:\n            if not evaluate_ready_dependents(unevaluated_dependents, sample_dict,\n                                             sample_from, functions, suffixes):\n                report_stalled_dependents(unevaluated_dependents, sample_dict)\n\n')
_W6_SLIP = '            if any(item in pending for item in dependencies if item != symbol)]\n'

_W6R_GEN = ('def gen_symbols_samples(symbols, samples, sample_from, functions, suffixes, constants):\n', "def _dependent_items(symbols, sample_from):\n    for symbol in symbols:\n        sampler = sample_from[symbol]\n        if @@NOT@@isinstance(sampler, DependentSampler):\n            yield symbol, sampler.config['depends']\n\ndef gen_symbols_samples(symbols, samples, sample_from, functions, suffixes, constants):\n")
_W6R_PENDING = ("        unevaluated_dependents = {\n            symbol: sample_from[symbol].config['depends'] for symbol in symbols\n            if isinstance(sample_from[symbol], DependentSampler)\n        }\n", '        unevaluated_dependents = dict(_dependent_items(symbols, sample_from))\n')
_W6R_FRESH = ('        sample_dict = pruned_constants.copy()\n        sample_dict.update({\n            symbol: sample_from[symbol].gen_sample() for symbol in independent\n        })\n', '        fresh = pruned_constants.copy()\n        fresh.update({\n            symbol: sample_from[symbol].gen_sample() for symbol in independent\n        })\n        sample_dict = fresh\n')

MUTANTS = [
    Mutant('stall-report-silent-for-self-reference', SAMPLING, [(_W6_HELPERS[0], _W6_HELPERS[1] % _W6_SLIP), _W6_MID, _W6_LOOP], None, 'D1'),
    Mutant('partition-loop-branches-swapped', SAMPLING, [(_W5R_SPLIT[0][0], _W5R_SPLIT[0][1].replace('dependent.append(symbol)\n        else:\n            independent.append(symbol)', 'independent.append(symbol)\n        else:\n            dependent.append(symbol)')), _W5R_SPLIT[1], _W5R_SPLIT[2]], None, 'D2'),
    Mutant('numbered-helper-appends-head', MH, [(_W5R_MATCH[0][0], _W5R_MATCH[0][1].replace('variable_list.append(full_string)', 'variable_list.append(head)')), _W5R_MATCH[1]], None, 'D5'),
    Mutant('planned-order-never-makes-ready-available', SAMPLING, [(_W5J_HELPER[0], _W5J_HELPER[1].replace("        available.update(ready)\n", "")),
                                                                   (_W5J_MID[0], _W5J_MID[1] % 'pruned_constants'), _W5J_LOOP], None, 'D1'),
    Mutant('planned-order-without-independents', SAMPLING, [_W5J_HELPER, (_W5J_MID[0], _W5J_MID[1].replace('.union(independent)', '') % 'pruned_constants'), _W5J_LOOP], None, 'D3'),
    Mutant('planned-order-counts-shadowed-constants', SAMPLING, [_W5J_HELPER, (_W5J_MID[0], _W5J_MID[1] % 'constants'), _W5J_LOOP], None, 'D3'),
    Mutant('numbered-pairs-stale-head', MH, [_W5_HELPER, (_W5_OLD, _W5_NEW % '_')], None, 'D5'),
    Mutant('circular-raise-removed', SAMPLING, "                bad_symbols = \", \".join(sorted(unevaluated_dependents.keys()))\n                raise ConfigError(\"Circularly dependent DependentSamplers detected: \" +\n                                  bad_symbols)\n",
           "                bad_symbols = \", \".join(sorted(unevaluated_dependents.keys()))\n", 'D1'),
    Mutant('circular-breaks-out', SAMPLING, "                raise ConfigError(\"Circularly dependent DependentSamplers detected: \" +\n                                  bad_symbols)\n",
           "                break\n", 'D1'),
    Mutant('flag-reset-once', SAMPLING, "        while unevaluated_dependents:\n            progress_made = False\n", "        progress_made = False\n        while unevaluated_dependents:\n", 'D1'),
    Mutant('flag-set-without-progress', SAMPLING, "                    del unevaluated_dependents[symbol]\n                    progress_made = True\n",
           "                    del unevaluated_dependents[symbol]\n                progress_made = True\n", 'D1'),
    Mutant('flag-overwritten-per-dependent', SAMPLING, "                if is_subset(dependencies, sample_dict):\n                    sample_dict[symbol] = sample_from[symbol].compute_sample(\n                        sample_dict, functions, suffixes)\n                    del unevaluated_dependents[symbol]\n                    progress_made = True\n",
           "                progress_made = is_subset(dependencies, sample_dict)\n                if progress_made:\n                    sample_dict[symbol] = sample_from[symbol].compute_sample(\n                        sample_dict, functions, suffixes)\n                    del unevaluated_dependents[symbol]\n", 'D1'),
    Mutant('dependent-not-removed', SAMPLING, "                    del unevaluated_dependents[symbol]\n", "", 'D1'),
    Mutant('circular-error-class', SAMPLING, "                raise ConfigError(\"Circularly dependent DependentSamplers detected: \" +", "                raise ValueError(\"Circularly dependent DependentSamplers detected: \" +", 'D1'),
    Mutant('constants-not-pruned', SAMPLING, "    pruned_constants = {sym: constants[sym] for sym in constants if sym not in symbols}", "    pruned_constants = dict(constants)", 'D2'),
    Mutant('constants-pruned-by-sampler-table', SAMPLING, "for sym in constants if sym not in symbols}", "for sym in constants if sym not in sample_from}", 'D2'),
    Mutant('samplers-enumerated-over-declared-variables', FG, "                    for x in self.config['sample_from']\n", "                    for x in self.config['variables']\n", 'D7'),
    Mutant('constants-not-included', SAMPLING, "        sample_dict = pruned_constants.copy()", "        sample_dict = {}", 'D2'),
    Mutant('samples-share-one-dict', SAMPLING, "        sample_dict = pruned_constants.copy()", "        sample_dict = pruned_constants", 'D2'),
    Mutant('readiness-test-dropped', SAMPLING, "                if is_subset(dependencies, sample_dict):", "                if True:", 'D3'),
    Mutant('readiness-test-arguments-swapped', SAMPLING, "                if is_subset(dependencies, sample_dict):", "                if is_subset(sample_dict, dependencies):", 'D3'),
    Mutant('is-subset-inverted', SAMPLING, "        if item not in iterable_superset:\n            return False", "        if item in iterable_superset:\n            return False", 'D3'),
    Mutant('is-subset-answers-after-first-item', SAMPLING, "        if item not in iterable_superset:\n            return False\n    return True", "        if item not in iterable_superset:\n            return False\n        return True\n    return True", 'D3'),
    Mutant('independents-are-the-dependents', SAMPLING, "        if not isinstance(sample_from[symbol], DependentSampler)\n    ]", "        if isinstance(sample_from[symbol], DependentSampler)\n    ]", 'D2'),
    Mutant('computed-from-the-constants-only', SAMPLING, "                    sample_dict[symbol] = sample_from[symbol].compute_sample(\n                        sample_dict, functions, suffixes)",
           "                    sample_dict[symbol] = sample_from[symbol].compute_sample(\n                        pruned_constants, functions, suffixes)", 'D3'),
    Mutant('functions-suffixes-swapped', SAMPLING, "                        sample_dict, functions, suffixes)", "                        sample_dict, suffixes, functions)", 'D3'),
    Mutant('independents-drawn-once', SAMPLING, "    # Generate the samples\n    sample_list = []\n    for _ in range(samples):\n        # Generate independent samples\n        sample_dict = pruned_constants.copy()\n        sample_dict.update({\n            symbol: sample_from[symbol].gen_sample() for symbol in independent\n        })\n",
           "    # Generate the samples\n    sample_list = []\n    draws = {\n        symbol: sample_from[symbol].gen_sample() for symbol in independent\n    }\n    for _ in range(samples):\n        # Generate independent samples\n        sample_dict = pruned_constants.copy()\n        sample_dict.update(draws)\n", 'D2'),
    Mutant('one-sample-too-few', SAMPLING, "    for _ in range(samples):", "    for _ in range(samples - 1):", 'D2'),
    Mutant('depends-not-inferred', SAMPLING, "            self.config['depends'] = list(parsed.variables_used)\n", "", 'D4'),
    Mutant('depends-from-functions', SAMPLING, "            self.config['depends'] = list(parsed.variables_used)", "            self.config['depends'] = list(parsed.functions_used)", 'D4'),
    Mutant('init-calcerror-not-translated', SAMPLING, "            self.config['depends'] = list(parsed.variables_used)\n        except CalcError:", "            self.config['depends'] = list(parsed.variables_used)\n        except ValueError:", 'D4'),
    Mutant('compute-calcerror-not-translated', SAMPLING, "                                  suffixes=suffixes)\n        except CalcError:", "                                  suffixes=suffixes)\n        except ValueError:", 'D4'),
    Mutant('compute-returns-usage', SAMPLING, "            result, _ = evaluator(formula=self.config['formula'],", "            _, result = evaluator(formula=self.config['formula'],", 'D4'),
    Mutant('compute-ignores-sample', SAMPLING, "                                  variables=sample_dict,", "                                  variables={},", 'D4'),
    Mutant('gen-sample-returns', SAMPLING, "        raise Exception(\"DependentSampler must be invoked with compute_sample.\")", "        return 0", 'D4'),
    Mutant('regexp-end-anchor-dropped', MH, "              r\"})$\")  # match closing", "              r\"})\")  # match closing", 'D5'),
    Mutant('regexp-leading-zeros', MH, "              r\"(?:[-]?[1-9]\\d*|0)\"", "              r\"(?:[-]?\\d+)\"", 'D5'),
    Mutant('regexp-sign-dropped', MH, "              r\"(?:[-]?[1-9]\\d*|0)\"", "              r\"(?:[1-9]\\d*|0)\"", 'D5'),
    Mutant('regexp-heads-ungrouped', MH, "    regexp = (r\"^((\" + head_list + \")\"", "    regexp = (r\"^(\" + head_list + \"\"", 'D5'),
    Mutant('regexp-index-alternation-ungrouped', MH, "              r\"(?:[-]?[1-9]\\d*|0)\"", "              r\"[-]?[1-9]\\d*|0\"", 'D5'),
    Mutant('groups-exchanged', MH, "                (full_string, head) = match.groups()", "                (head, full_string) = match.groups()", 'D5'),
    Mutant('head-appended', MH, "                variable_list.append(full_string)", "                variable_list.append(head)", 'D5'),
    Mutant('own-sampler-looked-up', MH, "                sample_from_dict[full_string] = sample_from_dict[head]", "                sample_from_dict[full_string] = sample_from_dict[self.config['numbered_vars'][0]]", 'D5'),
    Mutant('declared-names-rematched', MH, "        bad_vars = set(var for var in vars_used if var not in variable_list)", "        bad_vars = set(vars_used)", 'D5'),
    Mutant('all-used-names-matched', MH, "        for var in bad_vars:", "        for var in vars_used:", 'D5'),
    Mutant('variables-extended-in-place', MH, "        variable_list = list(self.config['variables'])", "        variable_list = self.config['variables']", 'D5'),
    Mutant('sample-from-extended-in-place', MH, "        sample_from_dict = self.config['sample_from'].copy()", "        sample_from_dict = self.config['sample_from']", 'D5'),
    Mutant('user-constants-do-not-override', SAMPLING, "        constants[var] = user_consts[var]", "        constants.setdefault(var, user_consts[var])", 'D6'),
    Mutant('defaults-extended-in-place', SAMPLING, "    constants = default_variables.copy()", "    constants = default_variables", 'D6'),
    Mutant('siblings-without-constants', MH, "                                          self.suffixes,\n                                          self.constants)", "                                          self.suffixes,\n                                          {})", 'D6'),
    Mutant('empty-sibling-accepted', MH, "                        if entry[k] == '':\n                            raise MissingInput('Cannot grade answer, a required input is missing.')\n", "", 'D6'),
    Mutant('sibling-formula-is-its-name', MH, "                        sample_from_dict[k] = DependentSampler(formula=entry[k])", "                        sample_from_dict[k] = DependentSampler(formula=k)", 'D6'),
    Mutant('sibling-not-declared', MH, "                        variables.append(k)\n", "", 'D6'),
    Mutant('sibling-functions-suffixes-swapped', MH, "                                          sample_from_dict,\n                                          self.functions,\n                                          self.suffixes,",
           "                                          sample_from_dict,\n                                          self.suffixes,\n                                          self.functions,", 'D6'),
    Mutant('dict-values-not-searched', MH, "                expressions += [v for k, v in entry.items()]", "                pass", 'D6'),
]

BENIGN = [
    Benign('pending-from-pairs-generator', SAMPLING, [(_W6R_GEN[0], _W6R_GEN[1].replace('@@NOT@@', '')), _W6R_PENDING, _W6R_FRESH], None),
    Benign('stall-report-as-cause-table', SAMPLING, [(_W6_HELPERS[0], _W6_HELPERS[1] % _W6_SLIP.replace(' if item != symbol', '')), _W6_MID, _W6_LOOP], None),
    Benign('partition-loop-and-keys-loop', SAMPLING, _W5R_SPLIT, None),
    Benign('numbered-matches-from-helper', MH, _W5R_MATCH, None),
    Benign('evaluation-order-planned-once', SAMPLING, [_W5J_HELPER, (_W5J_MID[0], _W5J_MID[1] % 'pruned_constants'), _W5J_LOOP], None),
    Benign('numbered-pairs-by-comprehension', MH, [_W5_HELPER, (_W5_OLD, _W5_NEW % 'head')], None),
    Benign('progress-flag-snapshot', SAMPLING, "            if not progress_made:\n", "            made_progress = progress_made\n            if not made_progress:\n"),
    Benign('evaluator-called-positionally', SAMPLING, "            result, _ = evaluator(formula=self.config['formula'],\n                                  variables=sample_dict,\n                                  functions=functions,\n                                  suffixes=suffixes)",
           "            formula = self.config['formula']\n            result, _ = evaluator(formula, sample_dict, functions, suffixes)"),
    Benign('samplers-enumerated-by-values', FG, "        samplers = [self.config['sample_from'][x]\n                    for x in self.config['sample_from']\n                    if isinstance(self.config['sample_from'][x], DependentSampler)]",
           "        samplers = [s for s in self.config['sample_from'].values() if isinstance(s, DependentSampler)]"),
    Benign('constants-pruned-with-redundant-test', SAMPLING, "for sym in constants if sym not in symbols}", "for sym in constants if not (sym in symbols and sym in sample_from)}"),
    Benign('regexp-from-format-template', MH, "    regexp = (r\"^((\" + head_list + \")\"  # Start and match any head (capture full string, head)\n              r\"_{\"  # match _{\n              r\"(?:[-]?[1-9]\\d*|0)\"  # match number pattern\n              r\"})$\")  # match closing }, close group, and end of string\n",
           "    regexp = r'^(({heads})_{{{number}}})$'.format(heads=head_list, number=r'(?:[-]?[1-9]\\d*|0)')\n"),
    Benign('progress-by-size-comparison', SAMPLING, "            progress_made = False\n            for symbol, dependencies in list(unevaluated_dependents.items()):\n                if is_subset(dependencies, sample_dict):\n                    sample_dict[symbol] = sample_from[symbol].compute_sample(\n                        sample_dict, functions, suffixes)\n                    del unevaluated_dependents[symbol]\n                    progress_made = True\n\n            if not progress_made:",
           "            waiting = len(unevaluated_dependents)\n            for symbol, dependencies in list(unevaluated_dependents.items()):\n                if is_subset(dependencies, sample_dict):\n                    sample_dict[symbol] = sample_from[symbol].compute_sample(\n                        sample_dict, functions, suffixes)\n                    del unevaluated_dependents[symbol]\n\n            if len(unevaluated_dependents) == waiting:"),
    Benign('match-guard-clause', MH, "            if match:\n                # This variable is a numbered_variable\n                # Go and add it to variable_list with the appropriate sampler\n                (full_string, head) = match.groups()\n                variable_list.append(full_string)\n                sample_from_dict[full_string] = sample_from_dict[head]\n",
           "            if match is None:\n                continue\n            (full_string, head) = match.groups()\n            variable_list.append(full_string)\n            sample_from_dict[full_string] = sample_from_dict[head]\n"),
    Benign('sibling-loop-over-items', MH, "                    for k in entry:\n                        variables.append(k)\n                        if entry[k] == '':\n                            raise MissingInput('Cannot grade answer, a required input is missing.')\n                        sample_from_dict[k] = DependentSampler(formula=entry[k])\n",
           "                    for k, formula in entry.items():\n                        variables.append(k)\n                        if formula == '':\n                            raise MissingInput('Cannot grade answer, a required input is missing.')\n                        sample_from_dict[k] = DependentSampler(formula=formula)\n"),
    Benign('readiness-guard-clause', SAMPLING, "                if is_subset(dependencies, sample_dict):\n                    sample_dict[symbol] = sample_from[symbol].compute_sample(\n                        sample_dict, functions, suffixes)\n                    del unevaluated_dependents[symbol]\n                    progress_made = True\n",
           "                if not is_subset(dependencies, sample_dict):\n                    continue\n                sample_dict[symbol] = sample_from[symbol].compute_sample(\n                    sample_dict, functions, suffixes)\n                del unevaluated_dependents[symbol]\n                progress_made = True\n"),
    Benign('dict-values-extended', MH, "                expressions += [v for k, v in entry.items()]", "                expressions.extend(entry.values())"),
    Benign('flag-tested-with-is-false', SAMPLING, "            if not progress_made:", "            if progress_made is False:"),
    Benign('dependent-popped', SAMPLING, "                    del unevaluated_dependents[symbol]\n", "                    unevaluated_dependents.pop(symbol)\n"),
    Benign('is-subset-guard-clause', SAMPLING, "        if item not in iterable_superset:\n            return False\n    return True", "        if item in iterable_superset:\n            continue\n        return False\n    return True"),
    Benign('is-subset-with-all', SAMPLING, "    for item in iterable:\n        if item not in iterable_superset:\n            return False\n    return True",
           "    return all(item in iterable_superset for item in iterable)"),
    Benign('constants-merged-with-update', SAMPLING, "    for var in user_consts:\n        constants[var] = user_consts[var]\n", "    constants.update(user_consts)\n"),
    Benign('regexp-applied-with-fullmatch', MH, "            match = regexp.match(var)  # Returns None if no match", "            match = regexp.fullmatch(var)"),
    Benign('regexp-start-anchor-dropped', MH, "    regexp = (r\"^((\" + head_list + \")\"", "    regexp = (r\"((\" + head_list + \")\""),
    Benign('regexp-digit-class', MH, "              r\"(?:[-]?[1-9]\\d*|0)\"", "              r\"(?:-?[1-9][0-9]*|0)\""),
    Benign('heads-joined-by-comprehension', MH, "    head_list = '|'.join(map(re.escape, numbered_vars))", "    head_list = '|'.join(re.escape(h) for h in numbered_vars)"),
    Benign('undefined-diagnosis-merged', SAMPLING, "                if bad_items:\n                    bad_symbols = \", \".join(sorted(bad_items))\n                    raise ConfigError(\"DependentSamplers depend on undefined quantities: \" +\n                                      bad_symbols)\n",
           "                if bad_items:\n                    raise ConfigError(\"DependentSamplers depend on undefined quantities: \" +\n                                      \", \".join(sorted(bad_items)))\n"),
]
