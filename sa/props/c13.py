"""C13 -- sampled variable sets are complete and dependent values are consistent.

D1 is a control-flow rule (E4) on the fixed-point loop of `gen_symbols_samples`.  D2/D3/D4/D6 are
decided by bounded evaluation (E7d, `_c13_enum`) of the syntax trees of `gen_symbols_samples`,
`is_subset`, `DependentSampler.__init__/compute_sample/gen_sample`, `construct_constants`,
`generate_variable_list` (+ `numbered_vars_regexp`) and `gen_var_and_func_samples` over small
dependency graphs / name sets taken from the property statement, with model objects standing for
sampling sets, the parser and the evaluator.  D5 adds the regex term analysis of E9 (`_c13_regex`)
with the joined list of heads as a hole.  Nothing of /repo is imported or executed.
"""
import ast
import itertools
import re

from ..index import AnalysisError, walk_own, short, unparse
from ..cfg import cfg_of
from .. import nf, lib
from ..selftest import Mutant, Benign
from ._c13_enum import (Interp, Model, Obj, Sym, Native, Raised, Budget, ClassRef, FuncRef, describe)
from . import _c13_regex as rx
from re import _constants as sre_c

ID = 'C13'
SAMPLING = 'mitxgraders/sampling.py'
MH = 'mitxgraders/helpers/math_helpers.py'
FILES = [SAMPLING, MH]

EXPLANATION = (
    "(D1, CFG) in gen_symbols_samples' `while <unevaluated dependents>` loop the progress flag is reset on every "
    "round before it is tested, it is set only where a dependent has just been removed from the pending dict, and "
    "every path of a round without progress ends in `raise ConfigError` (no back-edge, no return); "
    "(D2/D3, bounded evaluation over dependency graphs: chains in every declaration order, diamonds, fan-in/out, "
    "dependence on constants, shadowed constants, cycles, dangling references) every sample dict has exactly the "
    "keys symbols + unshadowed constants, independent values are fresh draws of the symbol's own sampler, a "
    "dependent's value is compute_sample(...) on the values of the *same* sample after all its dependencies are "
    "present, samples are distinct dicts, the caller's dicts are not mutated, cycles and dangling references raise "
    "ConfigError instead of looping; (D4) DependentSampler takes `depends` from the parsed formula, turns CalcError "
    "into ConfigError in the constructor and in compute_sample, evaluates its own formula on the given sample with "
    "the given functions/suffixes and returns the value, gen_sample always raises; (D5) the numbered-variable "
    "pattern keeps the alternation of heads intact inside its own group within the full-name group, is anchored at "
    "the end, its index language is `0 | -?[1-9][0-9]*`; generate_variable_list adds exactly the well-formed "
    "numbered instances that are not declared variables, each with its head's sampler, without touching the "
    "configuration; (D6) construct_constants = copy of the defaults overridden by the user's entries; "
    "gen_var_and_func_samples adds sibling formulas as DependentSamplers, refuses empty siblings with MissingInput "
    "and hands variables/samples/samplers/functions/suffixes/constants to gen_symbols_samples in their roles.")
NOT_DECIDED = ("numeric values of dependent variables (the formula evaluator, C03); graphs larger than those "
               "enumerated; termination of the sampler draws themselves (C12).")
ASSUMPTIONS = ["samplers' gen_sample and DependentSampler.compute_sample are the only sources of values (model objects stand for them)",
               "the stdlib re module behaves as documented"]

GSS = 'mitxgraders.sampling.gen_symbols_samples'
DS = 'mitxgraders.sampling.DependentSampler'
RI = 'mitxgraders.sampling.RealInterval'
MM = 'mitxgraders.helpers.math_helpers.MathMixin'
EVALUATOR = 'mitxgraders.helpers.calc.expressions.evaluator'
PARSE = 'mitxgraders.helpers.calc.expressions.parse'
UNDEF = 'mitxgraders.helpers.calc.exceptions.UndefinedVariable'
UNPARSE = 'mitxgraders.helpers.calc.exceptions.UnableToParse'


def check(ctx):
    idx = ctx.index
    d1_progress(ctx, idx)
    d2_samples(ctx, idx)
    d4_dependent(ctx, idx)
    d5_regex(ctx, idx)
    d5_numbered(ctx, idx)
    d6_constants(ctx, idx)
    d6_siblings(ctx, idx)


def _name(cls):
    return cls.split('.')[-1] if isinstance(cls, str) else cls


class Groups(object):
    def __init__(self, rule, where):
        self.rule = rule
        self.where = where
        self.groups = {}
        self.order = []

    def case(self, group, ok, scenario, expected, found):
        g = self.groups.setdefault(group, {'n': 0, 'bad': []})
        if group not in self.order:
            self.order.append(group)
        g['n'] += 1
        if not ok:
            g['bad'].append((scenario, expected, found))

    def flush(self):
        for group in self.order:
            g = self.groups[group]
            if g['bad']:
                sc, exp, fnd = g['bad'][0]
                self.rule.violation(group, 'for %s the code gives %s, the property needs %s (%d of %d cases differ)'
                                    % (sc, fnd, exp, len(g['bad']), g['n']), self.where, expected=str(exp), found=str(fnd))
            else:
                self.rule.ok(group, '%d cases agree with the reference' % g['n'], self.where)


def outcome(fn):
    try:
        return ('ret', fn())
    except Raised as r:
        return ('raise', _name(r.cls), r.eargs)
    except Budget:
        return ('loop', None)


def show(res):
    if res[0] == 'raise':
        return 'raise %s' % res[1]
    if res[0] == 'loop':
        return 'no result within the step bound (the loop does not end)'
    return 'returns %s' % (_short(res[1]),)


def _short(v, limit=260):
    text = repr(v)
    return text if len(text) <= limit else text[:limit - 3] + '...'


# ----------------------------------------------------------------------------- D1
def _flag_test(test):
    """(flag name, edge label taken when the flag is false) for `not F`, `F`, `F is False`, `F == False`."""
    t = nf.canon(test)
    if isinstance(t, ast.UnaryOp) and isinstance(t.op, ast.Not) and isinstance(t.operand, ast.Name):
        return t.operand.id, 'true'
    if isinstance(t, ast.Name):
        return t.id, 'false'
    if isinstance(t, ast.Compare) and len(t.ops) == 1 and isinstance(t.left, ast.Name) \
            and isinstance(t.comparators[0], ast.Constant) and isinstance(t.comparators[0].value, bool):
        positive = isinstance(t.ops[0], (ast.Is, ast.Eq))
        value = t.comparators[0].value
        if isinstance(t.ops[0], (ast.Is, ast.Eq, ast.IsNot, ast.NotEq)):
            # the branch on which the flag is false
            return t.left.id, 'true' if (positive != value) else 'false'
    return None, None


def _const_assign(stmt, value):
    return isinstance(stmt, ast.Assign) and len(stmt.targets) == 1 and isinstance(stmt.targets[0], ast.Name) \
        and isinstance(stmt.value, ast.Constant) and stmt.value.value is value


def _in_subtree(node, root):
    return any(n is node for n in ast.walk(root))


def d1_progress(ctx, idx):
    r = ctx.rule('D1.PROGRESS', 'a round of the dependency loop that makes no progress ends in raise ConfigError; the flag is '
                 'reset every round and set only when a pending dependent was removed', floor=4)
    with r:
        fi = idx.func(GSS)
        cfg = cfg_of(fi.node)
        whiles = [n for n in walk_own(fi.node) if isinstance(n, ast.While)]
        if len(whiles) != 1:
            raise AnalysisError('gen_symbols_samples: expected exactly one while loop, found %d' % len(whiles))
        w = whiles[0]
        if not isinstance(w.test, ast.Name):
            raise AnalysisError('gen_symbols_samples: loop condition is not the pending-dependents dict: %s' % short(w.test))
        pending = w.test.id
        wt = [n for n in cfg.nodes_of(w) if n.kind == 'test']
        if len(wt) != 1:
            raise AnalysisError('no CFG node for the while test')
        wt = wt[0]
        # the flag test: an `if` inside the loop body whose test is just a local flag
        tests = []
        for s in ast.walk(w):
            if isinstance(s, ast.If) and s is not w:
                flag, edge = _flag_test(s.test)
                if flag is not None and any((_const_assign(x, True) or _const_assign(x, False)) and x.targets[0].id == flag
                                            for x in walk_own(fi.node)):
                    tests.append((s, flag, edge))
        if len(tests) != 1:
            raise AnalysisError('gen_symbols_samples: expected one test of a progress flag inside the loop, found %d' % len(tests))
        tstmt, flag, noprog_edge = tests[0]
        tnode = [n for n in cfg.nodes_of(tstmt) if n.kind == 'test'][0]
        in_loop = [n for n in cfg.nodes if n.ast is not None and n.kind == 'stmt' and _in_subtree(n.ast, w)]
        resets = [n for n in in_loop if _const_assign(n.ast, False) and n.ast.targets[0].id == flag]
        sets = [n for n in in_loop if _const_assign(n.ast, True) and n.ast.targets[0].id == flag]
        other_writes = [n for n in in_loop if isinstance(n.ast, (ast.Assign, ast.AugAssign)) and n not in resets and n not in sets
                        and any(isinstance(t, ast.Name) and t.id == flag and isinstance(t.ctx, ast.Store) for t in ast.walk(n.ast))]
        if other_writes:
            raise AnalysisError('progress flag %s is written by `%s`' % (flag, short(other_writes[0].ast)))
        removals = [n for n in in_loop if _removes_from(n.ast, pending)]
        where = lib.loc(fi, tstmt)
        # (a) reset every round
        reach = cfg.reach([wt], blocked=resets, include_starts=False, blocked_edges=[(wt, 'false')])
        r.check(tnode not in reach, 'gen_symbols_samples: %s is reset before it is tested, every round' % flag,
                'every path from the loop head to the test passes `%s = False`' % flag,
                'a round can reach `if not %s` without resetting the flag first: once one dependent has been computed the flag '
                'stays true, a later round without progress is not noticed and the loop spins forever on a circular or '
                'undefined dependency' % flag, lib.loc(fi, w), expected='%s = False at the start of every round' % flag)
        # (b) set only after a removal from the pending dict
        if not sets:
            r.violation('gen_symbols_samples: %s is set when a dependent was computed' % flag,
                        'the flag is never set inside the loop: every round counts as "no progress", so valid dependency '
                        'chains are reported as circular', where)
        else:
            reach = cfg.reach([wt], blocked=removals, include_starts=False, blocked_edges=[(wt, 'false')])
            bad = [n for n in sets if n in reach]
            r.check(not bad, 'gen_symbols_samples: %s is set only where a pending dependent was removed' % flag,
                    'each `%s = True` is preceded in its round by a removal from %s' % (flag, pending),
                    '`%s = True` can be reached in a round that removed nothing from %s (%s): such a round repeats forever'
                    % (flag, pending, 'no removal from %s exists' % pending if not removals else 'the removal is skipped on some path'),
                    lib.loc(fi, (bad or sets)[0].ast), expected='del %s[symbol] before %s = True' % (pending, flag))
        # (c) the no-progress branch always raises
        branch = tstmt.body if noprog_edge == 'true' else tstmt.orelse
        if not branch:
            raise AnalysisError('the no-progress branch of `%s` is empty' % short(tstmt.test))
        first = [s for s in branch if not (isinstance(s, ast.Expr) and isinstance(s.value, ast.Constant))]
        starts = cfg.nodes_of(first[0]) if first else []
        if not starts:
            raise AnalysisError('no CFG node for the first statement of the no-progress branch')
        reach = cfg.reach(starts)
        escapes = []
        if wt in reach:
            escapes.append('goes on to the next round')
        if cfg.exit_return in reach:
            escapes.append('returns')
        after = [n for n in reach if n.ast is not None and n.kind in ('stmt', 'test', 'for') and not _in_subtree(n.ast, tstmt)
                 and n is not wt]
        if after and not escapes:
            escapes.append('continues with `%s`' % short(after[0].ast, 50))
        r.check(not escapes, 'gen_symbols_samples: a round without progress always raises',
                'no path from the no-progress branch reaches the loop head, a return or later statements',
                'a path of the no-progress branch %s: circular or undefined dependencies %s' % (
                    ' / '.join(escapes), 'make the loop spin forever' if 'goes on to the next round' in escapes else 'yield a value'),
                where, expected='raise ConfigError on every path')
        raises = [n.ast for n in reach if n.kind == 'stmt' and isinstance(n.ast, ast.Raise)]
        classes = sorted({nf.exc_class_name(x.exc) or 're-raise' for x in raises})
        if not raises:
            if not escapes:
                raise AnalysisError('no raise statement in the no-progress branch')
        else:
            bad = [c for c in classes if c != 'ConfigError']
            r.check(not bad, 'gen_symbols_samples: the no-progress branch raises ConfigError',
                    'raises %s' % classes, 'circular/undefined dependencies are reported with %s instead of ConfigError' % bad,
                    lib.loc(fi, raises[0]), expected='ConfigError', found=', '.join(classes))


def _removes_from(stmt, name):
    if isinstance(stmt, ast.Delete):
        return any(isinstance(t, ast.Subscript) and isinstance(t.value, ast.Name) and t.value.id == name for t in stmt.targets)
    for n in ast.walk(stmt) if isinstance(stmt, (ast.Expr, ast.Assign)) else ():
        if isinstance(n, ast.Call) and isinstance(n.func, ast.Attribute) and n.func.attr in ('pop', 'popitem') \
                and isinstance(n.func.value, ast.Name) and n.func.value.id == name:
            return True
    return False


# ----------------------------------------------------------------------------- D2 / D3
class Graph(object):
    """A sampling configuration: declaration order, dependencies, constants."""

    def __init__(self, label, symbols, deps, constants=None, samples=2, valid=True):
        self.label = label
        self.symbols = list(symbols)
        self.deps = dict(deps)          # dependent symbol -> list of names it depends on
        self.constants = dict(constants or {})
        self.samples = samples
        self.valid = valid


def graphs():
    out = []
    chain = {'b': ['a'], 'c': ['b']}
    for perm in itertools.permutations(['a', 'b', 'c']):
        out.append(Graph('chain a->b->c declared as %s' % list(perm), perm, chain))
    out.append(Graph('chain of six declared in reverse', ['f', 'e2', 'd', 'c', 'b', 'a'],
                     {'b': ['a'], 'c': ['b'], 'd': ['c'], 'e2': ['d'], 'f': ['e2']}, samples=3))
    for perm in (['d', 'c', 'b', 'a'], ['a', 'd', 'b', 'c'], ['c', 'd', 'a', 'b']):
        out.append(Graph('diamond a->(b,c)->d declared as %s' % perm, perm, {'b': ['a'], 'c': ['a'], 'd': ['b', 'c']}))
    out.append(Graph('fan-in z=f(x,y,w)', ['z', 'x', 'y', 'w'], {'z': ['x', 'y', 'w']}))
    out.append(Graph('fan-out', ['p', 'q', 'r', 's'], {'q': ['p'], 'r': ['p'], 's': ['p']}))
    out.append(Graph('no dependents', ['x', 'y'], {}, constants={'pi': 3.14}))
    out.append(Graph('no symbols', [], {}, constants={'pi': 3.14, 'i': 1j}))
    out.append(Graph('dependence on a constant', ['d', 'x'], {'d': ['pi', 'x']}, constants={'pi': 3.14, 'i': 1j}))
    out.append(Graph('dependent without dependencies', ['k', 'x'], {'k': []}, constants={'pi': 3.14}))
    out.append(Graph('independent variable e shadows the constant e', ['y', 'e', 'x'], {'y': ['e', 'x']},
                     constants={'e': 2.718, 'pi': 3.14}))
    out.append(Graph('dependent variable e shadows the constant e', ['y', 'e', 'x'], {'e': ['x'], 'y': ['e']},
                     constants={'e': 2.718, 'pi': 3.14}))
    out.append(Graph('numbered instances', ['s', 'b_{1}', 'b_{-2}'], {'s': ['b_{1}', 'b_{-2}']}))
    # invalid configurations
    out.append(Graph('two-cycle a<->b', ['a', 'b'], {'a': ['b'], 'b': ['a']}, valid=False))
    out.append(Graph('self-dependence', ['a', 'x'], {'a': ['a', 'x']}, valid=False))
    out.append(Graph('three-cycle next to a valid chain', ['x', 'y', 'p', 'q', 'r'],
                     {'y': ['x'], 'p': ['r'], 'q': ['p'], 'r': ['q']}, valid=False))
    out.append(Graph('cycle reached after progress', ['c', 'b', 'a', 'u', 'v'],
                     {'b': ['a'], 'c': ['b'], 'u': ['v', 'c'], 'v': ['u']}, valid=False))
    out.append(Graph('dangling reference', ['a', 'x'], {'a': ['x', 'zz']}, valid=False))
    out.append(Graph('dangling reference behind a chain', ['c', 'b', 'a'], {'b': ['a'], 'c': ['b', 'nowhere']}, valid=False))
    return out


def run_graph(idx, fi, g):
    it = Interp(idx, Model(), max_steps=60000)
    counter = [0]
    log = []
    FUNCS, SUFF = {'sin': Sym('sin')}, {'%': 0.01}
    sample_from = {}

    def make_indep(name):
        def gen_sample():
            counter[0] += 1
            return ('draw', name, counter[0])
        return Obj(RI, stubs={'gen_sample': Native(gen_sample, 'gen_sample')}, name='sampler:' + name)

    def make_dep(name, depends):
        def compute_sample(sample_dict, functions, suffixes):
            missing = [d for d in depends if d not in sample_dict]
            log.append((name, id(sample_dict), dict(sample_dict), functions is FUNCS and suffixes is SUFF, missing))
            if missing:
                raise Raised('ConfigError', ['formula error: %s undefined' % missing])
            return ('dep', name, tuple((d, sample_dict[d]) for d in depends))
        return Obj(DS, fields={'config': {'depends': list(depends), 'formula': 'formula-of-' + name}},
                   stubs={'compute_sample': Native(compute_sample, 'compute_sample'),
                          'gen_sample': Native(lambda: (_ for _ in ()).throw(Raised('Exception', ['gen_sample of a DependentSampler'])))},
                   name='sampler:' + name)
    for s in g.symbols:
        sample_from[s] = make_dep(s, g.deps[s]) if s in g.deps else make_indep(s)
    symbols = list(g.symbols)
    constants = dict(g.constants)
    snap = (list(symbols), dict(constants), dict(sample_from))
    res = outcome(lambda: it.call_function(fi, [symbols, g.samples, sample_from, FUNCS, SUFF, constants]))
    untouched = (symbols == snap[0] and constants == snap[1] and sample_from == snap[2])
    return res, log, untouched


def judge_graph(g, res, log, untouched):
    """None if the outcome is what the property needs, else (expected, found)."""
    if not g.valid:
        if res[0] == 'raise' and res[1] == 'ConfigError':
            return None
        return 'ConfigError', show(res)
    if res[0] != 'ret':
        return 'a list of %d complete sample dicts' % g.samples, show(res) + (
            ' (compute_sample called with %s missing)' % [e[4] for e in log if e[4]][0] if any(e[4] for e in log) else '')
    out = res[1]
    if not isinstance(out, list) or len(out) != g.samples or not all(isinstance(d, dict) for d in out):
        return 'a list of %d sample dicts' % g.samples, show(res)
    if len({id(d) for d in out}) != len(out):
        return 'distinct dicts per sample', 'the same dict object for several samples'
    keys = set(g.symbols) | {c for c in g.constants if c not in g.symbols}
    seen_draws = set()
    for i, d in enumerate(out):
        if set(d) != keys:
            return 'keys %s in every sample' % sorted(keys), 'sample %d has keys %s' % (i, sorted(d))
        for c in g.constants:
            if c not in g.symbols and d[c] != g.constants[c]:
                return 'constant %s = %r' % (c, g.constants[c]), 'sample %d has %s = %r' % (i, c, d[c])
        for s in g.symbols:
            v = d[s]
            if s not in g.deps:
                if not (isinstance(v, tuple) and v[:2] == ('draw', s)):
                    return 'sample[%s] drawn from the sampling set of %s' % (s, s), 'sample %d has %s = %r' % (i, s, v)
                if v in seen_draws:
                    return 'a fresh draw per sample', 'sample %d reuses the draw %r' % (i, v)
                seen_draws.add(v)
            else:
                if not (isinstance(v, tuple) and v[:2] == ('dep', s)):
                    return 'sample[%s] computed by its DependentSampler' % s, 'sample %d has %s = %r' % (i, s, v)
                for dep, used in v[2]:
                    if used != d[dep] or (dep in g.constants and dep not in g.symbols and used != g.constants[dep]):
                        return ('%s computed from the value of %s in the same sample' % (s, dep),
                                'sample %d: %s was computed with %s = %r but the sample has %s = %r' % (i, s, dep, used, dep, d[dep]))
    if any(not e[3] for e in log):
        return 'compute_sample(sample_dict, functions, suffixes)', 'functions/suffixes passed in other roles'
    if any(e[4] for e in log):
        return 'compute_sample only once all dependencies are present', 'called for %s with %s missing' % (
            [e[0] for e in log if e[4]][0], [e[4] for e in log if e[4]][0])
    if not untouched:
        return "the caller's symbols / constants / sample_from unchanged", 'one of them was modified'
    return None


def d2_samples(ctx, idx):
    r = ctx.rule('D2.SAMPLES', 'every sample has all symbols and unshadowed constants, dependents are computed from the same '
                 'sample after their dependencies, cycles/dangling references raise ConfigError', floor=7)
    with r:
        fi = idx.func(GSS)
        if fi.params != ['symbols', 'samples', 'sample_from', 'functions', 'suffixes', 'constants']:
            raise AnalysisError('gen_symbols_samples: signature changed: %s' % fi.params)
        G = Groups(r, fi.loc)
        names = {
            'chain': 'gen_symbols_samples: dependency chains resolve in every declaration order',
            'diamond': 'gen_symbols_samples: diamonds / fan-in / fan-out resolve with consistent values',
            'const': 'gen_symbols_samples: constants are included unless shadowed by a variable',
            'plain': 'gen_symbols_samples: independent symbols get fresh draws in distinct dicts',
            'cycle': 'gen_symbols_samples: circular dependencies raise ConfigError instead of looping',
            'dangling': 'gen_symbols_samples: dependencies on undefined quantities raise ConfigError',
        }
        for g in graphs():
            res, log, untouched = run_graph(idx, fi, g)
            verdict = judge_graph(g, res, log, untouched)
            if not g.valid:
                key = 'dangling' if 'dangling' in g.label else 'cycle'
            elif 'chain' in g.label:
                key = 'chain'
            elif 'constant' in g.label:
                key = 'const'
            elif g.deps and 'numbered' not in g.label and 'without' not in g.label:
                key = 'diamond'
            else:
                key = 'plain'
            G.case(names[key], verdict is None, '%s (symbols %s, depends %s, constants %s)' % (
                g.label, g.symbols, g.deps, sorted(g.constants)), verdict[0] if verdict else '', verdict[1] if verdict else '')
        G.flush()
        # is_subset, the readiness test
        sub = idx.func('mitxgraders.sampling.is_subset')
        G2 = Groups(r, sub.loc)
        for a, b, want in (([], {}, True), (['x'], {}, False), (['x'], {'x': 1}, True), (['x', 'y'], {'x': 1}, False),
                           (['y', 'x'], {'x': 1}, False), (['x', 'y'], {'y': 0, 'x': 0, 'z': 0}, True), ([], {'x': 1}, True),
                           (['x', 'x'], {'x': None}, True), (['z'], {'x': 1, 'y': 2}, False)):
            res = outcome(lambda: Interp(idx).call_function(sub, [list(a), dict(b)]))
            G2.case('is_subset: true exactly when every dependency is already in the sample', res == ('ret', want),
                    'is_subset(%r, %r)' % (a, sorted(b)), str(want), show(res))
        G2.flush()


# ----------------------------------------------------------------------------- D4
class CalcModel(Model):
    """Stands for the parser and the evaluator."""
    intercept = (EVALUATOR, PARSE)

    def __init__(self, idx, parse_fails=None, eval_fails=None):
        self.idx = idx
        self.parse_fails = parse_fails
        self.eval_fails = eval_fails
        self.events = []
        self.VALUE = Sym('VALUE')

    def global_name(self, name, module):
        if name == 'super':
            return Native(lambda *a: Sym('super-proxy', kind='super', args=a), 'super')
        return NotImplemented

    def attr(self, obj, attr, node, interp):
        if isinstance(obj, Sym) and obj.data.get('kind') == 'super' and attr == '__init__':
            target = obj.data['args'][1]

            def init(config=None, **kwargs):
                cfg = dict(config if config else kwargs)
                cfg.setdefault('depends', None)
                target.fields['config'] = cfg
            return Native(init, 'ObjectWithSchema.__init__')
        if isinstance(obj, Sym) and obj.data.get('kind') == 'parsed':
            if attr in obj.data:
                return obj.data[attr]
        return Model.attr(self, obj, attr, node, interp)

    def call(self, f, args, kwargs, node, interp):
        q = f.fi.qualname if isinstance(f, FuncRef) else None
        if q == PARSE:
            self.events.append(('parse', args[0] if args else kwargs.get('formula')))
            if self.parse_fails:
                raise Raised(self.parse_fails, ['cannot parse'])
            return Sym('parsed', kind='parsed', variables_used={'x', 'y'}, functions_used={'sin'}, suffixes_used=set())
        if q == EVALUATOR:
            params = self.idx.func(EVALUATOR).params
            bound = dict(zip(params, args))
            bound.update(kwargs)
            self.events.append(('evaluator', bound))
            if self.eval_fails:
                raise Raised(self.eval_fails, ['cannot evaluate'])
            return (self.VALUE, Sym('usage'))
        return Model.call(self, f, args, kwargs, node, interp)


def d4_dependent(ctx, idx):
    r = ctx.rule('D4.DEPENDENT', 'DependentSampler: depends come from the parsed formula, CalcError -> ConfigError, '
                 'compute_sample evaluates the formula on the given sample, gen_sample raises', floor=5)
    with r:
        init = idx.func(DS + '.__init__')
        comp = idx.func(DS + '.compute_sample')
        gen = idx.func(DS + '.gen_sample')
        G = Groups(r, init.loc)
        g = 'DependentSampler.__init__: depends is overwritten with the variables used by the parsed formula'
        for given in (None, ['q'], ['x'], []):
            model = CalcModel(idx)
            obj = Obj(DS)
            kw = {'formula': 'x+y'}
            if given is not None:
                kw['depends'] = list(given)
            res = outcome(lambda: Interp(idx, model).call_function(init, [], kw, self_obj=obj))
            dep = obj.fields.get('config', {}).get('depends')
            ok = res[0] == 'ret' and isinstance(dep, list) and sorted(dep) == ['x', 'y'] and ('parse', 'x+y') in model.events
            G.case(g, ok, 'DependentSampler(formula="x+y"%s) where the formula uses x and y' % (
                '' if given is None else ', depends=%r' % given), "config['depends'] == ['x', 'y'] (in any order)",
                show(res) if res[0] != 'ret' else "config['depends'] = %r" % (dep,))
        g = 'DependentSampler.__init__: a formula that does not parse raises ConfigError'
        for cls in (UNPARSE, 'mitxgraders.helpers.calc.exceptions.CalcError', 'mitxgraders.helpers.calc.exceptions.UnbalancedBrackets'):
            model = CalcModel(idx, parse_fails=cls)
            res = outcome(lambda: Interp(idx, model).call_function(init, [], {'formula': 'x+'}, self_obj=Obj(DS)))
            G.case(g, res[0] == 'raise' and res[1] == 'ConfigError', 'parse raises %s' % _name(cls), 'ConfigError', show(res))
        G.flush()
        G = Groups(r, comp.loc)
        g = 'DependentSampler.compute_sample: evaluates its own formula on the given sample and returns the value'
        model = CalcModel(idx)
        sample, FUNCS, SUFF = {'x': 1.0, 'y': 2.0}, {'sin': Sym('sin')}, {'%': 0.01}
        obj = Obj(DS, fields={'config': {'formula': 'x+y', 'depends': ['x', 'y']}})
        res = outcome(lambda: Interp(idx, model).call_function(comp, [sample, FUNCS, SUFF], self_obj=obj))
        evs = [e[1] for e in model.events if e[0] == 'evaluator']
        ok = res == ('ret', model.VALUE) and len(evs) == 1 and evs[0].get('formula') == 'x+y' and evs[0].get('variables') is sample \
            and evs[0].get('functions') is FUNCS and evs[0].get('suffixes') is SUFF
        G.case(g, ok, 'compute_sample({x, y}, functions, suffixes) with formula "x+y"',
               'evaluator("x+y", variables=the sample, functions=functions, suffixes=suffixes)[0]',
               show(res) + (' after evaluator(%s)' % ', '.join('%s=%s' % (k, _short(v, 40)) for k, v in sorted(evs[0].items()))
                            if evs else ''))
        g = 'DependentSampler.compute_sample: CalcError from the evaluation raises ConfigError'
        for cls in (UNDEF, 'mitxgraders.helpers.calc.exceptions.CalcZeroDivisionError', 'mitxgraders.helpers.calc.exceptions.CalcError'):
            model = CalcModel(idx, eval_fails=cls)
            res = outcome(lambda: Interp(idx, model).call_function(comp, [dict(sample), FUNCS, SUFF], self_obj=obj))
            G.case(g, res[0] == 'raise' and res[1] == 'ConfigError', 'evaluator raises %s' % _name(cls), 'ConfigError', show(res))
        G.flush()
        res = outcome(lambda: Interp(idx).call_function(gen, [], self_obj=Obj(DS, fields={'config': {'formula': 'x', 'depends': ['x']}})))
        r.check(res[0] == 'raise', 'DependentSampler.gen_sample: always raises', 'raises %s' % (res[1] if res[0] == 'raise' else ''),
                'gen_sample returns %s: a dependent variable sampled on its own is inconsistent with the rest of the sample'
                % (_short(res[1]) if res[0] == 'ret' else '?'), gen.loc)


# ----------------------------------------------------------------------------- D5 (regex term)
def d5_regex(ctx, idx):
    r = ctx.rule('D5.REGEX', 'numbered-variable pattern: heads alternation intact in its own group inside the full-name group, '
                 'end-anchored, index language 0 | -?[1-9][0-9]*', floor=4)
    with r:
        fi = idx.func('mitxgraders.helpers.math_helpers.numbered_vars_regexp')
        param = fi.params[0]
        env = lib.local_env(fi.node)

        def is_hole(e):
            # '|'.join(map(re.escape, heads)) / '|'.join(re.escape(h) for h in heads) / '|'.join(heads)
            if isinstance(e, ast.Call) and isinstance(e.func, ast.Attribute) and e.func.attr == 'join' \
                    and isinstance(e.func.value, ast.Constant) and e.func.value.value == '|' and len(e.args) == 1:
                if param in lib.names_in(e.args[0]):
                    return 'heads'
            return None
        compiles = [c for c in walk_own(fi.node) if isinstance(c, ast.Call) and idx.dotted_of(fi.module, c.func) == 're.compile']
        if len(compiles) != 1 or not compiles[0].args:
            raise AnalysisError('numbered_vars_regexp: expected one re.compile(pattern) call')
        flags = compiles[0].args[1:] or [k.value for k in compiles[0].keywords]
        if flags:
            raise AnalysisError('numbered_vars_regexp: re.compile is given flags (%s)' % short(compiles[0]))
        parts = rx.fold(compiles[0].args[0], fi.node, is_hole)
        where = lib.loc(fi, compiles[0])
        text = rx.render(parts)
        if not any(isinstance(p, rx.Hole) for p in parts):
            raise AnalysisError('numbered_vars_regexp: the pattern does not contain the joined list of heads: %s' % text)
        tree = rx.parse(parts)
        lead, core, trail = rx.split_anchors(tree)
        # how generate_variable_list applies the pattern
        gv = idx.func(MM + '.generate_variable_list')
        uses = [c for c in walk_own(gv.node) if isinstance(c, ast.Call) and isinstance(c.func, ast.Attribute)
                and c.func.attr in ('match', 'fullmatch', 'search') and isinstance(c.func.value, ast.Name)
                and _bound_to_call(gv, c.func.value.id, 'numbered_vars_regexp')]
        if len(uses) != 1:
            raise AnalysisError('generate_variable_list: expected one application of the numbered-variable pattern')
        method = uses[0].func.attr
        # (1) structure: one capturing group spanning everything, whose first item is the group of heads
        ok_struct = False
        detail = ''
        if len(core) == 1 and core[0][0] is sre_c.SUBPATTERN and core[0][1][0] == 1:
            inner = list(core[0][1][3])
            if inner:
                head_item, groups = rx.unwrap_groups(inner[0])
                if rx.is_intact_hole(head_item) and groups and groups[0] == 2:
                    ok_struct = True
        if not ok_struct and rx.hole_absorbed(tree):
            detail = ('the alternation of heads is not enclosed in its own group (pattern %s): `|` binds looser than '
                      'concatenation, so with more than one head only the last head is followed by `_{index}` and only the '
                      'first is anchored' % text)
        if ok_struct:
            r.ok('numbered_vars_regexp: group 1 = full name, group 2 = alternation of heads', text, where)
        elif detail:
            r.violation('numbered_vars_regexp: group 1 = full name, group 2 = alternation of heads', detail, where,
                        expected='^((head1|head2|...)_{index})$', found=text)
        else:
            r.undecided('numbered_vars_regexp: group 1 = full name, group 2 = alternation of heads',
                        'pattern structure not recognised: %s' % text, where)
        # (2) anchoring, given the way the pattern is applied
        end_ok = bool(trail) or method == 'fullmatch'
        start_ok = bool(lead) or method in ('match', 'fullmatch')
        r.check(end_ok, 'numbered_vars_regexp: anchored at the end',
                'end anchor present' if trail else 'applied with fullmatch',
                "the pattern %s is applied with .%s and has no end anchor: a longer name such as b_{1}' or b_{1}^{2} is taken for "
                "the numbered variable b_{1} and registered under the wrong name" % (text, method), where,
                expected='...)$', found=text)
        r.check(start_ok, 'numbered_vars_regexp: anchored at the start',
                'start anchor present' if lead else 'applied with .%s' % method,
                'the pattern %s is applied with .search and has no start anchor: xb_{1} is taken for an instance of b' % text,
                where)
        # (3) index language, on the literal part of the pattern with a concrete head
        concrete = ''.join(p if isinstance(p, str) else 'Hd' for p in parts)
        try:
            compiled = re.compile(concrete)
        except re.error as e:
            raise AnalysisError('pattern does not compile: %s' % e)
        apply_ = {'match': compiled.match, 'fullmatch': compiled.fullmatch, 'search': compiled.search}[method]
        bad = []
        for ix, want in INDEX_CASES:
            got = apply_('Hd_{%s}' % ix) is not None
            if got != want:
                bad.append((ix, want))
        r.check(not bad, 'numbered_vars_regexp: index is 0 or an optionally negative integer without leading zeros',
                '%d index strings classified as the property needs' % len(INDEX_CASES),
                'index %r is %s by %s but the property %s it (leading zeros, signs and non-digits are not part of a numbered '
                'variable)' % ((bad[0][0], 'rejected' if bad[0][1] else 'accepted', text, 'accepts' if bad[0][1] else 'rejects')
                               if bad else ('', '', '', '')), where, expected='-?[1-9][0-9]*|0')


INDEX_CASES = [('0', True), ('1', True), ('9', True), ('10', True), ('12', True), ('105', True), ('900', True), ('-1', True),
               ('-3', True), ('-12', True), ('-100', True), ('05', False), ('00', False), ('-0', False), ('-05', False),
               ('01', False), ('', False), ('1a', False), ('a', False), ('--1', False), ('+1', False), ('1.0', False),
               ('-', False), (' 1', False), ('1 ', False), ('1-', False), ('0x1', False)]


def _bound_to_call(fi, name, callee):
    for v in lib.assigned_value(fi.node, name):
        if isinstance(v, ast.Call) and nf.callee_name(v) == callee:
            return True
    return False


# ----------------------------------------------------------------------------- D5 (behaviour)
def d5_numbered(ctx, idx):
    r = ctx.rule('D5.NUMBERED', 'generate_variable_list adds exactly the well-formed numbered instances that are not declared '
                 "variables, each with its head's sampler, and leaves the configuration alone", floor=5)
    with r:
        fi = idx.func(MM + '.generate_variable_list')
        G = Groups(r, fi.loc)
        SX, SB, SC, S7 = Sym('sampler-x'), Sym('sampler-b'), Sym('sampler-Cat'), Sym('sampler-b_{7}')
        declared = ['x', 'b_{7}', 'y1']
        base_sf = {'x': SX, 'b': SB, 'Cat': SC, 'b_{7}': S7, 'y1': Sym('sampler-y1')}
        good = {'b_{1}': 'b', 'b_{0}': 'b', 'b_{-3}': 'b', 'b_{12}': 'b', 'Cat_{17}': 'Cat', 'Cat_{-120}': 'Cat', 'b_{900}': 'b'}
        bad = ['b_{05}', 'b_{-05}', 'b_{00}', 'b_{-0}', 'B_{0}', 'cat_{1}', 'c_{1}', 'bb_{1}', 'xb_{1}', "b_{1}'", 'b_{1}^{2}',
               'b_1', 'b', 'Cat', 'b_{a}', 'b_{1a}', 'z', 'x_{1}', 'Catb_{1}', 'bCat_{1}', 'b_{}']

        def run(used):
            it = Interp(idx, Model(), max_steps=60000)
            variables = list(declared)
            sf = dict(base_sf)
            cfg = {'variables': variables, 'sample_from': sf, 'numbered_vars': ['b', 'Cat']}
            obj = Obj(MM, fields={'config': cfg}, stubs={'get_used_vars': Native(lambda exprs: set(used), 'get_used_vars')})
            res = outcome(lambda: it.call_function(fi, [['the expressions']], self_obj=obj))
            untouched = variables == declared and sf == base_sf and cfg['numbered_vars'] == ['b', 'Cat']
            return res, untouched

        def judge(used, res, untouched):
            want_new = sorted(v for v in used if v in good)
            if res[0] != 'ret' or not (isinstance(res[1], tuple) and len(res[1]) == 2):
                return 'variables %s + %s' % (declared, want_new), show(res)
            vl, sfd = res[1]
            if not isinstance(vl, list) or not isinstance(sfd, dict):
                return '(list, dict)', show(res)
            if sorted(vl) != sorted(declared + want_new):
                return 'variable list %s' % sorted(declared + want_new), 'variable list %s' % sorted(vl)
            for v in want_new:
                if sfd.get(v) is not base_sf[good[v]]:
                    return 'sample_from[%s] is the sampling set of %s' % (v, good[v]), 'sample_from[%s] = %r' % (v, sfd.get(v))
            for k, v in base_sf.items():
                if sfd.get(k) is not v:
                    return 'declared samplers unchanged', 'sample_from[%s] = %r' % (k, sfd.get(k))
            if set(sfd) != set(base_sf) | set(want_new):
                return 'sample_from keys %s' % sorted(set(base_sf) | set(want_new)), 'keys %s' % sorted(sfd)
            if not untouched:
                return "config['variables'] and config['sample_from'] unchanged", 'the configuration was modified'
            return None
        g_good = 'generate_variable_list: well-formed numbered instances are added with the sampler of their head'
        for v in sorted(good):
            used = {'x', v}
            res, untouched = run(used)
            verdict = judge(used, res, untouched)
            G.case(g_good, verdict is None, 'expressions use %s (numbered_vars b, Cat)' % sorted(used),
                   verdict[0] if verdict else '', verdict[1] if verdict else '')
        used = set(good) | {'x'}
        res, untouched = run(used)
        verdict = judge(used, res, untouched)
        G.case(g_good, verdict is None, 'expressions use all of %s' % sorted(used), verdict[0] if verdict else '', verdict[1] if verdict else '')
        g_bad = 'generate_variable_list: names that are not well-formed numbered instances are not added'
        for v in bad:
            used = {'x', v}
            res, untouched = run(used)
            verdict = judge(used, res, untouched)
            G.case(g_bad, verdict is None, 'expressions use %s (numbered_vars b, Cat)' % sorted(used),
                   verdict[0] if verdict else '', verdict[1] if verdict else '')
        g_decl = 'generate_variable_list: a declared variable that looks like a numbered instance keeps its own sampler, once'
        for used in ({'b_{7}'}, {'b_{7}', 'b_{1}', 'x'}):
            res, untouched = run(used)
            verdict = judge(used, res, untouched)
            G.case(g_decl, verdict is None, 'expressions use %s; b_{7} is declared with its own sampler' % sorted(used),
                   verdict[0] if verdict else '', verdict[1] if verdict else '')
        g_cfg = 'generate_variable_list: the configured variables and sample_from are copied, not extended in place'
        res, untouched = run({'b_{1}', 'Cat_{2}'})
        G.case(g_cfg, res[0] == 'ret' and untouched, 'expressions use b_{1} and Cat_{2}', "config untouched after the call",
               show(res) if res[0] != 'ret' else 'the configuration now contains the numbered instances (a later call sees them as declared)')
        g_none = 'generate_variable_list: without numbered instances the declared variables are returned'
        res, untouched = run({'x', 'y1'})
        verdict = judge({'x', 'y1'}, res, untouched)
        G.case(g_none, verdict is None, 'expressions use x, y1', verdict[0] if verdict else '', verdict[1] if verdict else '')
        G.flush()


# ----------------------------------------------------------------------------- D6
def d6_constants(ctx, idx):
    r = ctx.rule('D6.CONSTANTS', 'construct_constants returns a new dict: the defaults overridden by the user constants', floor=2)
    with r:
        fi = idx.func('mitxgraders.sampling.construct_constants')
        G = Groups(r, fi.loc)
        g1 = 'construct_constants: defaults plus user constants, user entries win'
        g2 = 'construct_constants: neither argument is modified and a new dict is returned'
        for defaults, user in (({'i': 1j, 'pi': 3.14, 'e': 2.718}, {}), ({'i': 1j, 'pi': 3.14}, {'T': 1.5}),
                               ({'i': 1j, 'pi': 3.14}, {'pi': 3, 'tau': 6.28}), ({}, {'a': 1}), ({'i': 1j}, {'i': 'I'})):
            d, u = dict(defaults), dict(user)
            res = outcome(lambda: Interp(idx).call_function(fi, [d, u]))
            want = dict(defaults)
            want.update(user)
            G.case(g1, res == ('ret', want), 'defaults %s, user constants %s' % (defaults, user), repr(want), show(res))
            G.case(g2, res[0] == 'ret' and d == defaults and u == user and res[1] is not d and res[1] is not u,
                   'defaults %s, user constants %s' % (defaults, user), 'arguments unchanged, fresh dict',
                   show(res) if res[0] != 'ret' else ('defaults now %s' % d if d != defaults else
                                                      ('the defaults dict itself is returned' if res[1] is d else 'user dict touched')))
        G.flush()
        # the use in validate_math_config
        vm = idx.func(MM + '.validate_math_config')
        hits = nf.find_all(nf.pat("self.constants = construct_constants(self.default_variables, self.config['user_constants'])",
                                  mode='exec')[0], vm.node)
        r.check(bool(hits), 'MathMixin.validate_math_config: self.constants', 'construct_constants(default_variables, user_constants)',
                "self.constants is no longer construct_constants(self.default_variables, self.config['user_constants'])", vm.loc)


class SiblingModel(Model):
    intercept = (GSS,)

    def __init__(self):
        self.calls = []
        self.results = [Sym('VAR-SAMPLES'), Sym('FUNC-SAMPLES')]

    def call(self, f, args, kwargs, node, interp):
        if isinstance(f, FuncRef) and f.fi.qualname == GSS:
            params = f.fi.params
            bound = dict(zip(params, args))
            bound.update(kwargs)
            bound = {k: (list(v) if isinstance(v, list) else dict(v) if isinstance(v, dict) else v) for k, v in bound.items()}
            raw = dict(zip(params, args))
            raw.update(kwargs)
            self.calls.append((bound, raw))
            return self.results[min(len(self.calls) - 1, 1)]
        if isinstance(f, ClassRef) and f.qualname == DS:
            cfg = dict(kwargs) if kwargs else dict(args[0] if args else {})
            return Obj(DS, fields={'config': cfg})
        return Model.call(self, f, args, kwargs, node, interp)


def d6_siblings(ctx, idx):
    r = ctx.rule('D6.SIBLINGS', 'gen_var_and_func_samples adds sibling formulas as DependentSamplers, refuses empty siblings with '
                 'MissingInput and passes every argument of gen_symbols_samples in its role', floor=5)
    with r:
        fi = idx.func(MM + '.gen_var_and_func_samples')
        G = Groups(r, fi.loc)
        SX = Sym('sampler-x')

        def run(args):
            model = SiblingModel()
            it = Interp(idx, model, max_steps=60000)
            seen = []

            def gvl(expressions):
                seen.append(list(expressions))
                return (['x'], {'x': SX})
            FUNCS, SUFF, CONST, RF = {'sin': Sym('sin')}, {'%': 0.01}, {'pi': 3.14}, {'f': Sym('random-f'), 'g': Sym('random-g')}
            obj = Obj(MM, fields={'config': {'samples': 5}, 'functions': FUNCS, 'suffixes': SUFF, 'constants': CONST,
                                  'random_funcs': RF}, stubs={'generate_variable_list': Native(gvl, 'generate_variable_list')})
            res = outcome(lambda: it.call_function(fi, list(args), self_obj=obj))
            return res, model, seen, (FUNCS, SUFF, CONST, RF)
        sib = {'sibling_1': 'x^2', 'sibling_2': 'sibling_1+1'}
        res, model, seen, (FUNCS, SUFF, CONST, RF) = run(['x+1', ['2*x', 'x/3'], sib])
        g = 'gen_var_and_func_samples: every expression (strings, list entries, dict values) is searched for variables'
        ok = res[0] == 'ret' and len(seen) == 1 and sorted(seen[0]) == sorted(['x+1', '2*x', 'x/3', 'x^2', 'sibling_1+1'])
        G.case(g, ok, "arguments 'x+1', ['2*x', 'x/3'], {sibling_1: 'x^2', sibling_2: 'sibling_1+1'}",
               'generate_variable_list([x+1, 2*x, x/3, x^2, sibling_1+1])', show(res) if not seen else 'generate_variable_list(%s)' % seen[0])
        g = 'gen_var_and_func_samples: sibling formulas become dependent variables'
        ok = res[0] == 'ret' and len(model.calls) == 2
        found = show(res)
        if ok:
            b = model.calls[0][0]
            sf = b.get('sample_from', {})
            ok = sorted(b.get('symbols', [])) == ['sibling_1', 'sibling_2', 'x'] and sf.get('x') is SX and all(
                isinstance(sf.get(k), Obj) and sf[k].cls == DS and sf[k].fields['config'].get('formula') == v for k, v in sib.items())
            found = 'symbols %s, samplers %s' % (b.get('symbols'), {k: (v.fields['config'] if isinstance(v, Obj) else v) for k, v in sf.items()})
        G.case(g, ok, 'siblings %s' % sib, "symbols x, sibling_1, sibling_2 with DependentSampler(formula=<the sibling's formula>)", found)
        g = 'gen_var_and_func_samples: variables are sampled with the configured count and the grader\'s functions, suffixes and constants'
        ok = res[0] == 'ret' and len(model.calls) == 2
        if ok:
            raw = model.calls[0][1]
            ok = raw.get('samples') == 5 and raw.get('functions') is FUNCS and raw.get('suffixes') is SUFF and raw.get('constants') is CONST
            found = 'samples=%r, functions=%s, suffixes=%s, constants=%s' % (
                raw.get('samples'), _which(raw.get('functions'), FUNCS, SUFF, CONST), _which(raw.get('suffixes'), FUNCS, SUFF, CONST),
                _which(raw.get('constants'), FUNCS, SUFF, CONST))
        G.case(g, ok, 'first call of gen_symbols_samples', 'samples=5, functions=self.functions, suffixes=self.suffixes, constants=self.constants', found)
        g = 'gen_var_and_func_samples: random functions are sampled likewise, without constants'
        ok = res[0] == 'ret' and len(model.calls) == 2
        if ok:
            b, raw = model.calls[1]
            ok = sorted(b.get('symbols', [])) == ['f', 'g'] and raw.get('samples') == 5 and raw.get('sample_from') is RF \
                and raw.get('functions') is FUNCS and raw.get('suffixes') is SUFF and raw.get('constants') == {}
            found = 'symbols %s, samples=%r, sample_from=%s, constants=%r' % (b.get('symbols'), raw.get('samples'),
                                                                              'random_funcs' if raw.get('sample_from') is RF else _short(raw.get('sample_from'), 60),
                                                                              raw.get('constants'))
        G.case(g, ok, 'second call of gen_symbols_samples', 'symbols [f, g], samples=5, sample_from=self.random_funcs, constants={}', found)
        g = 'gen_var_and_func_samples: returns (variable samples, function samples)'
        G.case(g, res[0] == 'ret' and isinstance(res[1], tuple) and len(res[1]) == 2 and res[1][0] is model.results[0]
               and res[1][1] is model.results[1], 'any arguments', '(VAR-SAMPLES, FUNC-SAMPLES)', show(res))
        g = 'gen_var_and_func_samples: an empty sibling formula raises MissingInput'
        for s in ({'sibling_1': ''}, {'sibling_1': 'x', 'sibling_2': ''}):
            res2, model2, _, _ = run(['x+1', s])
            G.case(g, res2[0] == 'raise' and res2[1] == 'MissingInput', 'siblings %s' % s, 'MissingInput', show(res2))
        g = 'gen_var_and_func_samples: dicts that are not sibling dicts only contribute expressions'
        res3, model3, seen3, _ = run([{'expect': 'x+1', 'other': 'x'}, 'x'])
        ok = res3[0] == 'ret' and len(model3.calls) == 2 and model3.calls[0][0].get('symbols') == ['x']
        G.case(g, ok, "arguments {expect: 'x+1', other: 'x'}, 'x'", 'symbols [x]', show(res3) if not model3.calls else 'symbols %s' % model3.calls[0][0].get('symbols'))
        G.flush()


def _which(v, FUNCS, SUFF, CONST):
    if v is FUNCS:
        return 'self.functions'
    if v is SUFF:
        return 'self.suffixes'
    if v is CONST:
        return 'self.constants'
    return _short(v, 40)


# ------------------------------------------------------------------------ self-test
MUTANTS = [
    Mutant('circular-raise-removed', SAMPLING, "                bad_symbols = \", \".join(sorted(unevaluated_dependents.keys()))\n                raise ConfigError(\"Circularly dependent DependentSamplers detected: \" +\n                                  bad_symbols)\n",
           "                bad_symbols = \", \".join(sorted(unevaluated_dependents.keys()))\n", 'D1'),
    Mutant('circular-breaks-out', SAMPLING, "                raise ConfigError(\"Circularly dependent DependentSamplers detected: \" +\n                                  bad_symbols)\n",
           "                break\n", 'D1'),
    Mutant('flag-reset-once', SAMPLING, "        while unevaluated_dependents:\n            progress_made = False\n", "        progress_made = False\n        while unevaluated_dependents:\n", 'D1'),
    Mutant('flag-set-without-progress', SAMPLING, "                    del unevaluated_dependents[symbol]\n                    progress_made = True\n",
           "                    del unevaluated_dependents[symbol]\n                progress_made = True\n", 'D1'),
    Mutant('dependent-not-removed', SAMPLING, "                    del unevaluated_dependents[symbol]\n", "", 'D1'),
    Mutant('circular-error-class', SAMPLING, "                raise ConfigError(\"Circularly dependent DependentSamplers detected: \" +", "                raise ValueError(\"Circularly dependent DependentSamplers detected: \" +", 'D1'),
    Mutant('constants-not-pruned', SAMPLING, "    pruned_constants = {sym: constants[sym] for sym in constants if sym not in symbols}", "    pruned_constants = dict(constants)", 'D2'),
    Mutant('constants-not-included', SAMPLING, "        sample_dict = pruned_constants.copy()", "        sample_dict = {}", 'D2'),
    Mutant('samples-share-one-dict', SAMPLING, "        sample_dict = pruned_constants.copy()", "        sample_dict = pruned_constants", 'D2'),
    Mutant('readiness-test-dropped', SAMPLING, "                if is_subset(dependencies, sample_dict):", "                if True:", 'D2'),
    Mutant('readiness-test-arguments-swapped', SAMPLING, "                if is_subset(dependencies, sample_dict):", "                if is_subset(sample_dict, dependencies):", 'D2'),
    Mutant('is-subset-inverted', SAMPLING, "        if item not in iterable_superset:\n            return False", "        if item in iterable_superset:\n            return False", 'D2'),
    Mutant('independents-are-the-dependents', SAMPLING, "        if not isinstance(sample_from[symbol], DependentSampler)\n    ]", "        if isinstance(sample_from[symbol], DependentSampler)\n    ]", 'D2'),
    Mutant('computed-from-the-constants-only', SAMPLING, "                    sample_dict[symbol] = sample_from[symbol].compute_sample(\n                        sample_dict, functions, suffixes)",
           "                    sample_dict[symbol] = sample_from[symbol].compute_sample(\n                        pruned_constants, functions, suffixes)", 'D2'),
    Mutant('functions-suffixes-swapped', SAMPLING, "                        sample_dict, functions, suffixes)", "                        sample_dict, suffixes, functions)", 'D2'),
    Mutant('independents-drawn-once', SAMPLING, "    # Generate the samples\n    sample_list = []\n    for _ in range(samples):\n        # Generate independent samples\n        sample_dict = pruned_constants.copy()\n        sample_dict.update({\n            symbol: sample_from[symbol].gen_sample() for symbol in independent\n        })\n",
           "    # Generate the samples\n    sample_list = []\n    draws = {\n        symbol: sample_from[symbol].gen_sample() for symbol in independent\n    }\n    for _ in range(samples):\n        # Generate independent samples\n        sample_dict = pruned_constants.copy()\n        sample_dict.update(draws)\n", 'D2'),
    Mutant('one-sample-too-few', SAMPLING, "    for _ in range(samples):", "    for _ in range(samples - 1):", 'D2'),
    Mutant('depends-not-inferred', SAMPLING, "            self.config['depends'] = list(parsed.variables_used)\n", "", 'D4'),
    Mutant('depends-from-functions', SAMPLING, "            self.config['depends'] = list(parsed.variables_used)", "            self.config['depends'] = list(parsed.functions_used)", 'D4'),
    Mutant('init-calcerror-not-translated', SAMPLING, "            self.config['depends'] = list(parsed.variables_used)\n        except CalcError:", "            self.config['depends'] = list(parsed.variables_used)\n        except ValueError:", 'D4'),
    Mutant('compute-calcerror-not-translated', SAMPLING, "                                  suffixes=suffixes)\n        except CalcError:", "                                  suffixes=suffixes)\n        except ValueError:", 'D4'),
    Mutant('compute-returns-usage', SAMPLING, "            result, _ = evaluator(formula=self.config['formula'],", "            _, result = evaluator(formula=self.config['formula'],", 'D4'),
    Mutant('compute-ignores-sample', SAMPLING, "                                  variables=sample_dict,", "                                  variables={},", 'D4'),
    Mutant('gen-sample-returns', SAMPLING, "        raise Exception(\"DependentSampler must be invoked with compute_sample.\")", "        return 0", 'D4'),
    Mutant('regexp-end-anchor-dropped', MH, "              r\"})$\")  # match closing", "              r\"})\")  # match closing", 'D5'),
    Mutant('regexp-leading-zeros', MH, "              r\"(?:[-]?[1-9]\\d*|0)\"", "              r\"(?:[-]?\\d+)\"", 'D5'),
    Mutant('regexp-sign-dropped', MH, "              r\"(?:[-]?[1-9]\\d*|0)\"", "              r\"(?:[1-9]\\d*|0)\"", 'D5'),
    Mutant('regexp-heads-ungrouped', MH, "    regexp = (r\"^((\" + head_list + \")\"", "    regexp = (r\"^(\" + head_list + \"\"", 'D5'),
    Mutant('regexp-index-alternation-ungrouped', MH, "              r\"(?:[-]?[1-9]\\d*|0)\"", "              r\"[-]?[1-9]\\d*|0\"", 'D5'),
    Mutant('groups-exchanged', MH, "                (full_string, head) = match.groups()", "                (head, full_string) = match.groups()", 'D5'),
    Mutant('head-appended', MH, "                variable_list.append(full_string)", "                variable_list.append(head)", 'D5'),
    Mutant('own-sampler-looked-up', MH, "                sample_from_dict[full_string] = sample_from_dict[head]", "                sample_from_dict[full_string] = sample_from_dict[self.config['numbered_vars'][0]]", 'D5'),
    Mutant('declared-names-rematched', MH, "        bad_vars = set(var for var in vars_used if var not in variable_list)", "        bad_vars = set(vars_used)", 'D5'),
    Mutant('variables-extended-in-place', MH, "        variable_list = list(self.config['variables'])", "        variable_list = self.config['variables']", 'D5'),
    Mutant('sample-from-extended-in-place', MH, "        sample_from_dict = self.config['sample_from'].copy()", "        sample_from_dict = self.config['sample_from']", 'D5'),
    Mutant('user-constants-do-not-override', SAMPLING, "        constants[var] = user_consts[var]", "        constants.setdefault(var, user_consts[var])", 'D6'),
    Mutant('defaults-extended-in-place', SAMPLING, "    constants = default_variables.copy()", "    constants = default_variables", 'D6'),
    Mutant('siblings-without-constants', MH, "                                          self.suffixes,\n                                          self.constants)", "                                          self.suffixes,\n                                          {})", 'D6'),
    Mutant('empty-sibling-accepted', MH, "                        if entry[k] == '':\n                            raise MissingInput('Cannot grade answer, a required input is missing.')\n", "", 'D6'),
    Mutant('sibling-formula-is-its-name', MH, "                        sample_from_dict[k] = DependentSampler(formula=entry[k])", "                        sample_from_dict[k] = DependentSampler(formula=k)", 'D6'),
    Mutant('sibling-not-declared', MH, "                        variables.append(k)\n", "", 'D6'),
    Mutant('sibling-functions-suffixes-swapped', MH, "                                          sample_from_dict,\n                                          self.functions,\n                                          self.suffixes,",
           "                                          sample_from_dict,\n                                          self.suffixes,\n                                          self.functions,", 'D6'),
    Mutant('dict-values-not-searched', MH, "                expressions += [v for k, v in entry.items()]", "                pass", 'D6'),
]

BENIGN = [
    Benign('flag-tested-with-is-false', SAMPLING, "            if not progress_made:", "            if progress_made is False:"),
    Benign('dependent-popped', SAMPLING, "                    del unevaluated_dependents[symbol]\n", "                    unevaluated_dependents.pop(symbol)\n"),
    Benign('is-subset-with-all', SAMPLING, "    for item in iterable:\n        if item not in iterable_superset:\n            return False\n    return True",
           "    return all(item in iterable_superset for item in iterable)"),
    Benign('constants-pruned-in-a-loop', SAMPLING, "    pruned_constants = {sym: constants[sym] for sym in constants if sym not in symbols}",
           "    pruned_constants = {}\n    for sym in constants:\n        if sym not in symbols:\n            pruned_constants[sym] = constants[sym]"),
    Benign('constants-merged-with-update', SAMPLING, "    for var in user_consts:\n        constants[var] = user_consts[var]\n", "    constants.update(user_consts)\n"),
    Benign('regexp-applied-with-fullmatch', MH, "            match = regexp.match(var)  # Returns None if no match", "            match = regexp.fullmatch(var)"),
    Benign('regexp-start-anchor-dropped', MH, "    regexp = (r\"^((\" + head_list + \")\"", "    regexp = (r\"((\" + head_list + \")\""),
    Benign('regexp-digit-class', MH, "              r\"(?:[-]?[1-9]\\d*|0)\"", "              r\"(?:-?[1-9][0-9]*|0)\""),
    Benign('heads-joined-by-comprehension', MH, "    head_list = '|'.join(map(re.escape, numbered_vars))", "    head_list = '|'.join(re.escape(h) for h in numbered_vars)"),
    Benign('undefined-diagnosis-merged', SAMPLING, "                if bad_items:\n                    bad_symbols = \", \".join(sorted(bad_items))\n                    raise ConfigError(\"DependentSamplers depend on undefined quantities: \" +\n                                      bad_symbols)\n",
           "                if bad_items:\n                    raise ConfigError(\"DependentSamplers depend on undefined quantities: \" +\n                                      \", \".join(sorted(bad_items)))\n"),
]
