"""C09 -- restrictions on student formulas cannot be bypassed to obtain credit."""
import ast

from ..index import AnalysisError, walk_own, walk_all, unparse, short, ancestors, enclosing_stmt
from ..cfg import cfg_of
from .. import nf, lib
from ..selftest import Mutant, Benign
from . import _c04_flow as fl
from . import _c09_eval as mev
from .c04 import eval_sites, scope_names, _gen_eval_roots, SCOPE_WRITERS, constant_sample_indices

ID = 'C09'
MH = 'mitxgraders/helpers/math_helpers.py'
FG = 'mitxgraders/formulagrader/formulagrader.py'
IG = 'mitxgraders/formulagrader/integralgrader.py'
MG = 'mitxgraders/formulagrader/matrixgrader.py'
EXPR = 'mitxgraders/helpers/calc/expressions.py'
FILES = [MH, FG, IG, MG, EXPR]

EXPLANATION = (
    '(D1) decision paths of MathMixin.check_math_response: the guards of every returning path that skips '
    'post_eval_validation are evaluated over the three ok values of an otherwise opaque result record; a '
    'credited value on such a path is a violation; raw_check has no other caller and the entry points delegate '
    'to check_math_response. (D2) post_eval_validation calls the three validators on every path with the '
    "student's expression / function set and the right config keys; provenance of the function set (student's "
    'evaluation; union over lower, upper and summand in the summation graders). (D3) normal forms of the '
    'validators, with loops, comprehensions, any()/all()/next() and early-return layouts seen as the same '
    "'there is an element of SEQ with P' construct: forbidden string contained in the expression with spaces "
    'removed on both sides, for every expression and forbidden string, dict values; required function not in '
    'used; used function not in permitted; InvalidInput. get_permitted_functions and the black-list of hidden '
    'names are evaluated as set algebra over Venn-region universes (defaults / always-allowed / blacklist / '
    'whitelist; instructor_vars x samples, sibling keys). (D4) in the three gen_evaluations the deletion of '
    "the black-list from the student's variable scope lies on every path between the author's and the "
    "student's evaluation, after the author's, with no re-insertion (CFG). (D5) check_scope dominates "
    'eval_node, compares the parse-time name sets with the scope and raises; evaluator and the graders forward '
    'the scope objects. '
)
NOT_DECIDED = (
    'evaluation values; that the parse actions record every name (C10); that pyparsing cannot smuggle a name '
    'past the recorded sets; validate_blacklist_whitelist_config (C20); validator shapes outside the '
    'recognised forms (analysis-error). '
)
ASSUMPTIONS = ["InvalidInput / UndefinedVariable / UndefinedFunction are student-facing (C02-D4)"]

MM = 'mitxgraders.helpers.math_helpers.MathMixin'
HELP = 'mitxgraders.helpers.math_helpers.'
FGC = 'mitxgraders.formulagrader.formulagrader.FormulaGrader'
SGB = 'mitxgraders.formulagrader.integralgrader.SummationGraderBase'
IGC = 'mitxgraders.formulagrader.integralgrader.IntegralGrader'
SGC = 'mitxgraders.formulagrader.integralgrader.SumGrader'
ME = 'mitxgraders.helpers.calc.expressions.MathExpression'


def check(ctx):
    idx = ctx.index
    d1_validation_on_credit(ctx, idx)
    d2_post_eval(ctx, idx)
    d3_validators(ctx, idx)
    d3_permitted(ctx, idx)
    d4_scrub(ctx, idx)
    d5_scope(ctx, idx)


# ----------------------------------------------------------------------------- D1
RECORDS = [{'ok': True, 'grade_decimal': 1, 'msg': ''}, {'ok': 'partial', 'grade_decimal': 0.5, 'msg': ''},
           {'ok': False, 'grade_decimal': 0, 'msg': ''}]


def d1_validation_on_credit(ctx, idx):
    r = ctx.rule('D1.MPT', 'post_eval_validation has run on every path that returns a credited verdict', floor=6)
    with r:
        fi = idx.func(MM + '.check_math_response')
        C = 'MathMixin.check_math_response'
        p_self, p_answer, p_input = fi.params[0], fi.params[1], fi.params[2]
        rc = lib.one_call(fi, 'raw_check')
        st = enclosing_stmt(rc)
        if not (isinstance(st, ast.Assign) and st.value is rc and isinstance(st.targets[0], (ast.Tuple, ast.List))
                and len(st.targets[0].elts) == 2 and all(isinstance(e, ast.Name) for e in st.targets[0].elts)):
            raise AnalysisError('check_math_response: `result, used_funcs = self.raw_check(...)` not found')
        res_name, used_name = [e.id for e in st.targets[0].elts]
        a_in = rc.args[1] if len(rc.args) > 1 else None
        if not (isinstance(a_in, ast.Name) and a_in.id == p_input):
            r.undecided(C + ': raw_check(...)', 'second argument is not the student input', lib.loc(fi, rc))
        pvs = lib.calls_named(fi.node, 'post_eval_validation')
        if not pvs:
            fl.absent(r, idx, C, 'post_eval_validation is never called: forbidden strings, required functions and the permitted-function '
                        'set are not enforced at all', fi.loc)
            return
        # path analysis: keep res_name symbolic
        paths = nf.decision_paths(fi.node.body, keep_locals=(res_name, used_name))
        n_valid = 0
        skipping = []
        for p in paths:
            where = lib.loc(fi, p.leaf.stmt) if p.leaf.stmt is not None else fi.loc
            if p.leaf.kind == 'raise':
                continue
            if p.leaf.kind == 'fall':
                r.violation(C, 'a path returns None instead of the result', where)
                continue
            validated = any(any(isinstance(n, ast.Call) and nf.callee_name(n) == 'post_eval_validation' for n in ast.walk(e))
                            for e in p.effects)
            if not (isinstance(p.leaf.expr, ast.Name) and p.leaf.expr.id == res_name):
                r.undecided(C + ': return', 'returns `%s`, not the raw result' % short(p.leaf.expr), where)
                continue
            if validated:
                n_valid += 1
            else:
                skipping.append((p, where))
        bad = False
        for p, where in skipping:
            gtxt = ' and '.join(unparse(g) for g in p.guards) or 'unconditional'
            # which result records can take a path that skips validation?  Guards that do not speak about the
            # result (e.g. config['debug']) are treated as satisfiable.
            witnesses = []
            try:
                for rec in RECORDS:
                    if all(mev.ev(g, {res_name: rec}) for g in p.guards if fl.mentions(g, res_name)):
                        witnesses.append(rec)
            except mev.Unsupported as e:
                bad = True
                r.undecided(C + ': paths that skip validation', 'guard `%s` not evaluable over the result records (%s)' % (gtxt, e), where)
                continue
            credited = [w for w in witnesses if w['ok'] is not False]
            if credited:
                bad = True
                r.violation(C + ': paths that skip validation', "under `%s` a verdict with ok=%r (grade %s) is returned without "
                            "post_eval_validation: a formula that uses a black-listed function or a forbidden string, or omits a "
                            "required function, keeps this credit" % (gtxt, credited[0]['ok'], credited[0]['grade_decimal']), where,
                            expected="validation whenever ok is True or 'partial'")
        if not bad:
            r.ok(C + ': paths that skip validation', '%d returning path(s) validate; %d skip validation, all only for ok=False'
                 % (n_valid, len(skipping)), fi.loc)
        if n_valid == 0 and not bad:
            r.violation(C + ': paths that skip validation', 'no returning path runs post_eval_validation', fi.loc)
        # arguments of the validation call (D6: never the author's expression)
        for pv in pvs:
            a0 = lib.get_kw(pv, 'expr', 0)
            a1 = lib.get_kw(pv, 'used_funcs', 1)
            where = lib.loc(fi, pv)
            if isinstance(a0, ast.Name) and a0.id == p_input:
                r.ok(C + ': post_eval_validation(expr)', "the student's input", where)
            elif a0 is not None and fl.mentions(a0, p_answer):
                r.violation(C + ': post_eval_validation(expr)', "the AUTHOR's answer (`%s`) is validated instead of the student's input: "
                            "forbidden strings in the submission go unnoticed and the author's own answer is held against the "
                            "restrictions" % short(a0), where, expected=p_input)
            else:
                r.undecided(C + ': post_eval_validation(expr)', 'first argument not recognised: %s' % short(a0), where)
            if isinstance(a1, ast.Name) and a1.id == used_name:
                r.ok(C + ': post_eval_validation(used_funcs)', "the function set returned by raw_check", where)
            elif isinstance(a1, (ast.Set, ast.List, ast.Call)) and not lib.names_in(a1) - {'set', 'list'}:
                r.violation(C + ': post_eval_validation(used_funcs)', 'a constant/empty function set (`%s`) is validated instead of the '
                            'functions the student used' % short(a1), where, expected=used_name)
            else:
                r.undecided(C + ': post_eval_validation(used_funcs)', 'second argument not recognised: %s' % short(a1), where)
        # raw_check is called from nowhere else
        n_callers = 0
        for f in idx.package_funcs():
            for c in lib.calls_named(f.node, 'raw_check'):
                n_callers += 1
                if f.qualname == fi.qualname:
                    r.ok(C + ': raw_check(...)', 'the only caller of raw_check', lib.loc(f, c))
                else:
                    r.violation('%s: raw_check(...)' % f.qualname, 'the raw verdict is obtained outside check_math_response: this path '
                                'grades without post-evaluation validation', lib.loc(f, c))
        # entry points return check_math_response
        for q, meth in ((FGC, 'check_response'), (SGB, 'check')):
            f = idx.func('%s.%s' % (q, meth))
            name = '%s.%s' % (q.split('.')[-1], meth)
            rets = [x for x in lib.returns_of(f.node)]
            if not rets:
                raise AnalysisError('%s has no return' % name)
            for x in rets:
                v = x.value
                if isinstance(v, ast.Call) and nf.callee_name(v) == 'check_math_response':
                    sarg = v.args[1] if len(v.args) > 1 else None
                    r.ok(name + ': return', 'delegates to check_math_response', lib.loc(f, x))
                elif isinstance(v, ast.Call) and nf.callee_name(v) == 'raw_check' or \
                        (isinstance(v, ast.Subscript) and isinstance(v.value, ast.Call) and nf.callee_name(v.value) == 'raw_check'):
                    pass    # reported above
                else:
                    r.undecided(name + ': return', 'returns `%s`' % short(v), lib.loc(f, x))


# ----------------------------------------------------------------------------- D2
VALIDATORS = {
    'validate_forbidden_strings_not_used': ('expr', [('forbidden_strings', 'cfg:forbidden_strings'), ('forbidden_msg', 'cfg:forbidden_message')]),
    'validate_required_functions_used': ('used_funcs', [('required_funcs', 'cfg:required_functions')]),
    'validate_only_permitted_functions_used': ('used_funcs', [('permitted_functions', 'attr:permitted_functions')]),
}
WHAT = {'validate_forbidden_strings_not_used': 'forbidden strings are', 'validate_required_functions_used': 'required functions are',
        'validate_only_permitted_functions_used': 'the blacklist/whitelist is'}


def _arg_for(callee_fi, call, pname):
    params = [p for p in callee_fi.params if p not in ('self', 'cls')]
    for k in call.keywords:
        if k.arg == pname:
            return k.value
    if pname in params and params.index(pname) < len(call.args):
        return call.args[params.index(pname)]
    return None


def _zero_based_or_none(idx, ci, attr):
    """Is self.<attr> (set in __init__ of class ci or a base) a mapping whose values are `<1-based position> - 1` or None?
    Then a value can be 0, and a truthiness test of it drops the first position together with the absent ones."""
    for q in ci.mro:
        k = idx.classes.get(q)
        init = k.methods.get('__init__') if k is not None else None
        if init is None:
            continue
        for n in walk_own(init.node):
            if isinstance(n, ast.Assign) and any(nf.match('self.%s' % attr, t) is not None for t in n.targets) \
                    and isinstance(n.value, ast.Call):
                targets, how = idx.resolve_call(init, n.value)
                for t in targets:
                    if isinstance(t, tuple):
                        continue
                    for ret in lib.returns_of(t.node):
                        v = ret.value
                        if isinstance(v, ast.DictComp):
                            val = v.value
                            parts = [val.body, val.orelse] if isinstance(val, ast.IfExp) else [val]
                            minus1 = any(isinstance(x, ast.BinOp) and isinstance(x.op, ast.Sub) and nf.const_value(x.right, None) == 1
                                         for x in parts)
                            none = any(isinstance(x, ast.Constant) and x.value is None for x in parts)
                            if minus1 and none:
                                return True
    return False


def _post_eval_overrides(r, idx):
    """Every student-typed expression must reach the validators: a subclass that re-implements post_eval_validation stands
    between them.  Recognised defect: it forwards a FILTERED view of the expressions whose filter is the truthiness of a
    0-based position (box 0 is dropped).  Any other override is unreviewed (undecided)."""
    for ci in idx.family(MM):
        if ci.qualname == MM or 'post_eval_validation' not in ci.methods:
            continue
        f = ci.methods['post_eval_validation']
        name = f.qualname       # full qualified name: the finding is about this (new) function itself
        p_expr = f.params[1] if len(f.params) > 1 else None
        env = fl.flat_env(f.node)
        reported = False
        for c in lib.calls_named(f.node, 'post_eval_validation') + [c for v in ('validate_forbidden_strings_not_used',)
                                                                     for c in lib.calls_named(f.node, v)]:
            a0 = fl.expand(c.args[0], env) if c.args else None
            if isinstance(a0, (ast.DictComp, ast.ListComp, ast.GeneratorExp)) and len(a0.generators) == 1 and a0.generators[0].ifs \
                    and p_expr and fl.mentions(a0.generators[0].iter, p_expr):
                cond = nf.canon(a0.generators[0].ifs[0])
                if isinstance(cond, ast.Subscript) and isinstance(cond.value, ast.Attribute) and fl.name_of(cond.value.value) == f.params[0] \
                        and _zero_based_or_none(idx, ci, cond.value.attr):
                    r.violation(name, 'the expressions handed to the validators are filtered by the TRUTHINESS of `%s`, a 0-based position or '
                                'None: the entry typed into the first box (position 0) is dropped together with the entries the student '
                                'did not type, so a forbidden string in that box is never checked (use `is not None`)' % unparse(cond),
                                lib.loc(f, c), expected='%s is not None' % unparse(cond), found=unparse(cond))
                    reported = True
        if not reported:
            r.undecided(name, 'unreviewed override of post_eval_validation between the student\'s expressions and the validators', f.loc)


def d2_post_eval(ctx, idx):
    r = ctx.rule('D2.VALIDATE', "post_eval_validation runs all three validators on the student's expression and function set",
                 floor=18)
    with r:
        fi = idx.func(MM + '.post_eval_validation')
        C = 'MathMixin.post_eval_validation'
        p_expr, p_used = fi.params[1], fi.params[2]
        cfg = cfg_of(fi.node)
        for vname, (first, rest) in VALIDATORS.items():
            calls = lib.calls_named(fi.node, vname)
            if not calls:
                fl.absent(r, idx, C + ': ' + vname, 'the validator is no longer called: %s not enforced for any submission' % WHAT[vname],
                            fi.loc)
                continue
            call = calls[0]
            where = lib.loc(fi, call)
            callee = idx.func(HELP + vname)
            nodes = fl.nodes_for(cfg, call)
            if cfg.must_pass([cfg.entry], nodes, exits='return'):
                r.ok(C + ': ' + vname, 'called on every returning path', where)
            else:
                chain = fl.if_chain_containing(call, fi.node)
                cfgarg = _arg_for(callee, call, rest[0][0])
                benign = len(chain) == 1 and chain[0][1] == 'body' and cfgarg is not None and nf.equal(nf.canon(chain[0][0].test), nf.canon(cfgarg))
                if benign:
                    r.ok(C + ': ' + vname, 'skipped only when its configuration list is empty', where)
                elif chain:
                    r.violation(C + ': ' + vname, 'the validator only runs under `%s`: otherwise %s not enforced'
                                % (short(chain[0][0].test), WHAT[vname]), where)
                else:
                    r.violation(C + ': ' + vname, 'a returning path skips the validator (an earlier statement returns first)', where)
            a = _arg_for(callee, call, first)
            want = p_expr if first == 'expr' else p_used
            other = p_used if first == 'expr' else p_expr
            if isinstance(a, ast.Name) and a.id == want:
                r.ok(C + ': %s(%s)' % (vname, first), "receives the student's %s" % ('expression(s)' if first == 'expr' else 'function set'), where)
            elif isinstance(a, ast.Name) and a.id == other:
                r.violation(C + ': %s(%s)' % (vname, first), 'receives `%s` instead of `%s`' % (other, want), where, expected=want)
            elif a is not None and not lib.names_in(a) - {'set', 'list', 'str'}:
                r.violation(C + ': %s(%s)' % (vname, first), 'receives the constant `%s`: the submission is not examined' % short(a), where)
            else:
                r.undecided(C + ': %s(%s)' % (vname, first), 'argument not recognised: %s' % short(a), where)
            for pname, spec in rest:
                a = _arg_for(callee, call, pname)
                kind, key = spec.split(':')
                good = lib.is_config(a, key) if kind == 'cfg' else nf.match('self.%s' % key, a) is not None
                if good:
                    r.ok(C + ': %s(%s)' % (vname, pname), spec, where)
                elif kind == 'cfg' and a is not None and nf.config_key(a) is not None:
                    r.violation(C + ': %s(%s)' % (vname, pname), "receives config['%s'] instead of config['%s']" % (nf.config_key(a), key),
                                where, expected="self.config['%s']" % key)
                elif kind == 'attr' and isinstance(a, ast.Attribute) and fl.name_of(a.value) == fi.params[0]:
                    r.violation(C + ': %s(%s)' % (vname, pname), 'receives self.%s instead of self.%s: every function available during '
                                'evaluation counts as permitted' % (a.attr, key), where, expected='self.%s' % key)
                elif isinstance(a, (ast.List, ast.Set, ast.Tuple, ast.Constant)):
                    r.violation(C + ': %s(%s)' % (vname, pname), 'receives the constant `%s` instead of the configured value' % short(a),
                                where)
                else:
                    r.undecided(C + ': %s(%s)' % (vname, pname), 'argument not recognised: %s' % short(a), where)
        _post_eval_overrides(r, idx)
        # where the function set comes from: third result of gen_evaluations is the student's
        for q in (FGC, IGC, SGC):
            g = idx.func(q + '.gen_evaluations')
            name = q.split('.')[-1] + '.gen_evaluations'
            author, student = _gen_eval_roots(g)
            prov = fl.Prov(g.node, roots=[author, student])
            for ret in lib.returns_of(g.node):
                v = ret.value
                if not (isinstance(v, ast.Tuple) and len(v.elts) == 3):
                    r.undecided(name + ': functions used', 'return is not a 3-tuple', lib.loc(g, ret))
                    continue
                pr = prov.of(v.elts[2])
                if pr == {student}:
                    r.ok(name + ': functions used', "taken from the student's evaluation", lib.loc(g, ret))
                elif pr == {author}:
                    r.violation(name + ': functions used', "the function set handed to the validators comes from the AUTHOR's expressions "
                                "(`%s`): the student's functions are never checked against the blacklist/whitelist/required list"
                                % short(v.elts[2]), lib.loc(g, ret), expected="functions used by the student's input")
                elif not pr and isinstance(v.elts[2], (ast.Call, ast.Set)) and not lib.names_in(v.elts[2]) - {'set'}:
                    r.violation(name + ': functions used', 'an empty/constant function set is reported: no function restriction can fire',
                                lib.loc(g, ret))
                else:
                    r.undecided(name + ': functions used', 'provenance %s not recognised' % sorted(pr), lib.loc(g, ret))
        # raw_check forwards it
        for q in (FGC, SGB):
            f = idx.func(q + '.raw_check')
            name = q.split('.')[-1] + '.raw_check'
            gcall = lib.one_call(f, 'gen_evaluations')
            st = enclosing_stmt(gcall)
            names = [e.id for e in st.targets[0].elts] if isinstance(st, ast.Assign) and isinstance(st.targets[0], (ast.Tuple, ast.List)) \
                and all(isinstance(e, ast.Name) for e in st.targets[0].elts) else []
            for ret in lib.returns_of(f.node):
                v = ret.value
                if isinstance(v, ast.Tuple) and len(v.elts) == 2 and isinstance(v.elts[1], ast.Name) and len(names) == 3:
                    if v.elts[1].id == names[2]:
                        r.ok(name + ': functions used', 'forwards the third result of gen_evaluations', lib.loc(f, ret))
                    else:
                        r.violation(name + ': functions used', '`%s` is returned as the function set instead of `%s`' % (v.elts[1].id, names[2]),
                                    lib.loc(f, ret))
                elif isinstance(v, ast.Tuple) and len(v.elts) == 2 and not lib.names_in(v.elts[1]) - {'set'}:
                    r.violation(name + ': functions used', 'a constant function set `%s` is returned' % short(v.elts[1]), lib.loc(f, ret))
                else:
                    r.undecided(name + ': functions used', 'return not recognised: %s' % short(ret), lib.loc(f, ret))
        # summation graders: union over lower, upper and the summand/integrand
        f = idx.func(SGB + '.get_limits_and_funcs')
        name = 'SummationGraderBase.get_limits_and_funcs'
        rets = lib.returns_of(f.node)
        if len(rets) != 1 or not isinstance(rets[0].value, ast.Tuple) or len(rets[0].value.elts) != 3:
            raise AnalysisError('%s: expected `return lower, upper, used_funcs`' % name)
        uf = lib.inline_locals(rets[0].value.elts[2], f.node, depth=1)
        parts = _union_parts(uf)
        p_expr, p_lo, p_up = f.params[1], f.params[2], f.params[3]
        prov = fl.Prov(f.node, roots=[p_expr, p_lo, p_up])
        if parts is None:
            r.undecided(name + ': used functions', 'not a union of .functions_used sets: %s' % short(uf), lib.loc(f, rets[0]))
        else:
            got = set()
            for part in parts:
                if isinstance(part, ast.Attribute) and part.attr == 'functions_used':
                    got |= prov.of(part.value)
                else:
                    got = None
                    break
            if got is None:
                r.undecided(name + ': used functions', 'union member not recognised', lib.loc(f, rets[0]))
            else:
                missing = {p_expr, p_lo, p_up} - got
                labels = {p_expr: 'summand/integrand', p_lo: 'lower limit', p_up: 'upper limit'}
                r.check(not missing, name + ': used functions', 'union over lower limit, upper limit and summand/integrand',
                        'functions used in the %s are not reported: a black-listed function hidden there passes validation'
                        % ', '.join(labels[m] for m in sorted(missing)), lib.loc(f, rets[0]))
        for q, meth, body in ((IGC, 'evaluate_int', 'integrand_str'), (SGC, 'evaluate_sum', 'summand_str')):
            f = idx.func('%s.%s' % (q, meth))
            name = '%s.%s' % (q.split('.')[-1], meth)
            call = lib.one_call(f, 'get_limits_and_funcs')
            callee = idx.func(SGB + '.get_limits_and_funcs')
            mapping = {pn: _arg_for(callee, call, pn) for pn in ('expression', 'lower_str', 'upper_str')}
            want = {'expression': body, 'lower_str': 'lower_str', 'upper_str': 'upper_str'}
            bad = [pn for pn in mapping if fl.name_of(mapping[pn]) != want[pn]]
            st = enclosing_stmt(call)
            tn = [e.id for e in st.targets[0].elts] if isinstance(st, ast.Assign) and isinstance(st.targets[0], ast.Tuple) \
                and all(isinstance(e, ast.Name) for e in st.targets[0].elts) else []
            rets = lib.returns_of(f.node)
            last_ok = len(tn) == 3 and rets and all(isinstance(x.value, ast.Tuple) and isinstance(x.value.elts[-1], ast.Name)
                                                    and x.value.elts[-1].id == tn[2] for x in rets)
            if bad:
                r.undecided(name + ': get_limits_and_funcs(...)', 'arguments not recognised for %s' % bad, lib.loc(f, call))
            elif last_ok:
                r.ok(name + ': used functions', "returns get_limits_and_funcs' function set for (%s, lower, upper)" % body, lib.loc(f, call))
            else:
                r.undecided(name + ': used functions', 'the function set of get_limits_and_funcs is not what is returned last', lib.loc(f, call))


def _union_parts(e):
    """Members of a.union(b, c) / a | b | c, else None."""
    if isinstance(e, ast.Call) and isinstance(e.func, ast.Attribute) and e.func.attr == 'union' and not e.keywords:
        recv = e.func.value
        if isinstance(recv, ast.Call) and nf.callee_name(recv) in ('set', 'frozenset') and not recv.args and not recv.keywords:
            head = []
        else:
            head = _union_parts(recv) or [recv]
        out = list(head)
        for a in e.args:
            out.extend(_union_parts(a) or [a])
        return out
    if isinstance(e, ast.BinOp) and isinstance(e.op, ast.BitOr):
        return (_union_parts(e.left) or [e.left]) + (_union_parts(e.right) or [e.right])
    if isinstance(e, ast.Call) and nf.callee_name(e) == 'set' and len(e.args) == 1:
        return _union_parts(e.args[0])
    return None


# ----------------------------------------------------------------------------- D3
def _raise_class_ok(idx, fi, raise_stmt, want=('InvalidInput',)):
    cn = nf.exc_class_name(raise_stmt.exc)
    return cn, (cn in want or lib.exc_is_subclass(idx, fi.module, cn, 'StudentFacingError'))


def _guarded_raise(fi, pred):
    """(If node, Raise) pairs where the raise sits directly in the body of an If (not else)."""
    out = []
    for n in walk_own(fi.node):
        if isinstance(n, ast.Raise):
            chain = fl.if_chain_containing(n, fi.node)
            if chain and chain[-1][1] == 'body':
                out.append((chain[-1][0], n))
            else:
                out.append((None, n))
    return out


def _strip_kind(e, var):
    """'stripped' if e is var.replace(' ', ''), 'raw' if e is var, else None."""
    if isinstance(e, ast.Name) and e.id == var:
        return 'raw'
    for p in ("%s.replace(' ', '')", "''.join(%s.split())", "%s.replace(' ', '').replace('\\t', '')"):
        if nf.match(p % var, e) is not None:
            return 'stripped'
    return None


def d3_validators(ctx, idx):
    r = ctx.rule('D3.NF', 'the three validators refuse exactly: forbidden substring (spaces ignored on both sides), missing '
                 'required function, used function outside the permitted set', floor=12)
    with r:
        # ---- forbidden strings (loops, comprehensions and any()/all() forms are seen as the same iteration construct)
        fi = idx.func(HELP + 'validate_forbidden_strings_not_used')
        C = 'validate_forbidden_strings_not_used'
        p_expr, p_forb, p_msg = fi.params
        env = lib.local_env(fi.node)
        raises = [(t, x) for t, x in _guarded_raise(fi, None) if t is not None]
        if not raises:
            fl.absent(r, idx, C + ': test', 'no containment test raises any more: forbidden strings are accepted', fi.loc)
        prov = fl.Prov(fi.node, roots=[p_expr, p_forb])
        for t, x in raises:
            where = lib.loc(fi, t)
            test = fl.expand(t.test, env)
            binds = []          # (variable, sequence expr, kind, node) innermost first
            core = test
            negated = False
            if isinstance(core, ast.UnaryOp) and isinstance(core.op, ast.Not) and isinstance(core.operand, ast.Call) \
                    and nf.callee_name(core.operand) == 'all':
                core, negated = core.operand, True       # not all(... not in ...) == any(... in ...)
            while isinstance(core, ast.Call) and isinstance(core.func, ast.Name) and core.func.id in ('any', 'all') and len(core.args) == 1 \
                    and isinstance(core.args[0], (ast.GeneratorExp, ast.ListComp)):
                comp = core.args[0]
                if core.func.id == 'all' and not negated:
                    break
                for g in reversed(comp.generators):
                    binds.append((fl.name_of(g.target), g.iter, 'comp', g))
                core = comp.elt
            for a in ancestors(t):
                if isinstance(a, ast.For):
                    binds.append((fl.name_of(a.target), a.iter, 'for', a))
            core = nf.canon(core)
            if negated:
                core = nf.negate(core)
            if not (isinstance(core, ast.Compare) and len(core.ops) == 1 and isinstance(core.ops[0], (ast.In, ast.NotIn))):
                r.undecided(C + ': test', 'not a containment test: %s' % short(test), where)
                continue

            def role_of_var(v):
                for name, seq, kind, node in binds:
                    if name == v:
                        s_, _ = fl.unwrap_seq(seq)
                        sliced = isinstance(s_, ast.Subscript) and isinstance(s_.slice, ast.Slice)
                        base = s_.value if sliced else s_
                        pr = prov.of(base)
                        if pr == {p_forb}:
                            return 'forbidden', sliced, kind, node
                        if pr == {p_expr}:
                            return 'expression', sliced, kind, node
                return None

            def side(e):
                names = [n.id for n in ast.walk(e) if isinstance(n, ast.Name)]
                for v in names:
                    ro = role_of_var(v)
                    if ro:
                        return v, ro
                return None, None
            needle, hay = core.left, core.comparators[0]
            nv, nrole = side(needle)
            hv, hrole = side(hay)
            if nrole is None or hrole is None:
                r.undecided(C + ': test', 'operands of `%s` not traced to the expressions / forbidden strings' % short(core), where)
                continue
            if nrole[0] == 'expression' and hrole[0] == 'forbidden':
                r.violation(C + ': test', 'containment is tested the wrong way round (`%s`): the expression must occur inside the '
                            'forbidden string for the check to fire' % unparse(core), where, expected='forbidden in expression')
                continue
            if nrole[0] != 'forbidden' or hrole[0] != 'expression':
                r.undecided(C + ': test', 'roles of the operands not recognised: %s' % short(core), where)
                continue
            if isinstance(core.ops[0], ast.NotIn):
                r.violation(C + ': test', 'the test is `not in`: expressions WITHOUT the forbidden string are refused and those containing '
                            'it are accepted', where, expected='in')
                continue
            kn, kh = _strip_kind(needle, nv), _strip_kind(hay, hv)

            def prepared_by_callee(ro):
                """The items come out of a package function (e.g. a generator that yields the expressions already stripped):
                'stripped' if every value it yields/returns is <item>.replace(' ', '') of its own loop variable, else 'unknown'."""
                seq = ro[3].iter
                calls = [c for c in ast.walk(seq) if isinstance(c, ast.Call) and isinstance(c.func, ast.Name)
                         and c.func.id in fi.module.funcs]
                if not calls:
                    return None
                h = fi.module.funcs[calls[0].func.id]
                outs = [n.value for n in walk_own(h.node) if isinstance(n, (ast.Yield, ast.Return)) and n.value is not None]
                henv = lib.local_env(h.node)
                ok_all = bool(outs)
                for o in outs:
                    o = fl.expand(o, henv)
                    if isinstance(o, (ast.ListComp, ast.GeneratorExp)):
                        o = o.elt
                    names = [n.id for n in ast.walk(o) if isinstance(n, ast.Name)]
                    if not any(_strip_kind(o, v) == 'stripped' for v in names):
                        ok_all = False
                return 'stripped' if ok_all else 'unknown'
            if kh == 'raw' and prepared_by_callee(hrole) is not None:
                kh = 'stripped' if prepared_by_callee(hrole) == 'stripped' else None
            if kn == 'raw' and prepared_by_callee(nrole) is not None:
                kn = 'stripped' if prepared_by_callee(nrole) == 'stripped' else None
            if kh == 'raw':
                r.violation(C + ': test [student side]', "spaces are not removed from the student's expression: '+x' is missed when the "
                            "student types it with a space inside (e.g. '+ x' vs '+x')", where, expected="expression.replace(' ', '')")
            elif kh == 'stripped':
                r.ok(C + ': test [student side]', "spaces removed from the student's expression", where)
                if nf.match("%s.replace(' ', '')" % hv, hay) is not None:
                    r.note("by-catch: only U+0020 is removed before the forbidden-string test, while the formula parser also skips TAB and "
                           "newline: 'sin(2*<TAB>theta)' is not matched by forbidden string '*theta' yet parses like 'sin(2*theta)' "
                           "(the property speaks of spaces only; reported for triage)")
            else:
                r.undecided(C + ': test [student side]', 'preparation of the expression not recognised: %s' % short(hay), where)
            if kn == 'raw':
                r.violation(C + ': test [forbidden side]', "spaces are not removed from the forbidden string: an entry such as '+ x' never "
                            "matches the space-free expression", where, expected="forbidden.replace(' ', '')")
            elif kn == 'stripped':
                r.ok(C + ': test [forbidden side]', 'spaces removed from the forbidden string', where)
            else:
                r.undecided(C + ': test [forbidden side]', 'preparation of the forbidden string not recognised: %s' % short(needle), where)
            cn, ok = _raise_class_ok(idx, fi, x)
            r.check(ok, C + ': error', 'raises %s' % cn, 'raises %s, which is not a student-facing error' % cn, lib.loc(fi, x),
                    expected='InvalidInput')
            r.ok(C + ': nesting', 'every forbidden string is tested against every expression', where)
            for (v, ro), what in (((hv, hrole), 'expressions'), ((nv, nrole), 'forbidden strings')):
                _, sliced, kind, node = ro
                if sliced:
                    r.violation(C + ': loop over ' + what, 'only part of the %s is examined (`%s`)' % (what, short(node.iter)), where)
                elif kind == 'for':
                    exits = [e for e in lib.loop_has_early_exit(node) if not isinstance(e, (ast.Raise, ast.Continue))]
                    conts = [e for e in lib.loop_has_early_exit(node) if isinstance(e, ast.Continue)]
                    if conts and not exits:
                        r.undecided(C + ': loop over ' + what, '`continue` inside the loop over the %s: which items it skips is not analysed'
                                    % what, lib.loc(fi, conts[0]))
                        continue
                    inner_loops = [b[3] for b in binds if b[2] == 'for' and b[3] is not node and any(a is node for a in ancestors(b[3]))]
                    ids = {id(n) for il in inner_loops for n in ast.walk(il)}
                    exits = [e for e in exits if id(e) not in ids]
                    r.check(not exits, C + ': loop over ' + what, 'no early exit', 'the loop over the %s is left early (`%s`): later %s are '
                            'not examined' % (what, short(exits[0]) if exits else '', what), lib.loc(fi, exits[0] if exits else node))
                else:
                    r.check(not node.ifs, C + ': loop over ' + what, 'the generator visits every element',
                            'the generator skips %s under `%s`' % (what, short(node.ifs[0]) if node.ifs else ''), where)
        # dict / scalar normalisation of expr (in this function or in one newly extracted helper it hands expr to)
        hosts = [(fi, p_expr)]
        for c in walk_own(fi.node):
            if isinstance(c, ast.Call) and isinstance(c.func, ast.Name) and c.func.id in fi.module.funcs and \
                    (HELP + c.func.id) in idx.unreviewed and c.args and fl.name_of(c.args[0]) == p_expr:
                h = fi.module.funcs[c.func.id]
                hosts.append((h, h.params[0]))
        verdict = None
        for h, pe in hosts:
            for n in ast.walk(h.node):
                val = None
                if isinstance(n, (ast.Assign, ast.Return)) and n.value is not None:
                    chain = fl.if_chain_containing(n, h.node)
                    if chain and any('dict' in unparse(a.test) and br == 'body' for a, br in chain):
                        val = n.value
                elif isinstance(n, ast.IfExp) and 'dict' in unparse(n.test):
                    val = n.body
                if val is None:
                    continue
                good = any(nf.match(p_ % {'e': pe}, val) is not None for p_ in
                           ('[_V for _K, _V in %(e)s.items()]', 'list(%(e)s.values())', '[%(e)s[_K] for _K in %(e)s]', '%(e)s.values()'))
                keys = any(nf.match(p_ % {'e': pe}, val) is not None for p_ in
                           ('[_K for _K, _V in %(e)s.items()]', 'list(%(e)s)', 'list(%(e)s.keys())', '%(e)s.keys()'))
                if good:
                    verdict = ('ok', lib.loc(h, n))
                elif keys:
                    verdict = ('keys', lib.loc(h, n))
                elif verdict is None:
                    verdict = ('und', lib.loc(h, n), short(val))
        if verdict is None:
            r.undecided(C + ': dict input', 'no normalisation of dict inputs found (summation graders pass a dict)', fi.loc)
        elif verdict[0] == 'ok':
            r.ok(C + ': dict input', 'all values of a structured input are examined', verdict[1])
        elif verdict[0] == 'keys':
            r.violation(C + ': dict input', 'the KEYS of a structured input are examined instead of the submitted expressions', verdict[1])
        else:
            r.undecided(C + ': dict input', 'not recognised: %s' % verdict[2], verdict[1])

        # ---- required functions / only permitted functions: "refuse iff some element of SEQ is not in OTHER"
        for fname, seq_i, other_i, what_ok, what_inv, what_swap in (
                ('validate_required_functions_used', 1, 0, 'raises when a required function is not among the used ones',
                 'a formula that omits a required function is accepted (and one that uses it is refused)',
                 'the roles are swapped: the formula is refused when it uses a function that is not required'),
                ('validate_only_permitted_functions_used', 0, 1, 'raises when a used function is not permitted',
                 'the PERMITTED functions are refused: every formula that uses an allowed function is refused and one that uses only '
                 'forbidden functions is accepted',
                 'the roles are swapped: the formula is refused unless it uses every permitted function, and forbidden functions pass')):
            fi = idx.func(HELP + fname)
            C = fname
            p_seq, p_other = fi.params[seq_i], fi.params[other_i]
            env = lib.local_env(fi.node)
            raises = [x for x in walk_own(fi.node) if isinstance(x, ast.Raise)]
            if not raises:
                fl.absent(r, idx, C + ': test', 'nothing is raised any more: %s' % what_inv.split(':')[0], fi.loc)
                continue
            for x in raises:
                where = lib.loc(fi, x)
                loop = fl.enclosing_loop(x, fi.node)
                conj = fl.reach_condition(x, fi.node)
                if len(conj) != 1:
                    if not conj:
                        r.undecided(C + ': test', 'unconditional raise', where)
                    else:
                        r.undecided(C + ': test', 'several conditions guard the raise: %s' % ' and '.join(unparse(c) for c in conj), where)
                    continue
                cond = conj[0]
                if isinstance(cond, ast.Constant):
                    r.violation(C + ': test', 'the refusal is %s (`if %r`)' % ('unreachable' if not cond.value else 'unconditional',
                                                                               cond.value), where)
                    continue
                view = fl.exists_view(cond, env, loop)
                if view is None:
                    r.undecided(C + ': test', 'not recognised: %s' % short(fl.expand(cond, env)), where)
                    continue
                seq, v, pred = view
                seq_u, _ = fl.unwrap_seq(seq)
                sliced = isinstance(seq_u, ast.Subscript) and isinstance(seq_u.slice, ast.Slice)
                base = seq_u.value if sliced else seq_u
                want = nf.match('%s not in %s' % (v, p_other), pred) is not None
                inverted = nf.match('%s in %s' % (v, p_other), pred) is not None
                if fl.name_of(base) == p_seq and want and not sliced:
                    r.ok(C + ': test', what_ok, where)
                elif fl.name_of(base) == p_seq and sliced:
                    r.violation(C + ': test', 'only part of `%s` is examined (`%s`)' % (p_seq, short(seq_u)), where)
                elif fl.name_of(base) == p_seq and inverted:
                    r.violation(C + ': test', 'the membership test is inverted (`%s`): %s' % (unparse(pred), what_inv), where,
                                expected='%s not in %s' % (v, p_other), found=unparse(pred))
                elif fl.name_of(base) == p_other and nf.match('%s not in %s' % (v, p_seq), pred) is not None:
                    r.violation(C + ': test', what_swap + ' (`%s` over `%s`)' % (unparse(pred), short(seq_u)), where,
                                expected='for f in %s: f not in %s' % (p_seq, p_other))
                else:
                    r.undecided(C + ': test', 'iteration `%s` / predicate `%s` not recognised' % (short(seq_u), short(pred)), where)
                cn, ok = _raise_class_ok(idx, fi, x)
                r.check(ok, C + ': error', 'raises %s' % cn, 'raises %s, which is not a student-facing error' % cn, where)
                if fname == 'validate_required_functions_used':
                    if loop is not None:
                        # `continue` goes on with the next required function (its effect on THIS item is part of the reach
                        # condition above); only break / return leave the loop before all items are visited
                        exits = [e for e in lib.loop_has_early_exit(loop) if not isinstance(e, (ast.Raise, ast.Continue))]
                        r.check(not exits, C + ': loop', 'every required function is examined', 'the loop is left early (`%s`): only the '
                                'first required function is enforced' % (short(exits[0]) if exits else ''),
                                lib.loc(fi, exits[0] if exits else loop))
                    else:
                        r.ok(C + ': loop', 'the generator/filter visits every required function', where)


# Venn regions of (A = always-allowed user functions, D = default functions, B = blacklist, W = whitelist); the element
# names spell the regions they lie in.  B and W are subsets of D (validate_blacklist_whitelist_config) and never both non-empty.
PERM_SCENARIOS = [
    # (description, defaults D, always-allowed A, whitelist, blacklist, expected permitted set)
    ('blacklist', ['d', 'ad', 'db', 'adb'], ['a', 'ad', 'adb'], [], ['db', 'adb'], {'a', 'd', 'ad'}),
    ('no restriction', ['d', 'ad'], ['a', 'ad'], [], [], {'a', 'd', 'ad'}),
    ('whitelist=[None]', ['d', 'ad'], ['a', 'ad'], [None], [], {'a', 'ad'}),
    ('whitelist', ['d', 'ad', 'dw', 'adw'], ['a', 'ad', 'adw'], ['dw', 'adw'], [], {'a', 'ad', 'adw', 'dw'}),
]
REGION = {'a': 'a user function only', 'd': 'a default function only', 'ad': 'a user function that overrides a default',
          'db': 'a black-listed default', 'adb': 'a black-listed name that is ALSO a user function (A and B overlap)',
          'dw': 'a white-listed default', 'adw': 'a white-listed default that is also a user function'}


def d3_permitted(ctx, idx):
    r = ctx.rule('D3.PERMITTED', 'permitted = (defaults U always-allowed) - blacklist | always-allowed for [None] | '
                 'always-allowed U whitelist; fed with user_functions as always-allowed', floor=11)
    with r:
        fi = idx.func(HELP + 'get_permitted_functions')
        C = 'get_permitted_functions'
        p_def, p_wl, p_bl, p_al = fi.params
        paths = nf.decision_paths(fi.node.body)
        for desc, dd, aa, wl, bl, want in PERM_SCENARIOS:
            env = {p_def: {k: 1 for k in dd}, p_wl: wl, p_bl: bl, p_al: {k: 1 for k in aa}}
            taken = []
            try:
                for p in paths:
                    if all(mev.ev(g, env) for g in p.guards):
                        taken.append(p)
                if len(taken) != 1:
                    r.undecided(C + ' [%s]' % desc, '%d paths match the model configuration' % len(taken), fi.loc)
                    continue
                p = taken[0]
                where = lib.loc(fi, p.leaf.stmt) if p.leaf.stmt is not None else fi.loc
                if p.leaf.kind != 'ret':
                    r.violation(C + ' [%s]' % desc, 'the configuration %s instead of yielding a permitted set'
                                % ('raises' if p.leaf.kind == 'raise' else 'returns None'), where)
                    continue
                got = mev.ev(p.leaf.expr, env)
                got = set(got) if isinstance(got, (set, frozenset, list, tuple, dict)) else got
            except mev.Unsupported as e:
                r.undecided(C + ' [%s]' % desc, 'expression outside the supported set algebra (%s)' % e, fi.loc)
                continue
            if got == want:
                r.ok(C + ' [%s]' % desc, 'over the Venn regions of (defaults %s, user functions %s, whitelist %s, blacklist %s) the result is %s'
                     % (dd, aa, wl, bl, sorted(want)), where)
            else:
                extra, missing = sorted(got - want, key=str), sorted(want - got, key=str)
                why = ['%s stays permitted' % REGION.get(x, repr(x)) for x in extra] + \
                      ['%s is no longer permitted' % REGION.get(x, repr(x)) for x in missing]
                need = {'blacklist': '(A | D) - B', 'no restriction': 'A | D', 'whitelist=[None]': 'A', 'whitelist': 'A | W'}[desc]
                r.violation(C + ' [%s]' % desc, 'required %s; `%s` differs on the region(s) %s: %s'
                            % (need, short(p.leaf.expr, 90), extra + missing, '; '.join(why)), where,
                            expected=str(sorted(want)), found=str(sorted(got, key=str)))
        # the caller
        f = idx.func(MM + '.validate_math_config')
        call = lib.one_call(f, 'get_permitted_functions')
        want = {p_def: ('attr', 'default_functions'), p_wl: ('cfg', 'whitelist'), p_bl: ('cfg', 'blacklist'), p_al: ('cfg', 'user_functions')}
        for pn, (kind, key) in want.items():
            a = _arg_for(fi, call, pn)
            good = lib.is_config(a, key) if kind == 'cfg' else nf.match('self.%s' % key, a) is not None
            construct = 'MathMixin.validate_math_config: get_permitted_functions(%s)' % pn
            if good:
                r.ok(construct, "%s" % (("config['%s']" % key) if kind == 'cfg' else 'self.' + key), lib.loc(f, call))
            elif kind == 'cfg' and a is not None and nf.config_key(a) is not None:
                r.violation(construct, "receives config['%s'] instead of config['%s']" % (nf.config_key(a), key), lib.loc(f, call),
                            expected="self.config['%s']" % key, found=unparse(a))
            elif isinstance(a, (ast.List, ast.Dict, ast.Set, ast.Tuple, ast.Constant)):
                r.violation(construct, 'receives the constant `%s`: the configured %s is ignored' % (short(a), key), lib.loc(f, call))
            else:
                r.undecided(construct, 'argument not recognised: %s' % short(a), lib.loc(f, call))
        st = enclosing_stmt(call)
        stored = isinstance(st, ast.Assign) and st.value is call and any(nf.match('self.permitted_functions', t) is not None for t in st.targets)
        r.check(stored, 'MathMixin.validate_math_config: self.permitted_functions', 'stores the permitted set that post_eval_validation reads',
                'the result of get_permitted_functions is not stored in self.permitted_functions', lib.loc(f, call))
        # validate_math_config runs in both constructors
        for q in (FGC, SGB):
            init = idx.func(q + '.__init__')
            r.check(bool(lib.calls_named(init.node, 'validate_math_config')), q.split('.')[-1] + '.__init__', 'calls validate_math_config',
                    'validate_math_config is no longer called: permitted_functions is never computed', init.loc)


# ----------------------------------------------------------------------------- D4
def _closure_exprs(prov, name, limit=40):
    """All expressions that flow (transitively) into a local name."""
    seen, out, todo = set(), [], [name]
    while todo and len(out) < limit:
        n = todo.pop()
        if n in seen:
            continue
        seen.add(n)
        for v in prov.defs.get(n, []):
            out.append(v)
            for x in ast.walk(v):
                if isinstance(x, ast.Name) and isinstance(x.ctx, ast.Load):
                    todo.append(x.id)
    return out


def _blacklist_model(r, fi, name, with_siblings, bl, loop, prov, where, idx_=None):
    """Set algebra of the black-list on a model: instructor_vars = [one sampled, one not sampled], samples hold an ordinary
    variable, the sampled instructor variable and (FormulaGrader) both sibling names, which are always sampled."""
    construct = name + ': black-list [content]'
    bad_idx = [(n, pn, k) for n, pn, k in constant_sample_indices(fi) if k not in (0, -1)
               and not any(a is loop for a in ancestors(n))]
    if bad_idx:
        n, pn, k = bad_idx[0]
        r.violation(construct, 'the black-list is built from `%s`, which does not exist when samples = 1 (a valid configuration: '
                    'NumericalGrader pins it, IntegralGrader defaults to it): with instructor_vars configured such a grader raises '
                    'IndexError for every submission instead of hiding the instructor variables and grading' % short(n), where,
                    expected='%s[0]' % pn, found=unparse(n))
        return
    # Symbolic universe.  The sampled scope (var_samples[k]) holds every configured variable, every constant, every INSTANCE of
    # a numbered variable met in the expressions and (FormulaGrader) the sibling variables; instructor_vars is not validated, so
    # it may name any of these or nothing at all.  Element names spell the region they stand for.
    sample = {'x': 1.0, 'iv_variable': 2.0, 'pi': 3.0, 'iv_constant': 4.0, 'iv_numbered_{0}': 5.0}
    env = {"self.config['instructor_vars']": ['iv_variable', 'iv_constant', 'iv_numbered_{0}', 'iv_nowhere'],
           "self.config['variables']": ['x', 'iv_variable'], "self.config['numbered_vars']": ['iv_numbered'],
           "self.constants": {'pi': 3.0, 'iv_constant': 4.0}, "self.config['user_constants']": {'iv_constant': 4.0},
           'var_samples': [sample]}
    want = {'iv_variable', 'iv_constant', 'iv_numbered_{0}'}
    if with_siblings:
        sample.update({'sibling_1': 3.0, 'sibling_2': 4.0})
        env['var_samples'] = [sample]
        env['sibling_formulas'] = {'sibling_1': 'a+1', 'sibling_2': 'b'}
        want |= {'sibling_1', 'sibling_2'}
        # sibling_1 is referred to by the author's comparer parameters, sibling_2 only by a DependentSampler of sample_from:
        # the names used in the author's expressions are therefore {x, sibling_1}
        for c in walk_own(fi.node):
            if isinstance(c, ast.Call) and nf.callee_name(c) == 'get_used_vars':
                env[unparse(c)] = {'x', 'sibling_1'}
    # names the black-list is computed from
    needed, todo = set(), [bl]
    while todo:
        n = todo.pop()
        if n in needed:
            continue
        needed.add(n)
        if n in env:
            continue            # given by the universe: not recomputed, its own inputs are irrelevant
        for v in prov.defs.get(n, []):
            if unparse(v) in env:
                continue        # an opaque call whose symbolic value the universe provides
            for x in ast.walk(v):
                if isinstance(x, ast.Name) and isinstance(x.ctx, ast.Load):
                    todo.append(x.id)
    needed -= set(fi.params)
    needed -= {k for k in env if k.isidentifier()}       # names given by the universe are not recomputed

    def touches(st):
        for n in ast.walk(st):
            if isinstance(n, ast.Name) and isinstance(n.ctx, (ast.Store, ast.Del)) and n.id in needed:
                return True
            if isinstance(n, ast.Call) and isinstance(n.func, ast.Attribute) and n.func.attr in fl.FLOW_METHODS | {'remove', 'pop', 'clear'} \
                    and fl.name_of(n.func.value) in needed:
                return True
        return False
    pre = []
    for st in fi.node.body:
        if st is loop:
            break
        if touches(st):
            pre.append(st)
    try:
        for st in ([fl.inline_expr_helpers(idx_, fi, st) for st in pre] if idx_ is not None else pre):
            try:
                mev.run([st], env)
            except mev.Unsupported:
                # what the DependentSamplers of sample_from depend on is, in this universe, exactly {sibling_2}
                if isinstance(st, ast.Assign) and len(st.targets) == 1 and isinstance(st.targets[0], ast.Name) and with_siblings:
                    if any(isinstance(n, ast.Constant) and n.value == 'depends' for n in ast.walk(st.value)):
                        env[st.targets[0].id] = {'sibling_2'}
                        continue
                    if lib.mentions_config(st.value, 'sample_from'):
                        env[st.targets[0].id] = []
                        continue
                raise
        got = env.get(bl)
        if not isinstance(got, (list, set, tuple)):
            raise mev.Unsupported('black-list is not a list')
        got = list(got)
    except mev.Unsupported as e:
        r.undecided(construct, 'construction of `%s` is outside the supported set-algebra evaluation (%s)' % (bl, e), where)
        return
    missing = sorted(want - set(got))
    extra = sorted(set(got) - want)
    if missing:
        sib = [m for m in missing if m.startswith('sibling')]
        iv = [m for m in missing if not m.startswith('sibling')]
        parts = []
        if sib:
            if sib == ['sibling_2']:
                parts.append("the sibling that only a DependentSampler depends on (sibling_2: present in sibling_formulas and in the samples, "
                             "but not among the names used in the comparer parameters) is not black-listed: the student can refer to that "
                             "input box (e.g. add 0*sibling_2) and is not rejected; the black-list must cover every key of sibling_formulas")
            else:
                parts.append('sibling name(s) %s are not black-listed although siblings are always part of the samples: the student can '
                             "refer to another input box (e.g. add 0*sibling_1) and is not rejected" % sib)
        if iv:
            kinds = {'iv_variable': 'a configured variable', 'iv_constant': 'a constant',
                     'iv_numbered_{0}': 'an INSTANCE of a numbered variable (such names exist only in the sampled scope, not in '
                                        "config['variables'] or the constants)"}
            parts.append('the instructor variable(s) %s present in the sampled scope are not black-listed (%s): they stay usable by the '
                         'student; membership must be tested against the sampled scope var_samples[0]'
                         % (iv, '; '.join('%s is %s' % (x, kinds.get(x, 'sampled')) for x in iv)))
        r.violation(construct, "over the symbolic universe (instructor_vars = a variable, a constant, a numbered instance and an unknown "
                    "name; sampled scope %s%s) `%s` evaluates to %s; %s"
                    % (sorted(sample), ', sibling_formulas sibling_1/sibling_2' if with_siblings else '', bl, got, '; '.join(parts)), where,
                    expected='black-list >= (instructor_vars & samples) | keys(sibling_formulas) = %s' % sorted(want), found=str(got))
    elif extra:
        why = 'an ordinary variable/constant is deleted from the student\'s scope: correct answers using it are refused' \
            if set(extra) & {'x', 'pi'} else \
              'a name that is not in the samples is black-listed: `del` raises KeyError for every submission'
        r.violation(construct, 'over the symbolic universe `%s` evaluates to %s, expected %s: %s' % (bl, got, sorted(want), why), where,
                    expected=str(sorted(want)), found=str(got))
    else:
        r.ok(construct, 'over the symbolic universe the black-list is exactly (instructor_vars & samples)%s = %s'
             % (' | sibling names' if with_siblings else '', sorted(want)), where)


def _scrub_by_manager(r, idx, fi, name, with_siblings, managers, loop, cfg, a_nodes, s_nodes, head, sc, vscope):
    """The black-listed names are removed by entering a context manager (`with Mgr(scope, names):`) whose __enter__ pops each
    listed name from the very scope object; the student's evaluation must lie inside the with-body (the manager puts the names
    back on exit)."""
    if len(managers) != 1:
        raise AnalysisError('%s: several scrubbing context managers' % name)
    m = managers[0]
    where = m.where
    bl = m.names_arg
    if not isinstance(bl, ast.Name):
        r.undecided(name + ': deletion', 'names argument of the scrubbing manager is not a plain name: %s' % short(bl), where)
        return
    r.ok(name + ': deletion', 'entering `%s` removes every name of %s from %s' % (short(m.item.context_expr, 60), bl.id, vscope), where)
    prov = fl.Prov(fi.node)
    flows = [fl.inline_expr_helpers(idx, fi, e) for e in _closure_exprs(prov, bl.id)]
    if any(lib.mentions_config(e, 'instructor_vars') for e in flows):
        r.ok(name + ': black-list [instructor_vars]', "built from config['instructor_vars']", where)
    else:
        fl.absent(r, idx, name + ': black-list [instructor_vars]', "config['instructor_vars'] no longer flows into the black-list `%s`: "
                  "instructor-only variables are never removed from the student's scope" % bl.id, where)
    if with_siblings:
        if any(fl.mentions(e, 'sibling_formulas') for e in flows):
            r.ok(name + ': black-list [siblings]', 'contains the sibling variable names', where)
        else:
            fl.absent(r, idx, name + ': black-list [siblings]', 'the sibling variable names no longer flow into the black-list `%s`: a '
                      'student can refer to sibling_N, i.e. to another input box, in this answer' % bl.id, where)
    _blacklist_model(r, fi, name, with_siblings, bl.id, loop, prov, where, idx)
    inside = any(a is m.node for a in ancestors(sc)) and not any(sc is x for it in m.node.items for x in ast.walk(it.context_expr))
    w_nodes = [n for n in cfg.nodes_of(m.node) if n.kind == 'with']
    if inside:
        r.ok(name + ': order', "the student's evaluation lies inside the with-body of the scrubbing manager", where)
    else:
        r.violation(name + ': order', "the student's evaluation is not inside the with-body of the scrubbing manager: on exit the manager "
                    'puts the black-listed names back, so the student\'s input is evaluated with the instructor%s variables in scope'
                    % ('/sibling' if with_siblings else ''), lib.loc(fi, sc), expected='with %s: <student evaluation>' % short(m.item.context_expr, 50))
    if cfg.reaches([head], w_nodes, blocked=a_nodes, after=True):
        r.violation(name + ': author first', 'the scrubbing manager can be entered before the author\'s expressions are evaluated: an '
                    'answer that uses an instructor variable is no longer evaluable', where)
    else:
        r.ok(name + ': author first', 'the author\'s expressions are evaluated with the full scope', where)
    back = []
    between = set(fl.between_in_iteration(cfg, loop, w_nodes, s_nodes)) if inside else set()
    for n in ast.walk(m.node):
        writes = False
        if isinstance(n, ast.Call) and isinstance(n.func, ast.Attribute) and fl.name_of(n.func.value) in (vscope, m.alias) \
                and n.func.attr in ('update', 'setdefault', '__setitem__'):
            writes = True
        elif isinstance(n, ast.Assign) and any((isinstance(t, ast.Subscript) and fl.name_of(t.value) in (vscope, m.alias)) for t in n.targets):
            writes = True
        if writes:
            nodes = set(cfg.nodes_containing(n) if not isinstance(n, ast.stmt) else cfg.nodes_of(n))
            if nodes & between:
                back.append(n)
    if back:
        r.violation(name + ': re-insertion', '`%s` refills the scope inside the with-body before the student\'s evaluation'
                    % short(back[0]), lib.loc(fi, back[0]))
    else:
        r.ok(name + ': re-insertion', 'nothing writes to %s between entering the manager and the student\'s evaluation' % vscope, where)


def d4_scrub(ctx, idx):
    r = ctx.rule('D4.SCRUB', 'instructor (and sibling) names are deleted from the variable scope after the author\'s and before the '
                 'student\'s evaluation, on every path, in all three gen_evaluations', floor=19)
    with r:
        for q in (FGC, IGC, SGC):
            fi = idx.func(q + '.gen_evaluations')
            name = q.split('.')[-1] + '.gen_evaluations'
            author, student = _gen_eval_roots(fi)
            a_calls, s_calls = eval_sites(fi, author, student)
            if len(a_calls) != 1 or len(s_calls) != 1:
                raise AnalysisError('%s: expected one author and one student evaluation' % name)
            ac, sc = a_calls[0], s_calls[0]
            loop = fl.enclosing_loop(sc, fi.node)
            if loop is None or fl.enclosing_loop(ac, fi.node) is not loop:
                r.undecided(name, 'author and student evaluations are not in one loop (see C04-D4)', lib.loc(fi, sc))
                continue
            scope = {k: n for k, n in scope_names(fi, [sc], idx)}
            vscope = scope.get('variables') or scope.get('varscope')
            if vscope is None or vscope.startswith('<'):
                r.undecided(name + ': scope', 'variable scope of the student\'s evaluation is not a plain name', lib.loc(fi, sc))
                continue
            cfg = cfg_of(fi.node)
            a_nodes, s_nodes = fl.nodes_for(cfg, ac), fl.nodes_for(cfg, sc)
            head = fl.loop_head(cfg, loop)
            # deletion statements on the student's variable scope
            dels = []
            for n in ast.walk(loop):
                if isinstance(n, ast.Delete):
                    for t in n.targets:
                        if isinstance(t, ast.Subscript) and fl.name_of(t.value) == vscope:
                            dels.append((n, t))
                elif isinstance(n, ast.Call) and isinstance(n.func, ast.Attribute) and n.func.attr == 'pop' \
                        and fl.name_of(n.func.value) == vscope and isinstance(enclosing_stmt(n), ast.Expr):
                    dels.append((enclosing_stmt(n), n))
            other_dels = [n for n in ast.walk(loop) if isinstance(n, ast.Delete) and not any(n is d for d, _ in dels)
                          and any(isinstance(t, ast.Subscript) for t in n.targets)]
            managers = [m for m in fl.scrub_managers(idx, fi, loop) if fl.name_of(m.scope_arg) == vscope]
            if not dels and managers:
                _scrub_by_manager(r, idx, fi, name, q == FGC, managers, loop, cfg, a_nodes, s_nodes, head, sc, vscope)
                continue
            if not dels:
                withs = [w for w in ast.walk(loop) if isinstance(w, ast.With) and
                         (any(a is w for a in ancestors(sc)) or any(fl.mentions(it.context_expr, vscope) or
                                                                    fl.name_of(it.optional_vars) == vscope for it in w.items))]
                if withs and not other_dels:
                    r.undecided(name + ': deletion', 'a context manager (`%s`) stands around the student\'s evaluation / receives the scope, '
                                'but it could not be resolved to a class or @contextmanager whose entry removes the black-listed names'
                                % short(withs[0].items[0].context_expr, 60), lib.loc(fi, withs[0]))
                    continue
                if other_dels:
                    t = other_dels[0].targets[0]
                    r.violation(name + ': deletion', 'names are deleted from `%s`, which is not the scope `%s` the student\'s input is '
                                'evaluated with: instructor variables stay visible to the student' % (short(t.value), vscope),
                                lib.loc(fi, other_dels[0]), expected='del %s[key]' % vscope)
                else:
                    fl.absent(r, idx, name + ': deletion', 'nothing is deleted from the scope `%s` before the student\'s evaluation: the student can '
                                'use instructor-only%s variables (e.g. submit the instructor variable that holds the answer)'
                                % (vscope, ' and sibling' if q == FGC else ''), lib.loc(fi, sc),
                                expected='for key in var_blacklist: del %s[key]' % vscope)
                continue
            if len(dels) != 1:
                raise AnalysisError('%s: several deletions from the scope' % name)
            dstmt, dtarget = dels[0]
            dloop = fl.enclosing_loop(dstmt, fi.node)
            where = lib.loc(fi, dstmt)
            if dloop is loop or dloop is None or not isinstance(dloop, ast.For) or not isinstance(dloop.target, ast.Name):
                r.undecided(name + ': deletion', 'the deletion is not inside its own `for key in <black-list>` loop', where)
                continue
            kv = dloop.target.id
            key_ok = (isinstance(dtarget, ast.Subscript) and fl.name_of(dtarget.slice) == kv) or \
                     (isinstance(dtarget, ast.Call) and dtarget.args and fl.name_of(dtarget.args[0]) == kv)
            direct = any(s is dstmt for s in dloop.body)
            exits = lib.loop_has_early_exit(dloop)
            if not key_ok:
                r.undecided(name + ': deletion', 'deleted key is not the loop variable', where)
                continue
            if not direct or exits:
                r.violation(name + ': deletion', 'not every black-listed name is deleted (%s): some instructor variables stay visible to '
                            'the student' % ('conditional deletion' if not direct else 'loop left early: `%s`' % short(exits[0])), where)
                continue
            bl = dloop.iter
            if not isinstance(bl, ast.Name):
                if isinstance(bl, ast.Subscript):
                    r.violation(name + ': deletion', 'only part of the black-list is deleted (`%s`)' % short(bl), where)
                else:
                    r.undecided(name + ': deletion', 'black-list expression not recognised: %s' % short(bl), where)
                continue
            r.ok(name + ': deletion', 'for %s in %s: del %s[%s]' % (kv, bl.id, vscope, kv), where)
            # (i) the black-list content -- built here, or in the caller when the list arrives as a parameter
            bfi, bname, bstop, bsib = fi, bl.id, loop, 'sibling_formulas'
            if bl.id in fi.params:
                callers = [(f, c) for f in idx.package_funcs() for c in lib.calls_named(f.node, 'gen_evaluations')
                           if f.cls is not None and f.cls.qualname == q and isinstance(c.func, ast.Attribute)]
                arg = None
                if len(callers) == 1:
                    f2, c2 = callers[0]
                    ps = fi.params[1:]
                    amap = dict(zip(ps, c2.args))
                    amap.update({k.arg: k.value for k in c2.keywords if k.arg})
                    arg = amap.get(bl.id)
                if arg is None or not isinstance(arg, ast.Name):
                    r.undecided(name + ': black-list [content]', 'the black-list is the parameter `%s`; its construction in the caller could '
                                'not be located' % bl.id, lib.loc(fi, dloop))
                    continue
                top = enclosing_stmt(c2)
                while top is not None and not any(top is s_ for s_ in f2.node.body):
                    top = fl.parent(top)
                bfi, bname, bstop = f2, arg.id, top
            prov = fl.Prov(bfi.node)
            flows = [fl.inline_expr_helpers(idx, bfi, e) for e in _closure_exprs(prov, bname)]
            has_instr = any(lib.mentions_config(e, 'instructor_vars') for e in flows)
            if has_instr:
                r.ok(name + ': black-list [instructor_vars]', "built from config['instructor_vars']", lib.loc(fi, dloop))
            else:
                fl.absent(r, idx, name + ': black-list [instructor_vars]',
                          "config['instructor_vars'] no longer flows into the black-list `%s`: instructor-only variables are never removed "
                          "from the student's scope" % bl.id, lib.loc(fi, dloop))
            if q == FGC:
                has_sib = any(fl.mentions(e, 'sibling_formulas') for e in flows)
                if has_sib:
                    r.ok(name + ': black-list [siblings]', 'contains the sibling variable names', lib.loc(fi, dloop))
                else:
                    fl.absent(r, idx, name + ': black-list [siblings]',
                              'the sibling variable names no longer flow into the black-list `%s`: a student can refer to sibling_N, i.e. '
                              'to another input box, in this answer' % bl.id, lib.loc(fi, dloop))
            _blacklist_model(r, bfi, name, q == FGC, bname, bstop, prov, lib.loc(fi, dloop), idx)
            # the black-list is complete before the sampling loop starts
            fills = [n for n in walk_own(fi.node) if isinstance(n, (ast.Call, ast.AugAssign, ast.Assign)) and (
                (isinstance(n, ast.Call) and isinstance(n.func, ast.Attribute) and n.func.attr in ('append', 'extend')
                 and fl.name_of(n.func.value) == bl.id) or
                (isinstance(n, ast.AugAssign) and fl.name_of(n.target) == bl.id) or
                (isinstance(n, ast.Assign) and any(fl.name_of(t) == bl.id for t in n.targets)))]
            late = [n for n in fills if any(a is loop for a in ancestors(n))]
            if late:
                r.undecided(name + ': black-list', 'the black-list is modified inside the sampling loop', lib.loc(fi, late[0]))
            # (ii) on every path between author and student, after the author
            d_nodes = cfg.nodes_of(dloop)
            if fl.path_avoiding_in_iteration(cfg, loop, a_nodes, s_nodes, d_nodes):
                after_student = cfg.reaches(s_nodes, d_nodes, blocked=[head], after=True)
                r.violation(name + ': order', 'a path leads from the author\'s evaluation to the student\'s without passing the deletion%s: '
                            'on it the student\'s input is evaluated with the instructor%s variables still in scope'
                            % (' (the deletion now comes after the student\'s evaluation)' if after_student else '',
                               '/sibling' if q == FGC else ''), where,
                            expected='author evaluation; deletion; student evaluation')
            else:
                r.ok(name + ': order', 'the deletion lies on every path from the author\'s to the student\'s evaluation', where)
            if cfg.reaches([head], d_nodes, blocked=a_nodes, after=True):
                r.violation(name + ': author first', 'the deletion can run before the author\'s expressions are evaluated: an answer that '
                            'uses an instructor variable is no longer evaluable (the author\'s own answers must remain free to use them)',
                            where)
            else:
                r.ok(name + ': author first', 'the author\'s expressions are evaluated with the full scope', where)
            # (iii) nothing re-inserts between deletion and the student's evaluation
            back = []
            between = set(fl.between_in_iteration(cfg, loop, d_nodes, s_nodes))
            for n in ast.walk(loop):
                writes = False
                if isinstance(n, ast.Call) and isinstance(n.func, ast.Attribute) and fl.name_of(n.func.value) == vscope \
                        and n.func.attr in ('update', 'setdefault', '__setitem__'):
                    writes = True
                elif isinstance(n, ast.Assign) and any((isinstance(t, ast.Subscript) and fl.name_of(t.value) == vscope)
                                                       or fl.name_of(t) == vscope for t in n.targets):
                    writes = True
                if writes:
                    nodes = set(cfg.nodes_containing(n) if not isinstance(n, ast.stmt) else cfg.nodes_of(n))
                    if nodes & between and not any(a is dloop for a in ancestors(n)):
                        back.append(n)
            if back:
                r.violation(name + ': re-insertion', '`%s` refills the scope after the deletion and before the student\'s evaluation: the '
                            'deleted names are visible again' % short(back[0]), lib.loc(fi, back[0]))
            else:
                r.ok(name + ': re-insertion', 'nothing writes to %s between the deletion and the student\'s evaluation' % vscope, where)


# ----------------------------------------------------------------------------- D5
class _RowSimplifier(ast.NodeTransformer):
    """After a table row was substituted: getattr(self, 'name') -> self.name ;  (a, b, c)[1] -> b."""

    def __init__(self, selfname):
        self.selfname = selfname

    def visit_Call(self, node):
        self.generic_visit(node)
        if isinstance(node.func, ast.Name) and node.func.id == 'getattr' and len(node.args) == 2 and not node.keywords \
                and isinstance(node.args[1], ast.Constant) and isinstance(node.args[1].value, str) and node.args[1].value.isidentifier():
            return ast.Attribute(value=node.args[0], attr=node.args[1].value, ctx=ast.Load())
        return node

    def visit_Subscript(self, node):
        self.generic_visit(node)
        k = nf.const_value(node.slice, None)
        if isinstance(node.value, (ast.Tuple, ast.List)) and isinstance(k, int) and not isinstance(k, bool) \
                and -len(node.value.elts) <= k < len(node.value.elts):
            return node.value.elts[k]
        return node


def _simplify_rows(expr, selfname):
    from ..index import clone
    out = _RowSimplifier(selfname).visit(clone(expr))
    ast.fix_missing_locations(out)
    return out


def d5_scope(ctx, idx):
    r = ctx.rule('D5.SCOPE', 'every evaluation first checks the parse-time name sets against the given scope', floor=22)
    with r:
        fi = idx.func(ME + '.eval')
        C = 'MathExpression.eval'
        ens = lib.one_call(fi, 'eval_node')
        cs = [c for c in lib.calls_named(fi.node, 'check_scope')]
        if not cs:
            fl.absent(r, idx, C + ': check_scope', 'check_scope is no longer called: an undefined or scrubbed name is only noticed if its value '
                        'is actually needed, and student-facing UndefinedVariable/UndefinedFunction errors are lost', fi.loc)
        else:
            c = cs[0]
            dom = lib.dominated(fi, [c], [ens])
            r.check(dom, C + ': check_scope', 'precedes eval_node on every path',
                    'a path reaches eval_node without check_scope (`%s`): on it names are not checked against the scope before evaluation'
                    % (short(fl.if_chain_containing(c, fi.node)[0][0].test) if fl.if_chain_containing(c, fi.node) else 'conditional'),
                    lib.loc(fi, c))
            callee = idx.func(ME + '.check_scope')
            for pn in ('variables', 'functions', 'suffixes'):
                a = _arg_for(callee, c, pn)
                if isinstance(a, ast.Name) and a.id == pn:
                    r.ok(C + ': check_scope(%s)' % pn, 'the scope the expression is evaluated with', lib.loc(fi, c))
                elif isinstance(a, ast.Name) and a.id in ('variables', 'functions', 'suffixes'):
                    r.violation(C + ': check_scope(%s)' % pn, '`%s` is passed as %s: names are checked against the wrong table' % (a.id, pn),
                                lib.loc(fi, c), expected=pn, found=a.id)
                else:
                    r.undecided(C + ': check_scope(%s)' % pn, 'argument not recognised: %s' % short(a), lib.loc(fi, c))
        # check_scope itself
        f = idx.func(ME + '.check_scope')
        C = 'MathExpression.check_scope'
        env = lib.local_env(f.node)
        want = {'variables': ('variables_used', {'UndefinedVariable'}), 'functions': ('functions_used', {'UndefinedFunction'}),
                'suffixes': ('suffixes_used', {'UndefinedFunction', 'UndefinedVariable', 'UnableToParse'})}
        found = {}
        tests = []
        for t in [n for n in walk_own(f.node) if isinstance(n, ast.If)]:
            direct = [x for x in t.body if isinstance(x, ast.Raise)]
            nested = [x for x in ast.walk(t) if isinstance(x, ast.Raise)]
            tests.append((t, direct[-1] if direct else (None if not nested else nested[-1]), bool(direct)))
        for t, x, raises_directly in tests:
            view = fl.exists_view(t.test, env)
            if view is None:
                continue
            seq, v, pred = view
            seq_u, _ = fl.unwrap_seq(seq)
            while isinstance(seq_u, ast.Call) and nf.callee_name(seq_u) in ('set', 'frozenset', 'sorted') and len(seq_u.args) == 1:
                seq_u = seq_u.args[0]
            for pn, (attr, _) in want.items():
                if nf.match('self.%s' % attr, seq_u) is None:
                    continue
                if nf.match('%s not in %s' % (v, pn), pred) is not None:
                    found[pn] = (t, x if raises_directly else None, True)
                elif nf.match('%s in %s' % (v, pn), pred) is not None:
                    found[pn] = (t, x, 'the test is inverted (`%s`): names that ARE in the scope are reported and unknown names pass'
                                 % unparse(pred))
                else:
                    others = [o for o in want if o != pn and nf.match('%s not in %s' % (v, o), pred) is not None]
                    if others:
                        found[pn] = (t, x, 'the %s used are looked up in `%s` instead of `%s`' % (pn, others[0], pn))
        # the same three tests written as ONE loop over a literal table of rows (names used, scope, ..., error class)
        if not found:
            lenv = lib.local_env(f.node)
            fenv = fl.flat_env(f.node)
            for loop in [l for l in lib.loops_of(f.node) if isinstance(l, ast.For) and isinstance(l.target, (ast.Tuple, ast.List))
                         and all(isinstance(e, ast.Name) for e in l.target.elts)]:
                table = fl.expand(loop.iter, fenv)
                if isinstance(table, ast.Attribute) and fl.name_of(table.value) == f.params[0] and f.cls is not None:
                    k_, v_ = idx.lookup_attr(f.cls, table.attr)       # a class-level table: self._scope_checks
                    table = v_ if v_ is not None else table
                if isinstance(table, ast.Call):
                    table = fl.inline_expr_helpers(idx, f, table)      # a new method that just returns the literal table
                if isinstance(table, ast.Call):
                    # ... or a generator whose body is nothing but `yield <row>` statements: the rows in order
                    try:
                        tg, how = idx.resolve_call(f, table)
                    except Exception:
                        tg = []
                    tg = [t for t in tg if not isinstance(t, tuple)]
                    if len(tg) == 1 and not table.keywords:
                        gbody = fl.strip_docstring(tg[0].node.body)
                        gparams = tg[0].params[1:] if tg[0].cls is not None and not tg[0].is_static else tg[0].params
                        if gbody and all(isinstance(x, ast.Expr) and isinstance(x.value, ast.Yield) and x.value.value is not None for x in gbody) \
                                and len(gparams) == len(table.args):
                            genv = dict(zip(gparams, table.args))
                            table = ast.Tuple(elts=[nf.subst(x.value.value, genv) for x in gbody], ctx=ast.Load())
                if not (isinstance(table, (ast.List, ast.Tuple)) and table.elts and
                        all(isinstance(row, (ast.Tuple, ast.List)) and len(row.elts) == len(loop.target.elts) for row in table.elts)):
                    continue
                for row in table.elts:
                    renv = {t.id: v for t, v in zip(loop.target.elts, row.elts)}
                    for x in [n for n in ast.walk(loop) if isinstance(n, ast.Raise)]:
                        conj = fl.reach_condition(x, f.node)
                        if len(conj) != 1:
                            continue
                        cond = _simplify_rows(nf.subst(fl.expand(fl.expand(conj[0], lenv), fenv), renv), f.params[0])
                        view = fl.exists_view(cond, {})
                        if view is None:
                            continue
                        seq, v, pred = view
                        seq_u, _ = fl.unwrap_seq(seq)
                        while isinstance(seq_u, ast.Call) and nf.callee_name(seq_u) in ('set', 'frozenset', 'sorted') and len(seq_u.args) == 1:
                            seq_u = seq_u.args[0]
                        x2 = ast.Raise(exc=nf.subst(x.exc, renv), cause=None)
                        ast.copy_location(x2, x)
                        for pn, (attr, _) in want.items():
                            if nf.match('self.%s' % attr, seq_u) is None:
                                continue
                            if nf.match('%s not in %s' % (v, pn), pred) is not None:
                                found[pn] = (loop, x2, True)
                            elif nf.match('%s in %s' % (v, pn), pred) is not None:
                                found[pn] = (loop, x2, 'the test is inverted (`%s`): names that ARE in the scope are reported and unknown '
                                             'names pass' % unparse(pred))
                            else:
                                others = [o for o in want if o != pn and nf.match('%s not in %s' % (v, o), pred) is not None]
                                if others:
                                    found[pn] = (loop, x2, 'the %s used are looked up in `%s` instead of `%s`' % (pn, others[0], pn))
                if found and any(not isinstance(e, (ast.Raise, ast.Continue)) for e in lib.loop_has_early_exit(loop)):
                    found.clear()       # a break/return inside the table loop: rows may be skipped -> not recognised
        for pn, (attr, classes) in want.items():
            if pn not in found:
                sev = r.violation if pn != 'suffixes' else r.undecided
                # is the parse-time set mentioned at all?
                mentioned = any(isinstance(n, ast.Attribute) and n.attr == attr for n in walk_all(f.node))
                if mentioned:
                    r.undecided(C + ': ' + pn, 'the test on self.%s is not recognised' % attr, f.loc)
                else:
                    fl.absent(r, idx, C + ': ' + pn, 'self.%s is no longer compared with the scope: an unknown %s is not rejected up front '
                                '(a term such as 0*z or z^0 may evaluate without ever looking z up)' % (attr, pn[:-1]), f.loc)
                continue
            t, x, verdict = found[pn]
            if verdict is True and x is None:
                fl.absent(r, idx, C + ': ' + pn, 'unknown %s are detected (`%s`) but nothing is raised for them: the name is only noticed if its '
                            'value is actually looked up' % (pn, short(t.test)), lib.loc(f, t),
                            expected='raise %s' % '/'.join(sorted(classes)))
                continue
            if verdict is True:
                r.ok(C + ': ' + pn, 'names of self.%s that are absent from `%s` raise' % (attr, pn), lib.loc(f, t))
            else:
                r.violation(C + ': ' + pn, verdict, lib.loc(f, t))
            if x is None:
                continue
            cn = nf.exc_class_name(x.exc)
            if cn in classes:
                r.ok(C + ': %s error' % pn, cn, lib.loc(f, x))
            elif lib.exc_is_subclass(idx, f.module, cn, 'StudentFacingError'):
                r.ok(C + ': %s error' % pn, '%s (student-facing)' % cn, lib.loc(f, x), nontrivial=False)
            else:
                r.violation(C + ': %s error' % pn, 'raises %s, which is not a student-facing error' % cn, lib.loc(f, x),
                            expected='/'.join(sorted(classes)))
        # the parse-time sets are the ones recorded by the parser
        init = idx.func(ME + '.__init__')
        for attr in ('variables_used', 'functions_used', 'suffixes_used'):
            st = [n for n in walk_own(init.node) if isinstance(n, ast.Assign) and any(nf.match('self.%s' % attr, t) is not None for t in n.targets)]
            ok = len(st) == 1 and isinstance(st[0].value, ast.Name) and st[0].value.id == attr
            if ok:
                r.ok('MathExpression.__init__: ' + attr, 'set from the parser\'s record', lib.loc(init, st[0]))
            elif len(st) == 1 and isinstance(st[0].value, ast.Name) and st[0].value.id in init.params:
                r.violation('MathExpression.__init__: ' + attr, 'self.%s is initialised from `%s`' % (attr, st[0].value.id), lib.loc(init, st[0]))
            else:
                r.undecided('MathExpression.__init__: ' + attr, 'assignment not recognised', init.loc)
        # evaluator forwards the scope
        ev = idx.func('mitxgraders.helpers.calc.expressions.evaluator')
        calls = [c for c in lib.calls_named(ev.node, 'eval') if isinstance(c.func, ast.Attribute)]
        if len(calls) != 1:
            raise AnalysisError('evaluator: expected one <parsed>.eval(...) call')
        c = calls[0]
        for pn in ('variables', 'functions', 'suffixes'):
            a = _arg_for(fi, c, pn)
            if isinstance(a, ast.Name) and a.id == pn:
                r.ok('evaluator: eval(%s)' % pn, 'forwards its own %s' % pn, lib.loc(ev, c))
            elif isinstance(a, ast.Name) and a.id in ('variables', 'functions', 'suffixes'):
                r.violation('evaluator: eval(%s)' % pn, '`%s` is passed as %s' % (a.id, pn), lib.loc(ev, c))
            elif a is None or (isinstance(a, ast.Name) and a.id.startswith('DEFAULT_')):
                r.violation('evaluator: eval(%s)' % pn, 'the caller\'s %s are not forwarded (%s): the scrubbed scope is ignored and the '
                            'default table is used' % (pn, short(a)), lib.loc(ev, c))
            else:
                r.undecided('evaluator: eval(%s)' % pn, 'argument not recognised: %s' % short(a), lib.loc(ev, c))
        # the graders hand their (scrubbed) scope objects to evaluator
        g = idx.func(FGC + '.gen_evaluations')
        inner = idx.func(FGC + '.gen_evaluations.<locals>.scoped_eval')
        calls = lib.calls_named(inner.node, 'evaluator')
        if len(calls) != 1:
            raise AnalysisError('scoped_eval: expected one evaluator call')
        c = calls[0]
        for pn in ('variables', 'functions', 'suffixes'):
            a = _arg_for(ev, c, pn)
            if isinstance(a, ast.Name) and a.id == pn and pn in inner.params:
                r.ok('FormulaGrader.gen_evaluations.scoped_eval: evaluator(%s)' % pn, 'forwards its %s parameter' % pn, lib.loc(inner, c))
            elif isinstance(a, ast.Name) and a.id in inner.params:
                r.violation('FormulaGrader.gen_evaluations.scoped_eval: evaluator(%s)' % pn, '`%s` is passed as %s' % (a.id, pn), lib.loc(inner, c))
            else:
                r.undecided('FormulaGrader.gen_evaluations.scoped_eval: evaluator(%s)' % pn, 'argument not recognised: %s' % short(a),
                            lib.loc(inner, c))
        for q, meth, nested in ((SGB, 'get_limits_and_funcs', None), (IGC, 'evaluate_int', 'raw_integrand'), (SGC, 'evaluate_sum', 'eval_summand')):
            f2 = idx.func('%s.%s' % (q, meth))
            holder = idx.func('%s.%s.<locals>.%s' % (q, meth, nested)) if nested else f2
            ecalls = lib.calls_named(holder.node, 'evaluator')
            construct = '%s.%s%s: evaluator(...)' % (q.split('.')[-1], meth, ('.' + nested) if nested else '')
            if not ecalls:
                r.undecided(construct, 'no evaluator call found', holder.loc)
            all_ok = True
            for c in ecalls:
                av, af = _arg_for(ev, c, 'variables'), _arg_for(ev, c, 'functions')
                ok = fl.name_of(av) == 'varscope' and fl.name_of(af) == 'funcscope'
                if ok:
                    continue
                all_ok = False
                if av is None or af is None:
                    r.violation(construct, 'the scope is not forwarded (%s): the expression is evaluated with the default tables, so deleted '
                                'instructor variables do not matter' % short(c), lib.loc(holder, c))
                elif fl.name_of(av) == 'funcscope' and fl.name_of(af) == 'varscope':
                    r.violation(construct, 'variables and functions scopes are swapped', lib.loc(holder, c))
                else:
                    r.undecided(construct, 'scope arguments not recognised: %s' % short(c), lib.loc(holder, c))
            if ecalls and all_ok:
                r.ok(construct, '%d call(s) with variables=varscope, functions=funcscope' % len(ecalls), lib.loc(holder, ecalls[0]))


# ------------------------------------------------------------------------ self-test
_FG_DEL = "            for key in var_blacklist:\n                del varlist[key]\n\n            student_eval, meta = scoped_eval(student_input)\n            student_evals.append(student_eval)\n"
_SUM_DEL = "            for key in var_blacklist:\n                del varlist[key]\n                \n            # Evaluate sums.\n"
_INT_DEL = "            for key in var_blacklist:\n                del varlist[key]\n\n            student_re, student_im, used_funcs = self.evaluate_int("

_FG_BL = "        sibling_vars = [key for key in sibling_formulas]\n        var_blacklist = []\n        for var in self.config['instructor_vars']:\n            if var in var_samples[0]:\n                var_blacklist.append(var)\n        var_blacklist += sibling_vars\n"

MUTANTS = [
    # D1
    Mutant('validate-only-when-true', MH, "        if result['ok'] is True or result['ok'] == 'partial':", "        if result['ok'] is True:", 'D1'),
    Mutant('validate-only-full-credit', MH, "        if result['ok'] is True or result['ok'] == 'partial':", "        if result['grade_decimal'] == 1:", 'D1'),
    Mutant('validate-when-wrong', MH, "        if result['ok'] is True or result['ok'] == 'partial':", "        if result['ok'] is False:", 'D1'),
    Mutant('validation-dropped', MH, "        if result['ok'] is True or result['ok'] == 'partial':\n            self.post_eval_validation(student_input, used_funcs)\n", "", 'D1'),
    Mutant('validate-author-expression', MH, "            self.post_eval_validation(student_input, used_funcs)",
           "            self.post_eval_validation(answer['expect']['comparer_params'], used_funcs)", 'D1'),
    Mutant('validate-empty-function-set', MH, "            self.post_eval_validation(student_input, used_funcs)",
           "            self.post_eval_validation(student_input, set())", 'D1'),
    Mutant('check-response-bypasses-validation', FG, "        return self.check_math_response(answer, student_input, **kwargs)",
           "        return self.raw_check(answer, student_input, **kwargs)[0]", 'D1'),
    Mutant('debug-skips-validation', MH, "        if result['ok'] is True or result['ok'] == 'partial':",
           "        if self.config['debug']:\n            return result\n        if result['ok'] is True or result['ok'] == 'partial':", 'D1'),
    # D2
    Mutant('forbidden-validator-dropped', MH, "        validate_forbidden_strings_not_used(expr,\n                                            self.config['forbidden_strings'],\n                                            self.config['forbidden_message'])\n", "", 'D2'),
    Mutant('required-validator-dropped', MH, "        validate_required_functions_used(used_funcs, self.config['required_functions'])\n", "", 'D2'),
    Mutant('permitted-validator-dropped', MH, "        validate_only_permitted_functions_used(used_funcs, self.permitted_functions)\n", "        pass\n", 'D2'),
    Mutant('permitted-is-all-functions', MH, "        validate_only_permitted_functions_used(used_funcs, self.permitted_functions)",
           "        validate_only_permitted_functions_used(used_funcs, self.functions)", 'D2'),
    Mutant('required-reads-blacklist', MH, "        validate_required_functions_used(used_funcs, self.config['required_functions'])",
           "        validate_required_functions_used(used_funcs, self.config['blacklist'])", 'D2'),
    Mutant('permitted-only-without-forbidden', MH, "        validate_only_permitted_functions_used(used_funcs, self.permitted_functions)",
           "        if self.config['forbidden_strings']:\n            validate_only_permitted_functions_used(used_funcs, self.permitted_functions)", 'D2'),
    Mutant('seeded-forbidden-strings-skip-first-box', IG, "    def validate_user_dummy_variable(self, varname):",
           "    def post_eval_validation(self, expr, used_funcs):\n        entered = {key: expr[key] for key in expr if self.true_input_positions[key]}\n        super(SummationGraderBase, self).post_eval_validation(entered, used_funcs)\n\n    def validate_user_dummy_variable(self, varname):", 'D2'),
    Mutant('sum-functions-from-author', IG, "        return instructor_evals, student_evals, used_funcs\n\n    def evaluate_sum(",
           "        return instructor_evals, student_evals, parse(answer['summand']).functions_used\n\n    def evaluate_sum(", 'D2'),
    Mutant('summand-functions-not-reported', IG, "        used_funcs = lower_used.functions_used.union(upper_used.functions_used, expression_used.functions_used)",
           "        used_funcs = lower_used.functions_used.union(upper_used.functions_used)", 'D2'),
    Mutant('raw-check-reports-no-functions', FG, "        return consolidated, functions_used", "        return consolidated, set()", 'D2'),
    # D3
    Mutant('student-spaces-not-stripped', MH, "        stripped_expr = expression.replace(' ', '')\n", "        stripped_expr = expression\n", 'D3'),
    Mutant('forbidden-spaces-not-stripped', MH, "            check_for = forbidden.replace(' ', '')\n", "            check_for = forbidden\n", 'D3'),
    Mutant('forbidden-not-in', MH, "            if check_for in stripped_expr:", "            if check_for not in stripped_expr:", 'D3'),
    Mutant('forbidden-containment-reversed', MH, "            if check_for in stripped_expr:", "            if stripped_expr in check_for:", 'D3'),
    Mutant('forbidden-first-expression-only', MH, "                raise InvalidInput(forbidden_msg)\n    return True",
           "                raise InvalidInput(forbidden_msg)\n        break\n    return True", 'D3'),
    Mutant('forbidden-dict-keys', MH, "        expr = [v for k, v in expr.items()]", "        expr = [k for k, v in expr.items()]", 'D3'),
    Mutant('required-inverted', MH, "        if func not in used_funcs:", "        if func in used_funcs:", 'D3'),
    Mutant('required-first-only', MH, "            raise InvalidInput(msg.format(func))\n    return True", "            raise InvalidInput(msg.format(func))\n        break\n    return True", 'D3'),
    Mutant('permitted-filter-inverted', MH, "sorted([f for f in used_funcs if f not in permitted_functions])", "sorted([f for f in used_funcs if f in permitted_functions])", 'D3'),
    Mutant('permitted-roles-swapped', MH, "sorted([f for f in used_funcs if f not in permitted_functions])", "sorted([f for f in permitted_functions if f not in used_funcs])", 'D3'),
    Mutant('permitted-never-raises', MH, "    if used_not_permitted:\n        func_names", "    if False:\n        func_names", 'D3'),
    Mutant('blacklist-difference-dropped', MH, "        permitted_functions = set(always_allowed).union(\n            set(default_funcs)\n            ).difference(set(blacklist))",
           "        permitted_functions = set(always_allowed).union(\n            set(default_funcs)\n            )", 'D3'),
    Mutant('none-whitelist-returns-defaults', MH, "        permitted_functions = set(always_allowed)\n    else:", "        permitted_functions = set(always_allowed).union(set(default_funcs))\n    else:", 'D3'),
    Mutant('whitelist-adds-defaults', MH, "        permitted_functions = set(always_allowed).union(whitelist)", "        permitted_functions = set(always_allowed).union(whitelist).union(default_funcs)", 'D3'),
    Mutant('whitelist-forgets-user-functions', MH, "        permitted_functions = set(always_allowed).union(whitelist)", "        permitted_functions = set(whitelist)", 'D3'),
    Mutant('seeded-blacklist-not-applied-to-user-functions', MH, "        permitted_functions = set(always_allowed).union(\n            set(default_funcs)\n            ).difference(set(blacklist))",
           "        permitted_defaults = set(default_funcs).difference(blacklist)\n        permitted_functions = set(always_allowed).union(permitted_defaults)", 'D3'),
    Mutant('blacklist-whitelist-swapped-at-call', MH, "                                                           self.config['whitelist'],\n                                                           self.config['blacklist'],",
           "                                                           self.config['blacklist'],\n                                                           self.config['whitelist'],", 'D3'),
    # D4
    Mutant('formula-deletion-after-student', FG, _FG_DEL, "            student_eval, meta = scoped_eval(student_input)\n            student_evals.append(student_eval)\n            for key in var_blacklist:\n                del varlist[key]\n", 'D4'),
    Mutant('formula-deletion-dropped', FG, "            for key in var_blacklist:\n                del varlist[key]\n\n            student_eval, meta", "            student_eval, meta", 'D4'),
    Mutant('sum-deletion-dropped', IG, _SUM_DEL, "            # Evaluate sums.\n", 'D4'),
    Mutant('integral-deletion-dropped', IG, "            for key in var_blacklist:\n                del varlist[key]\n\n            student_re, student_im", "            student_re, student_im", 'D4'),
    Mutant('formula-deletion-only-in-debug', FG, "            for key in var_blacklist:\n                del varlist[key]\n\n            student_eval, meta",
           "            if self.config['debug']:\n                for key in var_blacklist:\n                    del varlist[key]\n\n            student_eval, meta", 'D4'),
    Mutant('formula-siblings-not-blacklisted', FG, "        var_blacklist += sibling_vars\n", "", 'D4'),
    Mutant('sum-instructor-vars-not-blacklisted', IG, "        for var in self.config['instructor_vars']:\n            if var in var_samples[0]:\n                var_blacklist.append(var)\n\n        for i in range(self.config['samples']):\n            # Update the functions and variables listings with this sample\n            funclist.update(func_samples[i])\n            varlist.update(var_samples[i])\n\n            # Evaluate sums.",
           "        for i in range(self.config['samples']):\n            # Update the functions and variables listings with this sample\n            funclist.update(func_samples[i])\n            varlist.update(var_samples[i])\n\n            # Evaluate sums.", 'D4'),
    Mutant('formula-deletes-from-copy', FG, "            for key in var_blacklist:\n                del varlist[key]\n\n            student_eval, meta",
           "            scrubbed = dict(varlist)\n            for key in var_blacklist:\n                del scrubbed[key]\n\n            student_eval, meta", 'D4'),
    Mutant('formula-scope-restored-too-early', FG, "            for key in var_blacklist:\n                del varlist[key]\n\n            student_eval, meta",
           "            for key in var_blacklist:\n                del varlist[key]\n            varlist.update(var_samples[i])\n\n            student_eval, meta", 'D4'),
    Mutant('formula-deletion-before-author', FG, "            # Compute expressions\n            comparer_params_eval = self.eval_and_validate_comparer_params(scoped_eval, comparer_params)\n            comparer_params_evals.append(comparer_params_eval)\n\n            # Before performing student evaluation, scrub the sibling and instructor\n            # variables so that students can't use them\n            for key in var_blacklist:\n                del varlist[key]\n",
           "            for key in var_blacklist:\n                del varlist[key]\n            comparer_params_eval = self.eval_and_validate_comparer_params(scoped_eval, comparer_params)\n            comparer_params_evals.append(comparer_params_eval)\n", 'D4'),
    Mutant('sum-deletes-first-only', IG, "            for key in var_blacklist:\n                del varlist[key]\n                \n", "            for key in var_blacklist[:1]:\n                del varlist[key]\n                \n", 'D4'),
    Mutant('seeded-siblings-filtered-out', FG, _FG_BL,
           "        var_blacklist = [var for var in self.config['instructor_vars']\n                         if var in var_samples[0]]\n"
           "        var_blacklist += [key for key in sibling_formulas\n                          if key not in var_samples[0]]\n", 'D4'),
    Mutant('instructor-vars-selection-inverted', IG, "            if var in var_samples[0]:\n                var_blacklist.append(var)\n\n        for i in range(self.config['samples']):\n            # Update the functions and variables listings with this sample\n            funclist.update(func_samples[i])\n            varlist.update(var_samples[i])\n\n            # Evaluate sums.",
           "            if var not in var_samples[0]:\n                var_blacklist.append(var)\n\n        for i in range(self.config['samples']):\n            # Update the functions and variables listings with this sample\n            funclist.update(func_samples[i])\n            varlist.update(var_samples[i])\n\n            # Evaluate sums.", 'D4'),
    Mutant('sweep-sum-second-sample-membership', IG, "            if var in var_samples[0]:\n                var_blacklist.append(var)\n\n        for i in range(self.config['samples']):\n            # Update the functions and variables listings with this sample\n            funclist.update(func_samples[i])\n            varlist.update(var_samples[i])\n\n            # Evaluate sums.",
           "            if var in var_samples[1]:\n                var_blacklist.append(var)\n\n        for i in range(self.config['samples']):\n            # Update the functions and variables listings with this sample\n            funclist.update(func_samples[i])\n            varlist.update(var_samples[i])\n\n            # Evaluate sums.", 'D4'),
    Mutant('seeded-blacklist-membership-in-configured-names', IG, "        var_blacklist = []\n        for var in self.config['instructor_vars']:\n            if var in var_samples[0]:\n                var_blacklist.append(var)\n\n        for i in range(self.config['samples']):\n            # Update the functions and variables listings with this sample\n            funclist.update(func_samples[i])\n            varlist.update(var_samples[i])\n\n            # Evaluate sums.",
           "        defined = set(self.config['variables']).union(self.constants)\n        var_blacklist = [var for var in self.config['instructor_vars'] if var in defined]\n\n        for i in range(self.config['samples']):\n            # Update the functions and variables listings with this sample\n            funclist.update(func_samples[i])\n            varlist.update(var_samples[i])\n\n            # Evaluate sums.", 'D4'),
    Mutant('seeded-hidden-vars-from-param-siblings-only', FG, '    def gen_evaluations(self, comparer_params, student_input, sibling_formulas,\n                        var_samples, func_samples):\n        """\n        Evaluate the comparer parameters and student inputs for the given samples.\n\n        Returns:\n            A tuple (list, list, set). The first two lists are comparer_params_evals\n            and student_evals. These have length equal to number of samples specified\n            in config. The set is a record of mathematical functions used in the\n            student\'s input.\n        """\n        funclist = self.functions.copy()\n        varlist = {}\n\n        comparer_params_evals = []\n        student_evals = []\n\n        # Create a list of instructor and sibling variables to remove from student evaluation\n        sibling_vars = [key for key in sibling_formulas]\n        var_blacklist = []\n        for var in self.config[\'instructor_vars\']:\n            if var in var_samples[0]:\n                var_blacklist.append(var)\n        var_blacklist += sibling_vars\n\n        for i in range(self.config[\'samples\']):\n            # Update the functions and variables listings with this sample\n            funclist.update(func_samples[i])\n            varlist.update(var_samples[i])\n\n            def scoped_eval(expression,\n                            variables=varlist,\n                            functions=funclist,\n                            suffixes=self.suffixes,\n                            max_array_dim=self.config[\'max_array_dim\']):\n                return evaluator(expression, variables, functions, suffixes, max_array_dim,\n                                 allow_inf=self.config[\'allow_inf\'])\n\n            # Compute expressions\n            comparer_params_eval = self.eval_and_validate_comparer_params(scoped_eval, comparer_params)\n            comparer_params_evals.append(comparer_params_eval)\n\n            # Before performing student evaluation, scrub the sibling and instructor\n            # variables so that students can\'t use them\n            for key in var_blacklist:\n                del varlist[key]\n\n            student_eval, meta = scoped_eval(student_input)\n            student_evals.append(student_eval)\n\n            if self.config[\'debug\']:\n                # Put the siblings and instructor variables back in for the debug output\n                varlist.update(var_samples[i])\n                self.log_eval_info(i, varlist, funclist,\n                                   comparer_params_eval=comparer_params_eval,\n                                   student_eval=student_eval)\n\n        return comparer_params_evals, student_evals, meta.functions_used\n\n    def raw_check(self, answer, student_input, **kwargs):\n        """Perform the numerical check of student_input vs answer"""\n\n        # Extract sibling formulas to allow for sampling\n        siblings = kwargs.get(\'siblings\', None)\n        # Find sibling variables used in comparer parameters\n        comparer_params = answer[\'expect\'][\'comparer_params\']\n        required_siblings = self.get_used_vars(comparer_params)\n        # Add in any sibling variables used in DependentSamplers\n        samplers = [self.config[\'sample_from\'][x]\n                    for x in self.config[\'sample_from\']\n                    if isinstance(self.config[\'sample_from\'][x], DependentSampler)]\n        sampler_vars = sum((x.config[\'depends\'] for x in samplers), [])\n        required_siblings = list(set(required_siblings).union(set(sampler_vars)))\n        # required_siblings might include some extra variable names, but no matter\n        sibling_formulas = self.get_sibling_formulas(siblings, required_siblings)\n\n        # Generate samples, using student input, sibling formulas and any comparer\n        # parameters (including answers) as the list of expressions to check\n        var_samples, func_samples = self.gen_var_and_func_samples(student_input,\n                                                                  sibling_formulas,\n                                                                  comparer_params)\n\n        (comparer_params_evals,\n         student_evals,\n         functions_used) = self.gen_evaluations(comparer_params, student_input,\n                                                sibling_formulas, var_samples, func_samples)\n\n', '    def get_sampler_dependencies(self):\n        """\n        Returns the set of names that the DependentSamplers in sample_from depend on.\n        These can include sibling variables.\n        """\n        samplers = [sampler for sampler in self.config[\'sample_from\'].values()\n                    if isinstance(sampler, DependentSampler)]\n        return set().union(*[sampler.config[\'depends\'] for sampler in samplers])\n\n    def get_hidden_vars(self, sample, sibling_vars):\n        """\n        Returns the list of names in a sample that students may not use: instructor\n        variables and sibling variables. These are scrubbed from the scope before\n        the student\'s input is evaluated.\n\n        Arguments:\n            sample (dict): a variable sample, as produced by gen_var_and_func_samples\n            sibling_vars: the names of the sibling variables that may have been\n                sampled. Names that aren\'t in the sample are ignored, as is the\n                case for instructor_vars (which is not validated either).\n        """\n        candidates = self.config[\'instructor_vars\'] + sorted(sibling_vars)\n        return [var for var in candidates if var in sample]\n\n    def gen_evaluations(self, comparer_params, student_input, hidden_vars,\n                        var_samples, func_samples):\n        """\n        Evaluate the comparer parameters and student inputs for the given samples.\n        The names in hidden_vars are available to the comparer parameters, but not\n        to the student input.\n\n        Returns:\n            A tuple (list, list, set). The first two lists are comparer_params_evals\n            and student_evals. These have length equal to number of samples specified\n            in config. The set is a record of mathematical functions used in the\n            student\'s input.\n        """\n        funclist = self.functions.copy()\n        varlist = {}\n\n        comparer_params_evals = []\n        student_evals = []\n\n        for i in range(self.config[\'samples\']):\n            # Update the functions and variables listings with this sample\n            funclist.update(func_samples[i])\n            varlist.update(var_samples[i])\n\n            def scoped_eval(expression,\n                            variables=varlist,\n                            functions=funclist,\n                            suffixes=self.suffixes,\n                            max_array_dim=self.config[\'max_array_dim\']):\n                return evaluator(expression, variables, functions, suffixes, max_array_dim,\n                                 allow_inf=self.config[\'allow_inf\'])\n\n            # Compute expressions\n            comparer_params_eval = self.eval_and_validate_comparer_params(scoped_eval, comparer_params)\n            comparer_params_evals.append(comparer_params_eval)\n\n            # Before performing student evaluation, scrub the sibling and instructor\n            # variables so that students can\'t use them\n            for key in hidden_vars:\n                del varlist[key]\n\n            student_eval, meta = scoped_eval(student_input)\n            student_evals.append(student_eval)\n\n            if self.config[\'debug\']:\n                # Put the siblings and instructor variables back in for the debug output\n                varlist.update(var_samples[i])\n                self.log_eval_info(i, varlist, funclist,\n                                   comparer_params_eval=comparer_params_eval,\n                                   student_eval=student_eval)\n\n        return comparer_params_evals, student_evals, meta.functions_used\n\n    def raw_check(self, answer, student_input, **kwargs):\n        """Perform the numerical check of student_input vs answer"""\n\n        # Extract sibling formulas to allow for sampling\n        siblings = kwargs.get(\'siblings\', None)\n        # Find sibling variables used in comparer parameters\n        comparer_params = answer[\'expect\'][\'comparer_params\']\n        param_siblings = self.get_used_vars(comparer_params)\n        # Add in any sibling variables used in DependentSamplers\n        required_siblings = param_siblings.union(self.get_sampler_dependencies())\n        # Both sets might include some extra variable names, but no matter\n        sibling_formulas = self.get_sibling_formulas(siblings, required_siblings)\n\n        # Generate samples, using student input, sibling formulas and any comparer\n        # parameters (including answers) as the list of expressions to check\n        var_samples, func_samples = self.gen_var_and_func_samples(student_input,\n                                                                  sibling_formulas,\n                                                                  comparer_params)\n\n        # Instructor and sibling variables are only for the comparer parameters\n        sibling_vars = [var for var in param_siblings if var in sibling_formulas]\n        hidden_vars = self.get_hidden_vars(var_samples[0], sibling_vars)\n\n        (comparer_params_evals,\n         student_evals,\n         functions_used) = self.gen_evaluations(comparer_params, student_input,\n                                                hidden_vars, var_samples, func_samples)\n\n', 'D4'),
    Mutant('only-first-sibling-blacklisted', FG, "        var_blacklist += sibling_vars\n", "        var_blacklist += sibling_vars[:1]\n", 'D4'),
    # D5
    Mutant('check-scope-skipped', EXPR, "        self.check_scope(variables, functions, suffixes)\n\n        # metadata_dict", "        # metadata_dict", 'D5'),
    Mutant('check-scope-conditional', EXPR, "        self.check_scope(variables, functions, suffixes)\n\n        # metadata_dict",
           "        if not allow_inf:\n            self.check_scope(variables, functions, suffixes)\n\n        # metadata_dict", 'D5'),
    Mutant('check-scope-args-swapped', EXPR, "        self.check_scope(variables, functions, suffixes)\n\n        # metadata_dict",
           "        self.check_scope(functions, variables, suffixes)\n\n        # metadata_dict", 'D5'),
    Mutant('bad-vars-inverted', EXPR, "bad_vars = set(var for var in self.variables_used if var not in variables)", "bad_vars = set(var for var in self.variables_used if var in variables)", 'D5'),
    Mutant('bad-vars-never-raise', EXPR, "            raise UndefinedVariable(message)\n", "            pass\n", 'D5'),
    Mutant('bad-funcs-looked-up-in-variables', EXPR, "bad_funcs = set(func for func in self.functions_used if func not in functions)",
           "bad_funcs = set(func for func in self.functions_used if func not in variables)", 'D5'),
    Mutant('evaluator-ignores-variables', EXPR, "    result, eval_metadata = parsed.eval(variables, functions, suffixes, allow_inf=allow_inf)",
           "    result, eval_metadata = parsed.eval(DEFAULT_VARIABLES, functions, suffixes, allow_inf=allow_inf)", 'D5'),
    Mutant('summand-evaluated-with-default-scope', IG, "            value, _ = evaluator(summand_str,\n                                 variables=varscope,\n                                 functions=funcscope,",
           "            value, _ = evaluator(summand_str,", 'D5'),
]

BENIGN = [
    Benign('validate-is-not-false', MH, "        if result['ok'] is True or result['ok'] == 'partial':", "        if result['ok'] is not False:"),
    Benign('validate-ne-false', MH, "        if result['ok'] is True or result['ok'] == 'partial':", "        if result['ok'] != False:"),
    Benign('validate-positive-grade', MH, "        if result['ok'] is True or result['ok'] == 'partial':", "        if result['grade_decimal'] > 0:"),
    Benign('validate-always', MH, "        if result['ok'] is True or result['ok'] == 'partial':\n            self.post_eval_validation(student_input, used_funcs)",
           "        self.post_eval_validation(student_input, used_funcs)"),
    Benign('early-return-when-wrong', MH, "        if result['ok'] is True or result['ok'] == 'partial':\n            self.post_eval_validation(student_input, used_funcs)\n        return result",
           "        if result['ok'] is False:\n            return result\n        self.post_eval_validation(student_input, used_funcs)\n        return result"),
    Benign('validators-reordered', MH, "        validate_required_functions_used(used_funcs, self.config['required_functions'])\n        \n        validate_only_permitted_functions_used(used_funcs, self.permitted_functions)",
           "        validate_only_permitted_functions_used(used_funcs, self.permitted_functions)\n        validate_required_functions_used(used_funcs, required_funcs=self.config['required_functions'])"),
    Benign('forbidden-inline', MH, "        stripped_expr = expression.replace(' ', '')\n        for forbidden in forbidden_strings:\n            check_for = forbidden.replace(' ', '')\n            if check_for in stripped_expr:",
           "        for forbidden in forbidden_strings:\n            if forbidden.replace(' ', '') in expression.replace(' ', ''):"),
    Benign('permitted-set-operators', MH, "        permitted_functions = set(always_allowed).union(\n            set(default_funcs)\n            ).difference(set(blacklist))",
           "        permitted_functions = (set(default_funcs) | set(always_allowed)) - set(blacklist)"),
    Benign('not-whitelist', MH, "    if whitelist == []:\n        permitted_functions", "    if not whitelist:\n        permitted_functions"),
    Benign('log-before-student-eval', FG, "            for key in var_blacklist:\n                del varlist[key]\n\n            student_eval, meta",
           "            for key in var_blacklist:\n                del varlist[key]\n            self.log('scrubbed')\n\n            student_eval, meta"),
    Benign('blacklist-comprehension', IG, "        var_blacklist = []\n        for var in self.config['instructor_vars']:\n            if var in var_samples[0]:\n                var_blacklist.append(var)\n\n        for i in range(self.config['samples']):\n            # Update the functions and variables listings with this sample\n            funclist.update(func_samples[i])\n            varlist.update(var_samples[i])\n\n            # Evaluate sums.",
           "        var_blacklist = [var for var in self.config['instructor_vars'] if var in var_samples[0]]\n\n        for i in range(self.config['samples']):\n            # Update the functions and variables listings with this sample\n            funclist.update(func_samples[i])\n            varlist.update(var_samples[i])\n\n            # Evaluate sums."),
    Benign('blacklist-two-comprehensions', FG, _FG_BL,
           "        var_blacklist = [var for var in self.config['instructor_vars']\n                         if var in var_samples[0]]\n"
           "        var_blacklist += [key for key in sibling_formulas\n                          if key not in var_blacklist]\n"),
    Benign('forbidden-any-helper', MH, "        stripped_expr = expression.replace(' ', '')\n        for forbidden in forbidden_strings:\n            check_for = forbidden.replace(' ', '')\n            if check_for in stripped_expr:\n                # Don't give away the specific string that is being checked for!\n                raise InvalidInput(forbidden_msg)\n    return True\n",
           "        if _contains_any_ignoring_spaces(expression, forbidden_strings):\n            raise InvalidInput(forbidden_msg)\n    return True\n\ndef _contains_any_ignoring_spaces(text, substrings):\n    stripped_text = text.replace(' ', '')\n    return any(substring.replace(' ', '') in stripped_text for substring in substrings)\n"),
    Benign('limits-in-one-comprehension', IG, "        lower, lower_used = evaluator(lower_str,\n                                      variables=varscope,\n                                      functions=funcscope,\n                                      suffixes=self.suffixes,\n                                      allow_inf=True)\n        upper, upper_used = evaluator(upper_str,\n                                      variables=varscope,\n                                      functions=funcscope,\n                                      suffixes=self.suffixes,\n                                      allow_inf=True)\n        expression_used = parse(expression)\n        \n        used_funcs = lower_used.functions_used.union(upper_used.functions_used, expression_used.functions_used)\n",
           "        (lower, lower_used), (upper, upper_used) = [evaluator(limit_str, variables=varscope, functions=funcscope, suffixes=self.suffixes, allow_inf=True) for limit_str in (lower_str, upper_str)]\n        used_funcs = set().union(lower_used.functions_used, upper_used.functions_used, parse(expression).functions_used)\n"),
    Benign('bad-vars-set-difference', EXPR, "bad_vars = set(var for var in self.variables_used if var not in variables)", "bad_vars = set(self.variables_used).difference(variables)"),
    Benign('required-guard-clause-continue', MH, "        if func not in used_funcs:\n            msg = \"Invalid Input: Answer must contain the function {}\"\n            raise InvalidInput(msg.format(func))\n",
           "        if func in used_funcs:\n            continue\n        msg = \"Invalid Input: Answer must contain the function {}\"\n        raise InvalidInput(msg.format(func))\n"),
    Benign('hidden-vars-computed-in-raw-check', FG, '    def gen_evaluations(self, comparer_params, student_input, sibling_formulas,\n                        var_samples, func_samples):\n        """\n        Evaluate the comparer parameters and student inputs for the given samples.\n\n        Returns:\n            A tuple (list, list, set). The first two lists are comparer_params_evals\n            and student_evals. These have length equal to number of samples specified\n            in config. The set is a record of mathematical functions used in the\n            student\'s input.\n        """\n        funclist = self.functions.copy()\n        varlist = {}\n\n        comparer_params_evals = []\n        student_evals = []\n\n        # Create a list of instructor and sibling variables to remove from student evaluation\n        sibling_vars = [key for key in sibling_formulas]\n        var_blacklist = []\n        for var in self.config[\'instructor_vars\']:\n            if var in var_samples[0]:\n                var_blacklist.append(var)\n        var_blacklist += sibling_vars\n\n        for i in range(self.config[\'samples\']):\n            # Update the functions and variables listings with this sample\n            funclist.update(func_samples[i])\n            varlist.update(var_samples[i])\n\n            def scoped_eval(expression,\n                            variables=varlist,\n                            functions=funclist,\n                            suffixes=self.suffixes,\n                            max_array_dim=self.config[\'max_array_dim\']):\n                return evaluator(expression, variables, functions, suffixes, max_array_dim,\n                                 allow_inf=self.config[\'allow_inf\'])\n\n            # Compute expressions\n            comparer_params_eval = self.eval_and_validate_comparer_params(scoped_eval, comparer_params)\n            comparer_params_evals.append(comparer_params_eval)\n\n            # Before performing student evaluation, scrub the sibling and instructor\n            # variables so that students can\'t use them\n            for key in var_blacklist:\n                del varlist[key]\n\n            student_eval, meta = scoped_eval(student_input)\n            student_evals.append(student_eval)\n\n            if self.config[\'debug\']:\n                # Put the siblings and instructor variables back in for the debug output\n                varlist.update(var_samples[i])\n                self.log_eval_info(i, varlist, funclist,\n                                   comparer_params_eval=comparer_params_eval,\n                                   student_eval=student_eval)\n\n        return comparer_params_evals, student_evals, meta.functions_used\n\n    def raw_check(self, answer, student_input, **kwargs):\n        """Perform the numerical check of student_input vs answer"""\n\n        # Extract sibling formulas to allow for sampling\n        siblings = kwargs.get(\'siblings\', None)\n        # Find sibling variables used in comparer parameters\n        comparer_params = answer[\'expect\'][\'comparer_params\']\n        required_siblings = self.get_used_vars(comparer_params)\n        # Add in any sibling variables used in DependentSamplers\n        samplers = [self.config[\'sample_from\'][x]\n                    for x in self.config[\'sample_from\']\n                    if isinstance(self.config[\'sample_from\'][x], DependentSampler)]\n        sampler_vars = sum((x.config[\'depends\'] for x in samplers), [])\n        required_siblings = list(set(required_siblings).union(set(sampler_vars)))\n        # required_siblings might include some extra variable names, but no matter\n        sibling_formulas = self.get_sibling_formulas(siblings, required_siblings)\n\n        # Generate samples, using student input, sibling formulas and any comparer\n        # parameters (including answers) as the list of expressions to check\n        var_samples, func_samples = self.gen_var_and_func_samples(student_input,\n                                                                  sibling_formulas,\n                                                                  comparer_params)\n\n        (comparer_params_evals,\n         student_evals,\n         functions_used) = self.gen_evaluations(comparer_params, student_input,\n                                                sibling_formulas, var_samples, func_samples)\n\n', '    def get_sampler_dependencies(self):\n        """\n        Returns the set of names that the DependentSamplers in sample_from depend on.\n        These can include sibling variables.\n        """\n        samplers = [sampler for sampler in self.config[\'sample_from\'].values()\n                    if isinstance(sampler, DependentSampler)]\n        return set().union(*[sampler.config[\'depends\'] for sampler in samplers])\n\n    def get_hidden_vars(self, sample, sibling_vars):\n        """\n        Returns the list of names in a sample that students may not use: instructor\n        variables and sibling variables. These are scrubbed from the scope before\n        the student\'s input is evaluated.\n\n        Arguments:\n            sample (dict): a variable sample, as produced by gen_var_and_func_samples\n            sibling_vars: the names of the sibling variables that may have been\n                sampled. Names that aren\'t in the sample are ignored, as is the\n                case for instructor_vars (which is not validated either).\n        """\n        candidates = self.config[\'instructor_vars\'] + sorted(sibling_vars)\n        return [var for var in candidates if var in sample]\n\n    def gen_evaluations(self, comparer_params, student_input, hidden_vars,\n                        var_samples, func_samples):\n        """\n        Evaluate the comparer parameters and student inputs for the given samples.\n        The names in hidden_vars are available to the comparer parameters, but not\n        to the student input.\n\n        Returns:\n            A tuple (list, list, set). The first two lists are comparer_params_evals\n            and student_evals. These have length equal to number of samples specified\n            in config. The set is a record of mathematical functions used in the\n            student\'s input.\n        """\n        funclist = self.functions.copy()\n        varlist = {}\n\n        comparer_params_evals = []\n        student_evals = []\n\n        for i in range(self.config[\'samples\']):\n            # Update the functions and variables listings with this sample\n            funclist.update(func_samples[i])\n            varlist.update(var_samples[i])\n\n            def scoped_eval(expression,\n                            variables=varlist,\n                            functions=funclist,\n                            suffixes=self.suffixes,\n                            max_array_dim=self.config[\'max_array_dim\']):\n                return evaluator(expression, variables, functions, suffixes, max_array_dim,\n                                 allow_inf=self.config[\'allow_inf\'])\n\n            # Compute expressions\n            comparer_params_eval = self.eval_and_validate_comparer_params(scoped_eval, comparer_params)\n            comparer_params_evals.append(comparer_params_eval)\n\n            # Before performing student evaluation, scrub the sibling and instructor\n            # variables so that students can\'t use them\n            for key in hidden_vars:\n                del varlist[key]\n\n            student_eval, meta = scoped_eval(student_input)\n            student_evals.append(student_eval)\n\n            if self.config[\'debug\']:\n                # Put the siblings and instructor variables back in for the debug output\n                varlist.update(var_samples[i])\n                self.log_eval_info(i, varlist, funclist,\n                                   comparer_params_eval=comparer_params_eval,\n                                   student_eval=student_eval)\n\n        return comparer_params_evals, student_evals, meta.functions_used\n\n    def raw_check(self, answer, student_input, **kwargs):\n        """Perform the numerical check of student_input vs answer"""\n\n        # Extract sibling formulas to allow for sampling\n        siblings = kwargs.get(\'siblings\', None)\n        # Find sibling variables used in comparer parameters\n        comparer_params = answer[\'expect\'][\'comparer_params\']\n        param_siblings = self.get_used_vars(comparer_params)\n        # Add in any sibling variables used in DependentSamplers\n        required_siblings = param_siblings.union(self.get_sampler_dependencies())\n        # Both sets might include some extra variable names, but no matter\n        sibling_formulas = self.get_sibling_formulas(siblings, required_siblings)\n\n        # Generate samples, using student input, sibling formulas and any comparer\n        # parameters (including answers) as the list of expressions to check\n        var_samples, func_samples = self.gen_var_and_func_samples(student_input,\n                                                                  sibling_formulas,\n                                                                  comparer_params)\n\n        # Instructor and sibling variables are only for the comparer parameters\n        sibling_vars = [var for var in required_siblings if var in sibling_formulas]\n        hidden_vars = self.get_hidden_vars(var_samples[0], sibling_vars)\n\n        (comparer_params_evals,\n         student_evals,\n         functions_used) = self.gen_evaluations(comparer_params, student_input,\n                                                hidden_vars, var_samples, func_samples)\n\n'),
    Benign('check-scope-keywords', EXPR, "        self.check_scope(variables, functions, suffixes)\n\n        # metadata_dict",
           "        self.check_scope(functions=functions, variables=variables, suffixes=suffixes)\n\n        # metadata_dict"),
]


# ------------------------------------------------------------------------ thorough tier
def thorough(ctx):
    """Independent re-implementation of the D4 ordering query by bounded path enumeration."""
    idx = ctx.index
    r = ctx.rule('D4.SCRUB.paths', 'cross-check: every enumerated path author -> student inside one iteration contains the deletion',
                 floor=3)
    with r:
        for q in (FGC, IGC, SGC):
            fi = idx.func(q + '.gen_evaluations')
            name = q.split('.')[-1] + '.gen_evaluations'
            author, student = _gen_eval_roots(fi)
            a_calls, s_calls = eval_sites(fi, author, student)
            if len(a_calls) != 1 or len(s_calls) != 1:
                raise AnalysisError('%s: expected one author and one student evaluation' % name)
            loop = fl.enclosing_loop(s_calls[0], fi.node)
            if loop is None:
                raise AnalysisError('%s: no sampling loop' % name)
            cfg = cfg_of(fi.node)
            a_nodes, s_nodes = fl.nodes_for(cfg, a_calls[0]), fl.nodes_for(cfg, s_calls[0])
            head = fl.loop_head(cfg, loop)
            d_nodes = set()
            for n in ast.walk(loop):
                if isinstance(n, ast.Delete):
                    lp = fl.enclosing_loop(n, fi.node)
                    if lp is not None and lp is not loop:
                        d_nodes |= set(cfg.nodes_of(lp))
            for m in fl.scrub_managers(idx, fi, loop):
                d_nodes |= {n for n in cfg.nodes_of(m.node) if n.kind == 'with'}
            total = bad = 0
            truncated = False
            for a in a_nodes:
                paths, trunc = cfg.enumerate_paths(a, limit=10000, exits=set(s_nodes) | {head, cfg.exit_raise, cfg.exit_return})
                truncated = truncated or trunc
                for p in paths:
                    if p[-1] in s_nodes:
                        total += 1
                        if not any(n in d_nodes for n in p):
                            bad += 1
            if truncated:
                r.undecided(name, 'path enumeration hit its bound', fi.loc)
            elif total == 0:
                r.undecided(name, 'no path from the author\'s to the student\'s evaluation was enumerated', fi.loc)
            elif bad:
                r.violation(name, '%d of %d enumerated paths from the author\'s to the student\'s evaluation skip the deletion of the '
                            'black-listed names' % (bad, total), fi.loc)
            else:
                r.ok(name, '%d enumerated path(s), all pass the deletion' % total, fi.loc)
