"""C12 clauses D3 (matrix algebra), D4 (option-enum exhaustiveness), D5 (retry loop) -- helper of c12.py."""
import ast
import itertools
from fractions import Fraction

from ..index import AnalysisError, walk_own, unparse, short
from ..cfg import cfg_of
from .. import nf, lib
from .. import absint as ai
from ..absint import Rat, Unsupported, UNK


def _func(idx, qual):
    """FuncInfo of `pkg.mod.Class.method`, looked up along the MRO when the class itself does not define it
    (constructors / methods moved into a shared base class)."""
    if idx.has_func(qual):
        return idx.func(qual)
    cq, _, name = qual.rpartition('.')
    ci = idx.classes.get(cq)
    if ci is not None:
        f = idx.lookup(ci, name)
        if f is not None and f.module.name.startswith('mitxgraders.') and f.cls is not None \
                and f.cls.qualname != 'mitxgraders.baseclasses.ObjectWithSchema':
            return f
    return idx.func(qual)          # raises "anchor vanished"

M = 'mitxgraders.matrixsampling.'
SM = M + 'SquareMatrices'
ARR = M + 'ArraySamplingSet'


def _paths(idx, qual, **kw):
    fi = _func(idx, qual)
    try:
        return fi, ai.sym_exec(idx, fi, **kw)
    except Unsupported as e:
        raise AnalysisError('%s: %s' % (qual, e))


def _array_param(fi):
    if len(fi.params) != 2:
        raise AnalysisError('%s should take (self, array)' % fi.qualname)
    return ('param', fi.params[1])


def rewrite(t, mapping):
    """Replace sub-terms (exact matches) by other terms."""
    if t in mapping:
        return mapping[t]
    rw = lambda x: rewrite(x, mapping)      # noqa: E731
    k = t[0]
    if k == 'call':
        return ('call', t[1], tuple(rw(a) for a in t[2]), tuple((n, rw(v)) for n, v in t[3]))
    if k == 'meth':
        return ('meth', rw(t[1]), t[2], tuple(rw(a) for a in t[3]), tuple((n, rw(v)) for n, v in t[4]))
    if k in ('and', 'or', 'tuple', 'list'):
        return (k, tuple(rw(x) for x in t[1]))
    if k == 'cmp':
        return ('cmp', t[1], rw(t[2]), rw(t[3]))
    if k == 'attr':
        return ('attr', rw(t[1]), t[2])
    if k in ('add', 'sub', 'mul', 'div', 'pow', 'mod', 'floordiv', 'matmul', 'index', 'ifexp', 'neg', 'not'):
        return (k,) + tuple(rw(x) for x in t[1:])
    return t


SYMMETRIES = [None, 'diagonal', 'symmetric', 'antisymmetric', 'hermitian', 'antihermitian']
RELATIONS = [('symmetric (W^T = W)', lambda v: v.T(), 1), ('antisymmetric (W^T = -W)', lambda v: v.T(), -1),
             ('hermitian (conj(W^T) = W)', lambda v: v.T().C(), 1), ('antihermitian (conj(W^T) = -W)', lambda v: v.T().C(), -1),
             ('diagonal (diag(diag(W)) = W)', lambda v: v.D(), 1)]
WANT = {'symmetric': 0, 'antisymmetric': 1, 'hermitian': 2, 'antihermitian': 3, 'diagonal': 4}


def _holds(v):
    out = []
    for name, f, sign in RELATIONS:
        try:
            if f(v).equals(v, sign):
                out.append(name)
        except Unsupported:
            pass
    return out


def _with_value(p, value):
    q = ai.SPath(p.guards, p.kind, value, p.exc, p.stmt, p.store, p.env, p.effects, p.closures)
    return q


def _select(paths, asg, idx=None, fi=None):
    if idx is not None:
        res = []
        for p in paths:
            vals = [ai.enum_eval(ai.specialise(idx, fi, g, asg), asg) for g in p.conds]
            if any(v is not UNK and not v for v in vals):
                continue
            res.append((p, not any(v is UNK for v in vals)))
    else:
        res = ai.enum_run(paths, asg)
    if len(res) != 1 or not res[0][1]:
        raise AnalysisError('option values %s select %d paths' % (asg, len(res)))
    return res[0][0]


def d3_matrices(ctx, idx):
    # ---------------------------------------------------------------- apply_symmetry
    r_sym = ctx.rule('D3.SYM', 'every SquareMatrices.apply_symmetry branch yields W with S(W) = +-W for the declared symmetry', floor=6)
    r_tr = ctx.rule('D3.TRACE', 'the traceless step subtracts trace/dimension * identity(dimension): the result has trace 0', floor=6)
    fi = paths = base = None
    with r_sym:
        fi, paths = _paths(idx, SM + '.apply_symmetry')
        base = _array_param(fi)
        for s in SYMMETRIES:
            p = _select(paths, {'symmetry': s, 'traceless': False}, idx, fi)
            construct = 'SquareMatrices.apply_symmetry [symmetry=%r]' % s
            where = lib.loc(fi, p.stmt)
            if p.kind != 'ret':
                r_sym.violation(construct, 'the branch %s instead of returning an array' % p.kind, where)
                continue
            try:
                val = ai.specialise(idx, fi, p.value, {'symmetry': s, 'traceless': False})
                v = ai.AlgEval(base).ev(val)
            except Unsupported as e:
                r_sym.undecided(construct, str(e), where)
                continue
            if not v.is_matrix:
                r_sym.violation(construct, 'the branch returns %s, not a matrix of the sampled shape' % (v.other[1] if v.other else v.text()), where)
                continue
            if v.is_zero():
                r_sym.violation(construct, 'the branch returns the zero matrix (`%s` cancels)' % ai.show(val), where)
                continue
            holds = _holds(v)
            if s is None:
                r_sym.check(v.equals(ai.AlgEval(base).ev(base)), construct, 'the array is returned unchanged',
                            'without a requested symmetry the array is changed to %s' % v.text(), where, expected='W', found=v.text())
            else:
                want = RELATIONS[WANT[s]][0]
                r_sym.check(want in holds, construct, '%s is %s' % (v.text(), want),
                            'the result %s is not %s; it is %s' % (v.text(), want, ', '.join(holds) or 'none of the five symmetry classes'),
                            where, expected=want, found=v.text())
    with r_tr:
        if paths is None:
            raise AnalysisError('apply_symmetry not analysed')
        dim = Rat.sym('dimension')
        for s in SYMMETRIES:
            p = _select(paths, {'symmetry': s, 'traceless': True}, idx, fi)
            p0 = _select(paths, {'symmetry': s, 'traceless': False}, idx, fi)
            construct = 'SquareMatrices.apply_symmetry [symmetry=%r, traceless]' % s
            where = lib.loc(fi, p.stmt)
            try:
                v = ai.AlgEval(base).ev(ai.specialise(idx, fi, p.value, {'symmetry': s, 'traceless': True}))
                v0 = ai.AlgEval(base).ev(ai.specialise(idx, fi, p0.value, {'symmetry': s, 'traceless': False})) if p0.kind == 'ret' else None
            except Unsupported as e:
                r_tr.undecided(construct, str(e), where)
                continue
            if not v.is_matrix:
                r_tr.undecided(construct, 'not a matrix', where)
                continue
            eyes = [w for w in v.matrix if w[0] == 'I']
            tr = v.trace()
            problems = []
            if any(not (w[1] == dim) for w in eyes):
                problems.append('the identity has size %s instead of dimension' % ', '.join(w[1].text() for w in eyes))
            if not tr.is_zero():
                problems.append('trace(result) = %s, which is not 0 (the subtracted multiple of the identity must be trace/dimension)' % tr.text())
            if v0 is not None and v0.is_matrix:
                rest = ai.AlgVal(matrix={w: c for w, c in v.matrix.items() if w[0] != 'I'})
                if not rest.equals(v0):
                    problems.append('the symmetric part changed from %s to %s' % (v0.text(), rest.text()))
            if problems:
                r_tr.violation(construct, '; '.join(problems), where, expected='W - trace(W)/dimension * I', found=v.text())
            else:
                r_tr.ok(construct, '%s has trace 0' % v.text(), where)

    # ---------------------------------------------------------------- make_det_one
    r = ctx.rule('D3.DET1', 'make_det_one divides by det**(1/dimension) (with the sign fix in odd dimensions): determinant 1', floor=3)
    with r:
        fi, paths = _paths(idx, SM + '.make_det_one')
        base = _array_param(fi)
        det_t = ('call', 'numpy.linalg.det', (base,), ())
        dim = Rat.sym('dimension')
        rets = [p for p in paths if p.kind == 'ret']
        if not rets:
            raise AnalysisError('make_det_one has no returning path')
        for i, p in enumerate(rets):
            where = lib.loc(fi, p.stmt)
            v = p.value
            sign = 1
            # peel  -(A / P)  /  (-A) / P
            while v[0] == 'neg':
                sign, v = -sign, v[1]
            if v[0] != 'div':
                r.undecided('make_det_one: return #%d' % (i + 1), 'value `%s` is not array / power' % ai.show(p.value)[:80], where)
                continue
            numer, denom = v[1], v[2]
            while numer[0] == 'neg':
                sign, numer = -sign, numer[1]
            is_pow = (denom[0] == 'call' and denom[1] in ('numpy.power', 'numpy.float_power') and len(denom[2]) == 2) or denom[0] == 'pow'
            if numer != base or not is_pow:
                r.undecided('make_det_one: return #%d' % (i + 1), 'value `%s` is not array / power(det, e)' % ai.show(p.value)[:80], where)
                continue
            B, E = (denom[2][0], denom[2][1]) if denom[0] == 'call' else (denom[1], denom[2])
            sigma = 1
            absolute = False
            changed = True
            while changed:
                changed = False
                if B[0] == 'neg':
                    sigma, B, changed = -sigma, B[1], True
                elif B[0] == 'call' and B[1] in ('numpy.abs', 'numpy.absolute', 'numpy.fabs', 'abs') and len(B[2]) == 1:
                    absolute, sigma, B, changed = True, 1, B[2][0], True
                elif B[0] == 'call' and B[1] == 'numpy.real' and len(B[2]) == 1:
                    B, changed = B[2][0], True
                elif B[0] == 'add' and ('imag', Fraction(0)) in (B[1], B[2]):
                    B, changed = (B[2] if B[1] == ('imag', Fraction(0)) else B[1]), True
            realbranch = any(ai.mentions(g, ('call', 'numpy.real', (det_t,), ())) for g in p.conds)
            construct = 'make_det_one: %s' % ('-array / (-det)**e' if sign < 0 else 'array / det**e') + (' [real determinant]' if realbranch else ' [complex]')
            if B != det_t:
                r.violation(construct, 'the array is scaled by a power of `%s`, not of its determinant' % ai.show(B), where)
                continue
            try:
                e = ai.RatEnv().rat(E)
            except Unsupported as ex:
                r.undecided(construct, str(ex), where)
                continue
            if not (e * dim == Rat.const(1)):
                r.violation(construct, 'det(array / det**e) = det**(1 - dimension*e) with e = %s: this is 1 only if e = 1/dimension; '
                            'e.g. dimension = 3 leaves determinant det**(%s)' % (e.text(), (Rat.const(1) - e.subs('dimension', Rat.const(3)) * Rat.const(3)).text()),
                            where, expected='1/dimension', found=e.text())
                continue
            odd = any(c == ('cmp', '==', ('mod', ('cfg', 'dimension'), ai.num(2)), ai.num(1)) for g in p.conds for c in ai.t_conjuncts(g))
            dets = (det_t, ('call', 'numpy.real', (det_t,), ()))
            conj = [c for g in p.conds for c in ai.t_conjuncts(g)]
            pos = any(c[0] == 'cmp' and c[1] in ('<', '<=') and c[3] in dets and c[2][0] == 'num' and
                      (c[2][1] > 0 or (c[2][1] == 0 and c[1] == '<')) for c in conj)
            negd = any(c[0] == 'cmp' and c[1] in ('<', '<=') and c[2] in dets and c[3][0] == 'num' and
                       (c[3][1] < 0 or (c[3][1] == 0 and c[1] == '<')) for c in conj)
            mentions_det = any(ai.mentions(c, det_t) for c in conj)
            tiny = [c for c in conj if c[0] == 'cmp' and c[1] in ('<', '<=') and ai.mentions(c[2], det_t) and c[3][0] == 'num'
                    and 0 < c[3][1] <= ai.Fraction(1, 1000) and not (c[2] in dets)]
            if tiny:
                comp = [q for q in paths if q is not p and len(q.conds) == len(p.conds) and
                        all((a == b) or (a == tiny[0] and b == ai.t_not(tiny[0])) for a, b in zip(p.conds, q.conds))]
                tiny = tiny if (comp and all(q.kind == 'raise' for q in comp)) else []
            if tiny:
                r.violation(construct, 'the rescaled array is returned only under `%s`, i.e. for a determinant that is numerically zero (division '
                            'by ~0), while every ordinary draw raises Retry: after 100 attempts gen_sample fails with ValueError instead of '
                            'returning a unit-determinant matrix' % ai.show(tiny[0]), where, expected='raise Retry() when |det| is below the threshold')
                continue
            if absolute and not pos:
                # |det| = sigma*det with sigma the sign of det: known only from a guard that holds on the whole path
                if realbranch and negd:
                    sigma = -1
                else:
                    r.violation(construct, 'the array is divided by |det|**(1/n)%s: det(result) = %sdet/|det|, which keeps the sign (phase) of '
                                'det. %s The result must be -array / (-det)**(1/n) there (determinant +1); dividing by |det|**(1/n) gives '
                                'determinant -1' % (' on a path that does not require det > 0 (guards: %s)' % (
                                    ' and '.join(ai.show(g) for g in p.conds[-1:])[:160]) if realbranch else '',
                                    '(-1)**n * ' if sign < 0 else '',
                                    'A real matrix of odd dimension with negative determinant reaches this return.' if realbranch
                                    else 'For a complex determinant det/|det| is a phase, not 1.'), where,
                                expected='array / det**(1/n) if det > 0; -array / (-det)**(1/n) if n odd and det < 0',
                                found=ai.show(p.value)[:120])
                    continue
            if sign > 0 and sigma > 0:
                if realbranch and not pos and not absolute and mentions_det:
                    r.undecided(construct, 'cannot tell from `%s` that the determinant is positive' % ' and '.join(ai.show(c) for c in conj if ai.mentions(c, det_t))[:120], where)
                elif realbranch and not pos and not absolute:
                    r.violation(construct, 'a real determinant is rescaled without checking det > 0: a negative determinant has no real '
                                'dimension-th root in even dimensions', where, expected='if det > 0')
                else:
                    r.ok(construct, 'det(result) = det / det = 1 (e = 1/dimension%s)' % (', det > 0' if realbranch else ''), where)
            elif sign < 0 and sigma < 0:
                r.check(odd and negd, construct, 'odd dimension and det < 0: det(-A/(-det)**(1/n)) = (-1)**n det/(-det) = 1',
                        'the sign flip -array/(-det)**e gives determinant 1 only for odd dimension and det < 0, but the branch is taken '
                        'under `%s`' % ' and '.join(ai.show(g) for g in p.conds[-2:]), where)
            else:
                r.violation(construct, 'sign mismatch: det(%sarray / (%sdet)**(1/n)) = %s1 %s' % (
                    '-' if sign < 0 else '', '-' if sigma < 0 else '', '-' if (sign < 0) != (sigma < 0) else '',
                    '(in odd dimension)' if sign < 0 else ''), where)

    # ---------------------------------------------------------------- normalize
    r = ctx.rule('D3.NORM', 'normalize rescales to a norm drawn from config[\'norm\']; SquareMatrices dispatches on determinant', floor=5)
    with r:
        ctor, cpaths = _paths(idx, ARR + '.__init__')
        norm_attr = None
        for p in cpaths:
            for loc_t, val in p.store.items():
                if loc_t[0] == 'attr' and loc_t[1] == ('self',) and val[0] == 'call' and val[1].split('.')[-1] == 'RealInterval':
                    arg = val[2][0] if len(val[2]) == 1 else None
                    if arg == ('cfg', 'norm'):
                        norm_attr = loc_t[2]
                        r.ok('ArraySamplingSet.__init__: self.%s' % loc_t[2], "RealInterval(config['norm'])", ctor.loc)
                    else:
                        r.violation('ArraySamplingSet.__init__: self.%s' % loc_t[2], 'the norm range is built from `%s` instead of '
                                    "config['norm']" % (ai.show(arg) if arg else ai.show(val)), ctor.loc, expected="config['norm']")
        if norm_attr is None and not r.obligations:
            r.violation('ArraySamplingSet.__init__', "no RealInterval is built from config['norm']: the declared norm range is ignored", ctor.loc)
        fi, paths = _paths(idx, ARR + '.normalize')
        base = _array_param(fi)
        rets = [p for p in paths if p.kind == 'ret']
        if len(paths) != 1 or len(rets) != 1:
            raise AnalysisError('ArraySamplingSet.normalize: expected one returning path')
        p = rets[0]
        actual = ('call', 'numpy.linalg.norm', (base,), ())
        desired = ('meth', ('attr', ('self',), norm_attr or 'norm'), 'gen_sample', (), ())
        v_t = rewrite(p.value, {actual: ('sym', 'actual_norm'), desired: ('sym', 'desired_norm')})
        where = lib.loc(fi, p.stmt)
        try:
            v = ai.AlgEval(base).ev(v_t)
            want = {('W', 0, 0, 0): Rat.sym('desired_norm') / Rat.sym('actual_norm')}
            good = v.is_matrix and v.equals(ai.AlgVal(matrix=want))
            r.check(good, 'ArraySamplingSet.normalize', 'array * desired_norm / actual_norm',
                    'the array is rescaled to %s: its norm becomes |%s| * actual_norm instead of the drawn desired norm' % (
                        v.text(), next(iter(v.matrix.values())).text() if v.is_matrix and v.matrix else '?'),
                    where, expected='(desired_norm/actual_norm)*W', found=v.text())
        except Unsupported as e:
            r.undecided('ArraySamplingSet.normalize', str(e), where)
        # dispatch in SquareMatrices.normalize
        fi, paths = _paths(idx, SM + '.normalize')
        base = _array_param(fi)
        sup = lambda arg: ('meth', ('call', 'super', (('ext', SM), ('self',)), ()), 'normalize', (arg,), ())    # noqa: E731
        spec = {1: ('meth', ('self',), 'make_det_one', (base,), ()),
                0: sup(('meth', ('self',), 'make_det_zero', (base,), ())),
                None: sup(base)}
        words = {1: 'make_det_one(array) without norm rescaling', 0: 'super().normalize(make_det_zero(array))', None: 'super().normalize(array)'}
        for det in (1, 0, None):
            p = _select(paths, {'determinant': det}, idx, fi)
            construct = 'SquareMatrices.normalize [determinant=%r]' % det
            where = lib.loc(fi, p.stmt)
            if p.kind != 'ret':
                r.violation(construct, 'no array is returned', where)
            elif p.value == spec[det] or (p.value[0] == 'meth' and p.value[2] == 'normalize' and p.value[1][0] == 'call'
                                         and p.value[1][1] == 'super' and p.value[3] == spec[det][3] and det != 1):
                r.ok(construct, words[det], where)
            else:
                r.violation(construct, 'determinant=%r returns `%s` instead of %s' % (det, ai.show(p.value), words[det]), where,
                            expected=words[det], found=ai.show(p.value))

    # ---------------------------------------------------------------- triangular
    r = ctx.rule('D3.TRI', "GeneralMatrices.apply_symmetry maps 'upper' to np.triu and 'lower' to np.tril", floor=3)
    with r:
        fi, paths = _paths(idx, M + 'GeneralMatrices.apply_symmetry')
        base = _array_param(fi)
        spec = {'upper': ('call', 'numpy.triu', (base,), ()), 'lower': ('call', 'numpy.tril', (base,), ()), None: base}
        for tri in ('upper', 'lower', None):
            p = _select(paths, {'triangular': tri}, idx, fi)
            construct = 'GeneralMatrices.apply_symmetry [triangular=%r]' % tri
            where = lib.loc(fi, p.stmt)
            if p.kind == 'ret':
                p = _with_value(p, ai.specialise(idx, fi, p.value, {'triangular': tri}))
            if p.kind != 'ret':
                r.violation(construct, 'no array is returned', where)
            elif p.value == spec[tri]:
                r.ok(construct, ai.show(p.value), where)
            elif p.value[0] == 'call' and p.value[1] in ('numpy.triu', 'numpy.tril') and p.value[2] == (base,) and not p.value[3]:
                r.violation(construct, "triangular=%r returns %s(array): the %s triangle is kept, so the sample is %s triangular" % (
                    tri, p.value[1].split('.')[-1], 'lower' if p.value[1].endswith('tril') else 'upper',
                    'lower' if p.value[1].endswith('tril') else 'upper'), where, expected=ai.show(spec[tri]), found=ai.show(p.value))
            elif p.value == base:
                r.violation(construct, 'triangular=%r returns the full array unchanged' % tri, where, expected=ai.show(spec[tri]))
            elif p.value[0] == 'call' and p.value[1] in ('numpy.triu', 'numpy.tril') and (len(p.value[2]) > 1 or p.value[3]):
                r.violation(construct, 'the triangle is taken with a diagonal offset (`%s`)' % ai.show(p.value), where, expected=ai.show(spec[tri]))
            else:
                r.undecided(construct, 'returned value `%s` not recognised' % ai.show(p.value), where)

    # ---------------------------------------------------------------- the raw draw and the wrappers
    r = ctx.rule('D3.DRAW', "arrays are drawn with config['shape'], get an imaginary part iff complex, then symmetry, then normalisation; "
                 'gen_sample wraps in MathArray', floor=5)
    with r:
        fi = _func(idx, ARR + '.generate_sample')
        loop, tr = _retry_parts(fi)
        flat = []
        for s in loop.body:
            flat.extend(list(tr.body) + list(tr.orelse) if s is tr else [s])
        try:
            paths = ai.sym_exec(idx, fi, stmts=flat)
        except Unsupported as e:
            raise AnalysisError('generate_sample: %s' % e)
        facts = ai.Facts().add(ai.SymFact('shape', ai.Interval(1, ai.INF), integer=True))
        paths = _fold_sentinel_tests(idx, fi, paths)
        items = _resolve_cached_flag(r, idx, fi, paths)
        for cx in (False, True):
            p = _select_items(items, {'complex': cx})
            construct = 'ArraySamplingSet.generate_sample [complex=%r]' % cx
            where = lib.loc(fi, p.stmt)
            if p.kind != 'ret':
                r.violation(construct, 'the attempt does not return the array', where)
                continue
            v = p.value
            inner = None
            if v[0] == 'meth' and v[1] == ('self',) and v[2] == 'normalize' and len(v[3]) == 1:
                a = v[3][0]
                if a[0] == 'meth' and a[1] == ('self',) and a[2] == 'apply_symmetry' and len(a[3]) == 1:
                    inner = a[3][0]
                elif a[0] != 'meth' and not (any(s_[0] == 'call' and s_[1] in ai.UNIFORM_01 for s_ in ai.subterms(a))
                                             and not any(s_[0] in ('meth', 'opaque') for s_ in ai.subterms(a))):
                    r.undecided(construct + ': pipeline', 'argument of normalize `%s` not recognised' % ai.show(a)[:80], where)
                    continue
                elif a[0] != 'meth':
                    r.violation(construct + ': pipeline', 'apply_symmetry is not applied before normalize: the requested symmetry / '
                                'tracelessness is never imposed', where, expected='normalize(apply_symmetry(array))', found=ai.show(v)[:100])
                    continue
            elif v[0] == 'meth' and v[1] == ('self',) and v[2] == 'apply_symmetry' and len(v[3]) == 1:
                a = v[3][0]
                if a[0] == 'meth' and a[2] == 'normalize':
                    r.violation(construct + ': pipeline', 'normalize runs before apply_symmetry: symmetrising / removing the trace afterwards '
                                'changes the norm (and the determinant), so the declared norm range is not met', where,
                                expected='normalize(apply_symmetry(array))', found='apply_symmetry(normalize(array))')
                else:
                    r.violation(construct + ': pipeline', 'normalize is not applied: norm range / determinant are not imposed', where,
                                expected='normalize(apply_symmetry(array))', found=ai.show(v)[:100])
                continue
            if inner is None:
                r.undecided(construct + ': pipeline', 'returned value `%s` not recognised' % ai.show(v)[:100], where)
                continue
            r.ok(construct + ': pipeline', 'normalize(apply_symmetry(array))', where)
            shapes = [s_[2][0] if s_[2] else dict(s_[3]).get('size') for s_ in ai.subterms(inner)
                      if s_[0] == 'call' and s_[1] in ai.UNIFORM_01]
            bad = [sh for sh in shapes if sh != ('cfg', 'shape')]
            if bad or not shapes:
                r.violation(construct + ': shape', 'an array is drawn with shape `%s` instead of config[\'shape\']' %
                            (ai.show(bad[0]) if bad and bad[0] else 'no shape'), where, expected="config['shape']")
                continue
            try:
                mv = ai.MagEval(facts).ev(inner)
            except Unsupported as e:
                r.undecided(construct + ': entries', str(e), where)
                continue
            want = 'complex' if cx else 'real'
            if mv.kind == want:
                r.ok(construct + ': entries', '%s entries, shape config[\'shape\'], %s' % (mv.kind, mv.text()), where)
            elif mv.kind == 'imag':
                r.violation(construct + ': entries', 'complex=%r yields purely imaginary entries' % cx, where)
            else:
                r.violation(construct + ': entries', 'complex=%r yields %s entries: the complex flag is %s' % (
                    cx, mv.kind, 'ignored' if not cx or mv.kind == 'real' else 'not respected'), where, expected=want, found=mv.kind)
        gs = _func(idx, ARR + '.gen_sample')
        try:
            gp = ai.sym_exec(idx, gs)
        except Unsupported as e:
            raise AnalysisError('gen_sample: %s' % e)
        for p in gp:
            where = lib.loc(gs, p.stmt or gs.node)
            gen = ('meth', ('self',), 'generate_sample', (), ())
            if p.kind == 'ret' and p.value[0] == 'call' and p.value[1].split('.')[-1] == 'MathArray' and p.value[2] == (gen,):
                r.ok('ArraySamplingSet.gen_sample', 'MathArray(self.generate_sample())', where)
            elif p.kind == 'ret' and p.value == gen:
                r.violation('ArraySamplingSet.gen_sample', 'the raw numpy array is returned without the MathArray wrapper: array samples '
                            'then follow numpy broadcasting instead of the strict shape rules', where, expected='MathArray(self.generate_sample())')
            else:
                r.undecided('ArraySamplingSet.gen_sample', 'returned value not recognised', where)

    r = ctx.rule('D3.SQUARE', 'square samplers use shape (dimension, dimension); identity multiples are scalar * eye(dimension)', floor=2)
    with r:
        fi, paths = _paths(idx, M + 'SquareMatrixSamplingSet.__init__')
        d = ('cfg', 'dimension')
        for p in paths:
            sh = p.store.get(('cfg', 'shape'))
            if sh is None:
                r.violation('SquareMatrixSamplingSet.__init__', "config['shape'] is not set from the dimension (it stays None)", fi.loc)
            else:
                r.check(sh == ('tuple', (d, d)), 'SquareMatrixSamplingSet.__init__', 'shape = (dimension, dimension)',
                        'shape is set to %s: the sampled matrix is not dimension x dimension' % ai.show(sh), fi.loc,
                        expected='(dimension, dimension)', found=ai.show(sh))
        _overwritten_options(r, idx)
        fi, paths = _paths(idx, M + 'IdentityMatrixMultiples.generate_sample')
        for p in paths:
            where = lib.loc(fi, p.stmt or fi.node)
            if p.kind != 'ret':
                r.violation('IdentityMatrixMultiples.generate_sample', 'no array returned', where)
                continue
            draw = ('meth', ('cfg', 'sampler'), 'gen_sample', (), ())
            val, casts = ai.specialise(idx, fi, p.value, {}), []
            while True:
                if val[0] == 'meth' and val[2] == 'astype' and len(val[3]) == 1:
                    casts.append(val[3][0])
                    val = val[1]
                elif val[0] == 'call' and val[1] in ('numpy.real', 'float', 'numpy.float64', 'numpy.abs') and len(val[2]) == 1:
                    casts.append(('ext', val[1]))
                    val = val[2][0]
                else:
                    break
            narrowing = [c for c in casts if c != ('ext', 'complex')]
            if narrowing and ai.mentions(val, draw):
                c = narrowing[0]
                why = ("for IdentityMatrixMultiples the option 'complex' is documented as ignored (default False) - the field is that of the "
                       "scalar sampler -" if ai.mentions(c, ('cfg', 'complex')) else 'this')
                r.violation('IdentityMatrixMultiples.generate_sample', 'the product of the drawn scalar and the identity is cast with `%s` before it '
                            'is returned: %s so a complex scalar drawn from a ComplexRectangle / ComplexSector sampler loses its imaginary part; '
                            'an identity multiple must be scalar * eye(dimension) with the scalar\'s own type' % (ai.show(c), why), where,
                            expected='scaling * np.eye(dimension)', found=ai.show(p.value)[:110])
                continue
            try:
                v = ai.AlgEval(('none',), field_flag=False).ev(rewrite(val, {draw: ('sym', 'scalar')}))
            except Unsupported as e:
                r.undecided('IdentityMatrixMultiples.generate_sample', str(e), where)
                continue
            want = ai.AlgVal(matrix={('I', Rat.sym('dimension')): Rat.sym('scalar')})
            r.check(v.is_matrix and v.equals(want), 'IdentityMatrixMultiples.generate_sample', 'sampler draw * eye(dimension)',
                    'the sample is %s instead of (one draw of the scalar sampler) * identity(dimension)' % v.text(), where,
                    expected='(scalar)*I_dimension', found=v.text())


def _overwritten_options(r, idx):
    """An array sampler must not accept an option that its constructor then replaces on every path by a value that does not
    depend on it (the author would declare a shape and get another one): such an option may only admit the neutral value None."""
    for ci in idx.family(ARR):
        init = ci.methods.get('__init__')
        if init is None:
            continue
        try:
            qs = [q for q in ai.sym_exec(idx, init) if q.kind == 'fall']
        except Unsupported:
            continue
        if not qs:
            continue
        keys = set.intersection(*[{k[1] for k in q.store if k[0] == 'cfg'} for q in qs])
        for key in sorted(keys):
            if any(ai.mentions(q.store[('cfg', key)], ('cfg', key)) for q in qs):
                continue
            stored = ai.show(qs[0].store[('cfg', key)])
            for sub in idx.family(ci.qualname):
                if idx.lookup(sub, '__init__') is not init and not any(
                        f is init for f in [idx.lookup_after(sub, x, '__init__') for x in sub.mro if x in idx.classes]):
                    continue
                try:
                    sd = ai.schema_dict(idx, sub)
                except Unsupported as e:
                    r.undecided('%s: option %r' % (sub.name, key), 'schema not readable: %s' % e, sub.loc)
                    continue
                if sd is None or key not in sd:
                    continue
                dflt, val, _m = sd[key]
                construct = "%s: option %r is replaced by %s.__init__" % (sub.name, key, ci.name)
                if isinstance(val, ast.Constant) and val.value is None:
                    r.ok(construct, 'the schema admits only None for it', sub.loc, nontrivial=(sub is ci))
                else:
                    r.violation(construct, "%s accepts a value for %r (validator `%s`, default %s) but %s.__init__ replaces it on every path by "
                                '`%s`: the author can declare e.g. %s=(3, 3) and still gets a %s sample, i.e. not the declared shape'
                                % (sub.name, key, short(val, 60), short(dflt, 20) if dflt is not None else 'none', ci.name, stored, key, stored),
                                sub.loc, expected="Required(%r, default=None): None" % key, found=short(val, 60))


def _sentinels(idx, module):
    """Module-level names bound once to `object()`: private marker objects, identical only to themselves."""
    out = set()
    for name, vals in module.assigns.items():
        if len(vals) == 1 and isinstance(vals[0], ast.Call) and isinstance(vals[0].func, ast.Name) and vals[0].func.id == 'object' \
                and not vals[0].args and not vals[0].keywords:
            out.add(('ext', module.name + '.' + name))
    return out


def _fold_sentinel_tests(idx, fi, paths):
    """On the success path of an attempt the array is the result of a method call, never the module's private marker object:
    `array is not MARKER` holds, `array is MARKER` does not."""
    marks = _sentinels(idx, fi.module)
    if not marks:
        return paths
    out = []
    for p in paths:
        keep, guards = True, []
        for g, n in p.guards:
            if g[0] == 'cmp' and g[1] in ('is', 'isnot') and (g[2] in marks or g[3] in marks):
                other = g[3] if g[2] in marks else g[2]
                if other[0] in ('meth', 'call') and other not in marks:
                    if g[1] == 'is':
                        keep = False
                    continue
            guards.append((g, n))
        if keep:
            out.append(ai.SPath(guards, p.kind, p.value, p.exc, p.stmt, p.store, p.env, p.effects, p.closures))
    return out


def _select_items(items, asg):
    res = []
    for conds, p in items:
        vals = [ai.enum_eval(g, asg) for g in conds]
        if any(v is not UNK and not v for v in vals):
            continue
        res.append((p, not any(v is UNK for v in vals)))
    if len(res) != 1 or not res[0][1]:
        raise AnalysisError('option values %s select %d paths of generate_sample' % (asg, len(res)))
    return res[0][0]


def _resolve_cached_flag(r, idx, fi, paths):
    """generate_sample may test a field cached by the constructor instead of config['complex'].  The cached field stands for
    the configuration value *at sampling time* only if no constructor of the family writes config['complex'] after the cache
    was filled (SquareMatrices forces complex=True for hermitian/antihermitian after the base constructor ran)."""
    cfg_c = ('cfg', 'complex')
    atoms = set()
    for p in paths:
        for g in p.conds:
            a = g[1] if g[0] == 'not' else g
            if a[0] == 'attr' and a[1] == ('self',):
                atoms.add(a)
    if not atoms:
        return [(p.conds, p) for p in paths]
    if len(atoms) > 1:
        raise AnalysisError('generate_sample branches on several cached fields: %s' % sorted(ai.show(a) for a in atoms))
    field = next(iter(atoms))
    X = field[2]
    ctor, cpaths = _paths(idx, ARR + '.__init__')
    vals = {p.store.get(field) for p in cpaths}
    if vals != {cfg_c}:
        raise AnalysisError("self.%s is tested in generate_sample but is not a copy of config['complex'] made by ArraySamplingSet.__init__" % X)
    stale = False
    for ci in idx.family(ARR):
        init = ci.methods.get('__init__')
        if init is None:
            continue
        try:
            qs = ai.sym_exec(idx, init)
        except Unsupported as e:
            raise AnalysisError('%s.__init__: %s' % (ci.name, e))
        for q in qs:
            if q.kind != 'fall':
                continue
            effs = [e for e, _ in q.effects]
            last_fill = max([i for i, e in enumerate(effs) if (e[0] == 'setcfg' and e[1] == field) or
                             (e[0] == 'opaque' and 'super(' in e[1] and '__init__' in e[1] and ci.qualname != ARR)] or [-1])
            writes = [i for i, e in enumerate(effs) if e[0] == 'setcfg' and e[1] == cfg_c and i > last_fill]
            if writes and last_fill >= 0:
                stale = True
                w = effs[writes[0]]
                r.violation('%s.__init__: config[\'complex\'] written after self.%s was cached' % (ci.name, X),
                            "generate_sample adds the imaginary part iff self.%s, a copy of config['complex'] taken by ArraySamplingSet.__init__; "
                            "%s.__init__ sets config['complex'] = %s afterwards (under `%s`), so at sampling time the cached flag is stale: "
                            'the imaginary part is never added although the sampler is declared complex (hermitian / antihermitian samples '
                            'come out real)' % (X, ci.name, ai.show(w[2]), ' and '.join(ai.show(c) for c in q.conds[:1]) or 'every configuration'),
                            lib.loc(init, q.effects[writes[0]][1]), expected="test self.config['complex'] when sampling (or refresh the cache)",
                            found='self.%s' % X)
                break
    if not stale:
        r.ok('ArraySamplingSet.generate_sample: cached flag self.%s' % X, "equals config['complex'] at sampling time (no later write)", ctor.loc)
    mapping = {field: cfg_c}
    return [([rewrite(g, mapping) for g in p.conds], p) for p in paths]


def _marker_handler(idx, fi, loop, tr, h):
    """except Retry: v = MARKER  followed in the loop body by exactly  `if v is not MARKER: return v`."""
    body = [s for s in h.body if not (isinstance(s, ast.Assign) and all(isinstance(t_, ast.Name) and t_.id.startswith('_sa_') for t_ in s.targets))]
    if len(body) != 1 or not (isinstance(body[0], ast.Assign) and len(body[0].targets) == 1 and isinstance(body[0].targets[0], ast.Name)
                              and isinstance(body[0].value, ast.Name)):
        return False
    v, marker = body[0].targets[0].id, body[0].value.id
    if ('ext', fi.module.name + '.' + marker) not in _sentinels(idx, fi.module):
        return False
    after = [s for s in loop.body[loop.body.index(tr) + 1:]
             if not (isinstance(s, ast.Assign) and all(isinstance(t_, ast.Name) and t_.id.startswith('_sa_') for t_ in s.targets))]
    if len(after) != 1 or not isinstance(after[0], ast.If) or after[0].orelse:
        return False
    ok_test = nf.match('%s is not %s' % (v, marker), after[0].test) is not None
    rets = after[0].body
    return ok_test and len(rets) == 1 and isinstance(rets[0], ast.Return) and isinstance(rets[0].value, ast.Name) and rets[0].value.id == v


def _retry_parts(fi):
    loops = [n for n in walk_own(fi.node) if isinstance(n, (ast.While, ast.For))]
    if len(loops) != 1:
        raise AnalysisError('generate_sample: expected exactly one loop, found %d' % len(loops))
    trys = [s for s in loops[0].body if isinstance(s, ast.Try)]
    if len(trys) != 1:
        raise AnalysisError('generate_sample: expected one try directly inside the loop')
    return loops[0], trys[0]


# ----------------------------------------------------------------------------- D4
DIMS = [2, 3, 4, 5]      # representatives of the dimension classes {2, odd, even > 2}; conditions may only use == 2 and % 2


def spec_rejects(sym, cx, tl, det, dim):
    """Fixed table (property statement / docstring 'special cases'): why a combination must be refused, or None."""
    cx = cx or sym in ('hermitian', 'antihermitian')
    if det == 0:
        if tl:
            return 'zero determinant + traceless cannot be generated'
        if sym == 'antisymmetric' and cx:
            return 'complex zero-determinant antisymmetric cannot be generated'
        if sym == 'antisymmetric' and dim % 2 == 0:
            return 'real zero-determinant antisymmetric in even dimension cannot be generated'
    if det == 1:
        if dim == 2 and tl:
            if sym == 'diagonal' and not cx:
                return 'no real traceless unit-determinant diagonal 2x2 matrix exists'
            if sym == 'symmetric' and not cx:
                return 'no real traceless unit-determinant symmetric 2x2 matrix exists'
            if sym == 'hermitian':
                return 'no traceless unit-determinant Hermitian 2x2 matrix exists'
        if dim % 2 == 1 and sym == 'antisymmetric':
            return 'no unit-determinant antisymmetric matrix exists in odd dimension'
        if dim % 2 == 1 and sym == 'antihermitian':
            return 'no unit-determinant antihermitian matrix exists in odd dimension'
    return None


def _dimension_uses_ok(paths):
    """Conditions may use config['dimension'] only as `% 2 == c` or `== 2` (so four representatives are exhaustive)."""
    d = ('cfg', 'dimension')
    for p in paths:
        for g in p.conds:
            for c in ai.t_conjuncts(g) if g[0] != 'or' else g[1]:
                for s in ai.subterms(c):
                    if s[0] == 'cmp' and ai.mentions(s, d) and not any(
                            x is not s and x[0] == 'cmp' and ai.mentions(x, d) for x in ai.subterms(s)):
                        ok = (s[1] in ('==', '!=') and {s[2], s[3]} & {('mod', d, ai.num(2))} and ({s[2], s[3]} & {ai.num(0), ai.num(1)})) \
                            or (s[1] in ('==', '!=') and d in (s[2], s[3]) and ai.num(2) in (s[2], s[3]))
                        if not ok:
                            return ai.show(s)
    return None


def d4_enum(ctx, idx):
    r_tab = ctx.rule('D4.TABLE', 'the SquareMatrices constructor refuses exactly the option combinations of the fixed table', floor=9)
    r_reach = ctx.rule('D4.REACH', "for every accepted combination make_det_one's assert holds, a branch applies and the final raise "
                       'is unreachable; hermitian/antihermitian force complex', floor=4)
    accepted = []
    with r_tab:
        fi, ctor = _paths(idx, SM + '.__init__', self_cls=idx.cls(SM))
        facts = ai.schema_facts(idx, idx.cls(SM), ['symmetry', 'traceless', 'determinant', 'complex', 'dimension'])
        doms = {}
        for k in ('symmetry', 'complex', 'traceless', 'determinant'):
            f = facts.syms.get(k)
            if f is None or f.enum is None:
                raise AnalysisError('option %s of SquareMatrices is not a finite enum in the schema' % k)
            doms[k] = list(f.enum)
        dimf = facts.syms.get('dimension')
        if dimf is None or not dimf.integer or dimf.interval.lo != 2:
            raise AnalysisError('dimension is not an integer >= 2 in the schema')
        bad_use = _dimension_uses_ok(ctor)
        if bad_use:
            raise AnalysisError('constructor tests the dimension by `%s`: four representatives are not exhaustive' % bad_use)
        seen_reasons = {}
        too_lax, too_strict, wrong_class, refused_ok = [], [], [], []
        total = 0
        for sym, cx, tl, det, dim in itertools.product(doms['symmetry'], doms['complex'], doms['traceless'], doms['determinant'], DIMS):
            asg = {'symmetry': sym, 'complex': cx, 'traceless': tl, 'determinant': det, 'dimension': dim}
            total += 1
            res = ai.enum_run(ctor, asg)
            if len(res) != 1 or not res[0][1]:
                raise AnalysisError('constructor outcome for %s is not determined by the options' % asg)
            p = res[0][0]
            why = spec_rejects(sym, cx, tl, det, dim)
            if p.kind == 'raise':
                if p.exc != 'ConfigError':
                    wrong_class.append((asg, p))
                if why is None:
                    too_strict.append((asg, p))
                else:
                    seen_reasons.setdefault(why, p)
                    refused_ok.append((asg, p))
            elif p.kind == 'fall':
                if why is not None:
                    too_lax.append((asg, why))
                else:
                    accepted.append((asg, ai.enum_store(p, asg), p))
            else:
                raise AnalysisError('constructor path ends in %s' % p.kind)

        def fmt(a):
            return ', '.join('%s=%r' % (k, a[k]) for k in ('symmetry', 'complex', 'traceless', 'determinant', 'dimension'))
        shown = set()
        for asg, why in too_lax:
            if why in shown:
                continue
            shown.add(why)
            n = sum(1 for a, w in too_lax if w == why)
            hint = ''
            lax_here = [a for a, w in too_lax if w == why]
            still = [a_ for (a_, q_) in refused_ok if spec_rejects(a_['symmetry'], a_['complex'], a_['traceless'], a_['determinant'], a_['dimension']) == why]
            keys_ = ('dimension', 'symmetry', 'complex', 'traceless', 'determinant')
            for key in keys_:
                twin = [a_ for a_ in still if a_[key] != asg[key] and all(a_[k_] == asg[k_] for k_ in keys_ if k_ != key)]
                if twin:
                    hint = ' (the same combination with %s=%r is still refused: the refusal now also depends on %s)' % (key, twin[0][key], key)
                    break
            r_tab.violation('SquareMatrices.__init__: %s' % why, 'the constructor accepts %s (%d of the enumerated combinations): %s, so '
                            'gen_sample cannot return a matrix with the requested properties (assertion error, endless retries ending in '
                            'ValueError, or a sample violating a constraint)%s' % (fmt(asg), n, why, hint), fi.loc, expected='ConfigError')
        for asg, p in wrong_class[:1]:
            r_tab.violation('SquareMatrices.__init__: error class', '%s is refused with %s instead of ConfigError' % (fmt(asg), p.exc),
                            lib.loc(fi, p.stmt), expected='ConfigError', found=p.exc)
        for asg, p in too_strict[:1]:
            r_tab.undecided('SquareMatrices.__init__: extra refusal', 'the constructor refuses %s (%d combinations) which the reviewed table '
                            'allows' % (fmt(asg), len(too_strict)), lib.loc(fi, p.stmt))
        for why, p in sorted(seen_reasons.items()):
            if why not in shown:
                r_tab.ok('SquareMatrices.__init__: %s' % why, 'refused with %s' % p.exc, lib.loc(fi, p.stmt))
        if not too_lax and not too_strict and not wrong_class:
            r_tab.ok('SquareMatrices.__init__: exhaustive table', '%d combinations (symmetry x complex x traceless x determinant x dimension '
                     'class): %d accepted, %d refused, identical to the table' % (total, len(accepted), total - len(accepted)), fi.loc)
        ctx.extra['c12_enum'] = {'combinations': total, 'accepted': len(accepted)}

    with r_reach:
        if not accepted:
            raise AnalysisError('no accepted combination to analyse')
        # hermitian / antihermitian  =>  complex
        bad = [(a, st) for a, st, p in accepted if a['symmetry'] in ('hermitian', 'antihermitian') and st.get('complex') is not True]
        if bad:
            a, st = bad[0]
            r_reach.violation('SquareMatrices.__init__: %s forces complex' % a['symmetry'], "symmetry=%r with complex=%r leaves config['complex'] "
                              '= %r: the draw is real, array %s conj(array.T) is then real %s, not a complex %s matrix'
                              % (a['symmetry'], a['complex'], st.get('complex'), '+' if a['symmetry'] == 'hermitian' else '-',
                                 'symmetric' if a['symmetry'] == 'hermitian' else 'antisymmetric', a['symmetry']), fi.loc,
                              expected="config['complex'] = True")
        for s in ('hermitian', 'antihermitian'):
            if not any(a['symmetry'] == s for a, _ in bad):
                n = sum(1 for a, st, p in accepted if a['symmetry'] == s)
                r_reach.ok('SquareMatrices.__init__: %s forces complex' % s, 'complex is True in all %d accepted combinations' % n, fi.loc)
        mfi, mdo = _paths(idx, SM + '.make_det_one')
        bad_use = _dimension_uses_ok(mdo)
        if bad_use:
            raise AnalysisError('make_det_one tests the dimension by `%s`' % bad_use)
        n_det1 = 0
        fails, dead_ends, no_branch = [], [], []
        for a, st, p in accepted:
            if st.get('determinant') != 1:
                continue
            n_det1 += 1
            res = ai.enum_run(mdo, st)
            kinds = [(q.kind, q.exc) for q, _ in res]
            if any(k == 'assertfail' for k, _ in kinds):
                fails.append(st)
            if any(k == 'raise' and e != 'Retry' for k, e in kinds):
                dead_ends.append((st, [e for k, e in kinds if k == 'raise' and e != 'Retry'][0]))
            if not any(k == 'ret' for k, _ in kinds):
                no_branch.append(st)

        def fmt(a):
            return ', '.join('%s=%r' % (k, a[k]) for k in ('symmetry', 'complex', 'traceless', 'determinant', 'dimension'))
        if fails:
            r_reach.violation('make_det_one: assert', 'an accepted configuration (%s; %d in total) reaches make_det_one and fails its assertion: '
                              'gen_sample dies with AssertionError' % (fmt(fails[0]), len(fails)), mfi.loc)
        else:
            r_reach.ok('make_det_one: assert', 'holds for all %d accepted unit-determinant combinations' % n_det1, mfi.loc)
        if dead_ends or no_branch:
            st = dead_ends[0][0] if dead_ends else no_branch[0]
            r_reach.violation('make_det_one: branches', 'an accepted configuration (%s; %d in total) matches neither the real-determinant nor the '
                              'complex branch: gen_sample raises %s instead of returning a unit-determinant matrix' % (
                                  fmt(st), len(dead_ends) or len(no_branch), dead_ends[0][1] if dead_ends else 'nothing usable'), mfi.loc)
        else:
            r_reach.ok('make_det_one: branches', 'every accepted unit-determinant combination has a rescaling branch; the final raise is unreachable',
                       mfi.loc)


# ----------------------------------------------------------------------------- D5
def d5_retry(ctx, idx):
    r = ctx.rule('D5.RETRY', 'the retry loop is bounded, retries only on Retry and raises when it gives up', floor=4)
    with r:
        fi = _func(idx, ARR + '.generate_sample')
        loop, tr = _retry_parts(fi)
        where = lib.loc(fi, loop)
        # bounded
        construct = 'ArraySamplingSet.generate_sample: loop bound'
        if isinstance(loop, ast.For):
            it = loop.iter
            ok = isinstance(it, ast.Call) and nf.callee_name(it) == 'range' and all(isinstance(a, ast.Constant) for a in it.args)
            r.check(ok, construct, 'for over a constant range', 'the loop iterates over `%s`, which is not a constant range' % short(it), where)
        else:
            t = nf.canon(loop.test)
            if isinstance(t, ast.Constant) and t.value:
                r.violation(construct, 'the loop condition is constantly true: when a draw can never satisfy the constraints the grader '
                            'hangs instead of raising', where, expected='while loops < 100')
            elif isinstance(t, ast.Compare) and isinstance(t.ops[0], (ast.Lt, ast.LtE)) and isinstance(t.left, ast.Name) \
                    and isinstance(t.comparators[0], ast.Constant) and isinstance(t.comparators[0].value, int):
                c = t.left.id
                incs = []
                from ..index import ancestors as _anc
                uncond = [n for n in ast.walk(loop) if isinstance(n, ast.stmt) and n is not loop and all(
                    (isinstance(a, ast.Try) and any(n is x or any(n is y for y in ast.walk(x)) for x in a.body)) or a is loop
                    for a in _anc(n) if isinstance(a, ast.stmt) and any(a is z for z in ast.walk(loop)))]
                for s in uncond:
                    if isinstance(s, ast.AugAssign) and isinstance(s.target, ast.Name) and s.target.id == c and isinstance(s.op, ast.Add) \
                            and isinstance(s.value, ast.Constant) and s.value.value > 0:
                        incs.append(s)
                    if isinstance(s, ast.Assign) and len(s.targets) == 1 and isinstance(s.targets[0], ast.Name) and s.targets[0].id == c \
                            and nf.match('%s + _K' % c, s.value) is not None:
                        incs.append(s)
                others = [n for n in walk_own(fi.node) if isinstance(n, (ast.Assign, ast.AugAssign)) and n not in incs and any(
                    isinstance(x, ast.Name) and x.id == c and isinstance(x.ctx, ast.Store) for x in ast.walk(n))]
                inits = [n for n in others if isinstance(n, ast.Assign) and isinstance(n.value, ast.Constant) and n not in ast.walk(loop)]
                inside = [n for n in others if any(n is x for x in ast.walk(loop))]
                cond_incs = [n for n in ast.walk(loop) if isinstance(n, (ast.AugAssign, ast.Assign)) and n not in incs and any(
                    isinstance(x, ast.Name) and x.id == c and isinstance(x.ctx, ast.Store) for x in ast.walk(n))]
                if not incs and cond_incs:
                    r.undecided(construct, 'the counter %s is only advanced conditionally' % c, where)
                elif not incs:
                    r.violation(construct, 'the counter %s is never advanced at the top level of the loop body: the bound %d is never reached '
                                'and impossible constraints make the grader hang' % (c, t.comparators[0].value), where, expected='%s += 1' % c)
                elif inside:
                    r.violation(construct, 'the counter %s is reset inside the loop' % c, lib.loc(fi, inside[0]))
                elif not inits:
                    r.undecided(construct, 'no constant initialisation of %s before the loop' % c, where)
                else:
                    r.ok(construct, '%s counts up to %d' % (c, t.comparators[0].value), where)
            else:
                r.undecided(construct, 'loop condition `%s` not recognised' % short(loop.test), where)
        # handler
        construct = 'ArraySamplingSet.generate_sample: except'
        names = [n for h in tr.handlers for n in lib.handler_class_names(h)]
        catch_all = [n for n in names if n in ('Exception', 'BaseException')]
        dispatch = None
        if catch_all:
            # a merged clause `except Exception as e: if isinstance(e, Retry): continue; raise` is the same handler
            h0 = next(h for h in tr.handlers if set(lib.handler_class_names(h)) & {'Exception', 'BaseException'})
            try:
                hp = ai.sym_exec(idx, fi, stmts=h0.body) if h0.name else []
            except Unsupported:
                hp = []

            def _retry_guard(q):
                return any(c[0] == 'call' and c[1] == 'isinstance' and len(c[2]) == 2 and c[2][0] == ('param', h0.name)
                           and c[2][1][0] == 'ext' and c[2][1][1].split('.')[-1] == 'Retry' for g in q.conds for c in ai.t_conjuncts(g))
            if hp and all(q.kind == 'raise' or (q.kind in ('continue', 'fall') and _retry_guard(q)) for q in hp) \
                    and any(q.kind != 'raise' for q in hp):
                dispatch = h0
        if dispatch is not None:
            r.ok(construct, 'catch-all clause that re-raises everything except Retry (isinstance dispatch)', lib.loc(fi, dispatch))
            r.ok(construct + ' body', 'draws again on Retry only', lib.loc(fi, dispatch))
        elif catch_all:
            r.violation(construct, 'the retry handler catches %s, i.e. everything: genuine failures (assertion, numerical or configuration '
                        'errors) are silently retried 100 times and end in an unrelated ValueError instead of surfacing' % catch_all[0],
                        lib.loc(fi, tr.handlers[0]), expected='except Retry', found='except ' + ', '.join(names))
        elif not tr.handlers or 'Retry' not in names:
            r.violation(construct, 'Retry is not caught: a draw that cannot be fixed up escapes as a non-library exception instead of being '
                        'redrawn', lib.loc(fi, tr), expected='except Retry: continue')
        else:
            extra = [n for n in names if n != 'Retry']
            if extra:
                r.undecided(construct, 'the retry handler also catches %s, which was not reviewed' % ', '.join(extra), lib.loc(fi, tr.handlers[0]))
            else:
                r.ok(construct, 'only Retry', lib.loc(fi, tr.handlers[0]))
        if dispatch is None and tr.handlers and ('Retry' in names or catch_all):
            for h in tr.handlers:
                if _marker_handler(idx, fi, loop, tr, h):
                    r.ok(construct + ' body', 'records the failure with a marker object; the code after the try returns only for a real array, so the '
                         'loop draws again', lib.loc(fi, h))
                    continue
                bad = [s for s in h.body if not isinstance(s, (ast.Continue, ast.Pass)) and not (isinstance(s, ast.Expr) and isinstance(s.value, (ast.Constant, ast.Call)))
                       and not (isinstance(s, ast.Assign) and all(isinstance(t_, ast.Name) and t_.id.startswith('_sa_') for t_ in s.targets))]
                if any(isinstance(s, (ast.Return, ast.Break)) for s in bad):
                    r.violation(construct + ' body', 'after a failed attempt the handler %s instead of drawing again: an array that does not '
                                'satisfy the constraints is returned' % ('returns' if isinstance(bad[0], ast.Return) else 'leaves the loop'),
                                lib.loc(fi, bad[0]), expected='continue')
                elif any(isinstance(s, ast.Raise) for s in bad):
                    r.violation(construct + ' body', 'the handler raises instead of drawing again', lib.loc(fi, bad[0]), expected='continue')
                elif bad:
                    r.undecided(construct + ' body', 'handler statement `%s` not recognised' % short(bad[0]), lib.loc(fi, bad[0]))
                else:
                    r.ok(construct + ' body', 'draws again', lib.loc(fi, h))
        # giving up raises
        cfg = cfg_of(fi.node)
        after = [s for s in fi.node.body if getattr(s, 'lineno', 0) > loop.end_lineno]
        construct = 'ArraySamplingSet.generate_sample: giving up'
        if not after:
            r.violation(construct, 'nothing follows the loop: after the last failed attempt None is returned as the sample', where,
                        expected='raise ValueError(...)')
        else:
            starts = cfg.nodes_of(after[0])
            r.check(bool(starts) and cfg.always_raises_from(starts), construct, 'raises after the last attempt',
                    'after the last failed attempt the function returns instead of raising: an unconstrained array (or None) is handed out',
                    lib.loc(fi, after[0]), expected='raise')


# ----------------------------------------------------------------------------- D3 (make_det_zero)
EIG_FUNCS = ('numpy.linalg.eigvals', 'numpy.linalg.eigvalsh')


def _cx_scalar(t):
    """(re, im) Rats over the symbol E of a scalar term built from E, real and imaginary constants."""
    k = t[0]
    zero = Rat.const(0)
    if t == ('sym', 'E'):
        return Rat.sym('E'), zero
    if k == 'num':
        return Rat.const(t[1]), zero
    if k == 'imag':
        return zero, Rat.const(t[1])
    if k == 'neg':
        a = _cx_scalar(t[1])
        return -a[0], -a[1]
    if k in ('add', 'sub'):
        a, b = _cx_scalar(t[1]), _cx_scalar(t[2])
        return (a[0] + b[0], a[1] + b[1]) if k == 'add' else (a[0] - b[0], a[1] - b[1])
    if k == 'mul':
        a, b = _cx_scalar(t[1]), _cx_scalar(t[2])
        return a[0] * b[0] - a[1] * b[1], a[0] * b[1] + a[1] * b[0]
    raise Unsupported('scalar `%s` is outside the eigenvalue model' % ai.show(t))


def d3_det_zero(ctx, idx):
    r = ctx.rule('D3.DET0', 'make_det_zero subtracts (an eigenvalue of the array) * identity(dimension), zeroes a diagonal entry of a '
                 'diagonal matrix, or keeps an already singular array', floor=6)
    with r:
        fi, paths = _paths(idx, SM + '.make_det_zero')
        base = _array_param(fi)
        det_t = ('call', 'numpy.linalg.det', (base,), ())
        dimt = ('cfg', 'dimension')
        for p in paths:
            where = lib.loc(fi, p.stmt or fi.node)
            guards = ' and '.join(ai.show(c) for c in p.conds[-2:])[:110]
            if p.kind == 'raise':
                if p.exc != 'Retry':
                    r.violation('make_det_zero: raise under %s' % guards, 'raises %s instead of Retry: the draw is not repeated' % p.exc, where)
                continue
            if p.kind != 'ret':
                r.violation('make_det_zero: %s' % guards, 'a path ends without returning the array', where)
                continue
            stores = [e for e, _ in p.effects if e[0] == 'store']
            small = any(c[0] == 'cmp' and c[1] == '<' and ai.mentions(c[2], det_t) and c[3][0] == 'num' for c in p.conds)
            if p.value == base and not stores:
                large = [c for c in p.conds if c[0] == 'cmp' and c[1] in ('<', '<=') and c[2][0] == 'num' and ai.mentions(c[3], det_t)
                         and not any(c2[0] == 'cmp' and c2[1] in ('<', '<=') and ai.mentions(c2[2], det_t) and c2[3][0] == 'num' for c2 in p.conds)]
                if small:
                    r.ok('make_det_zero: unchanged array', 'only when |det| is already below the threshold', where)
                elif large:
                    r.violation('make_det_zero: unchanged array', 'the array is returned unchanged under `%s`, i.e. exactly when its determinant '
                                'does NOT vanish: samples declared to have determinant 0 keep their random determinant' % ai.show(large[0]), where,
                                expected='return array only if |det| < threshold')
                elif any(ai.mentions(c, det_t) for c in p.conds):
                    r.undecided('make_det_zero: unchanged array', 'condition on the determinant `%s` not recognised' % guards, where)
                else:
                    r.violation('make_det_zero: unchanged array', 'the array is returned unchanged on a path that never looks at its determinant '
                                '(under %s)' % (guards or 'no condition'), where)
                continue
            if p.value == base and stores:
                construct = 'make_det_zero: diagonal entry'
                diag = any(c == ('cmp', '==', ('cfg', 'symmetry'), ('str', 'diagonal')) for c in p.conds)
                good = len(stores) == 1 and stores[0][1][0] == 'index' and stores[0][1][1] == base and stores[0][1][2][0] == 'tuple' \
                    and len(stores[0][1][2][1]) == 2 and stores[0][1][2][1][0] == stores[0][1][2][1][1] and stores[0][2] == ai.num(0)
                offdiag = len(stores) == 1 and stores[0][1][0] == 'index' and stores[0][1][1] == base and stores[0][1][2][0] == 'tuple' \
                    and len(stores[0][1][2][1]) == 2 and stores[0][1][2][1][0] != stores[0][1][2][1][1]
                if offdiag:
                    r.violation(construct, 'the entry `%s` that is zeroed is not on the diagonal: the determinant of a diagonal matrix vanishes '
                                'only if a diagonal entry does' % ai.show(stores[0][1]), where, expected='array[k, k] = 0')
                elif not good:
                    r.undecided(construct, 'store `%s` not recognised' % ai.show(stores[0][1]), where)
                elif not diag:
                    r.violation(construct, 'a diagonal entry is zeroed for a matrix that is not diagonal: its determinant does not vanish', where)
                else:
                    i = stores[0][1][2][1][0]
                    ok = i[0] == 'call' and i[1] == 'numpy.random.randint' and i[2] == (dimt,) and not i[3]
                    r.check(ok, construct, 'array[k, k] = 0 with k = randint(dimension)', 'the zeroed position `%s` is not a random diagonal index '
                            'below dimension' % ai.show(i), where, expected='randint(dimension)', found=ai.show(i))
                continue
            empties = [s_ for s_ in ai.subterms(ai.specialise(idx, fi, p.value, {})) if s_[0] == 'call' and s_[1] == 'numpy.random.randint' and len(s_[2]) == 1
                       and s_[2][0][0] == 'call' and s_[2][0][1] == 'len']
            conj = [c for g in p.conds for c in ai.t_conjuncts(g)]
            bad_empty = [e for e in empties if not any(c in (('cmp', '!=', e[2][0], ai.num(0)), ('cmp', '!=', ai.num(0), e[2][0]),
                                                             ('cmp', '<', ai.num(0), e[2][0]), ('cmp', '<=', ai.num(1), e[2][0])) for c in conj)]
            if bad_empty:
                e = bad_empty[0]
                reach = [c for c in conj if ai.mentions(c, e[2][0])]
                r.violation('make_det_zero: eigenvalue choice', 'an index is drawn with randint(%s) on a path %s: when no real eigenvalue exists the '
                            'candidate list is empty, randint(0) raises ValueError (low >= high) and gen_sample fails instead of drawing again '
                            '(a real matrix without real eigenvalues is a common draw, e.g. ~1/3 of 2x2 matrices)' % (
                                ai.show(e[2][0])[:60], ('taken under `%s`' % ai.show(reach[0])[:80]) if reach else 'that does not exclude an empty list'),
                            where, expected='if len(idxs) == 0: raise Retry()')
                continue
            # array - eye(dimension) * lambda
            construct = 'make_det_zero: shift under %s' % guards
            v = ai.specialise(idx, fi, p.value, {})
            if v[0] in ('sub', 'add') and v[2][0] == 'meth' and v[2][2] == 'astype' and len(v[2][3]) == 1 and v[2][3][0] in ai.FIELD_CASTS:
                v = (v[0], v[1], v[2][1])          # cast by the sampler's own complex flag: the working array already has that field
            if v[0] not in ('sub', 'add') or v[1] != base or v[2][0] != 'mul':
                r.undecided(construct, 'value `%s` is not array -/+ eye * eigenvalue' % ai.show(v)[:90], where)
                continue
            f1, f2 = v[2][1], v[2][2]
            eye, lam = (f1, f2) if f1[0] == 'call' and f1[1] in ('numpy.eye', 'numpy.identity') else (f2, f1)
            if not (eye[0] == 'call' and eye[1] in ('numpy.eye', 'numpy.identity')):
                r.undecided(construct, 'no identity matrix in `%s`' % ai.show(v)[:90], where)
                continue
            if eye[2] != (dimt,):
                r.violation(construct, 'the identity has size %s instead of dimension' % ai.show(eye[2][0]), where)
                continue
            eigs = [s for s in ai.subterms(lam) if s[0] == 'index' and s[1][0] == 'call' and s[1][1] in EIG_FUNCS]
            if len({e for e in eigs}) != 1:
                r.violation(construct, 'the subtracted multiple `%s` is not an eigenvalue of the array: det(array - c*I) vanishes only for '
                            'eigenvalues c' % ai.show(lam)[:80], where) if not eigs else r.undecided(construct, 'several eigenvalue picks', where)
                continue
            e = eigs[0]
            X = e[1][2][0] if len(e[1][2]) == 1 else None
            if X == base:
                c = (Rat.const(1), Rat.const(0))
            elif X is not None and X[0] == 'mul' and base in (X[1], X[2]):
                try:
                    c = _cx_scalar(X[2] if X[1] == base else X[1])
                except Unsupported as ex:
                    r.undecided(construct, str(ex), where)
                    continue
            else:
                r.violation(construct, 'eigenvalues are taken of `%s`, not of the array' % (ai.show(X) if X else '?'), where)
                continue
            lam2 = rewrite(lam, {e: ('sym', 'E')})
            lam2 = rewrite(lam2, {('call', 'numpy.real', (('sym', 'E'),), ()): ('sym', 'E')})
            try:
                k = _cx_scalar(lam2)
            except Unsupported as ex:
                r.undecided(construct, str(ex), where)
                continue
            # option combinations that reach this return: eigvalsh needs a Hermitian argument, a real sampler needs a real eigenvalue
            solver = e[1][1].split('.')[-1]
            real_wrapped = ai.mentions(lam, ('call', 'numpy.real', (e,), ()))
            combos_bad = []
            for sym_ in SYMMETRIES:
                for cx_ in (False, True):
                    cxe = cx_ or sym_ in ('hermitian', 'antihermitian')
                    asg_ = {'symmetry': sym_, 'complex': cxe}
                    vals_ = [ai.enum_eval(g, asg_) for g in p.conds]
                    if any(v_ is not UNK and not v_ for v_ in vals_):
                        continue
                    if solver == 'eigvalsh':
                        herm = (X == base and (sym_ == 'hermitian' or (sym_ in ('symmetric', 'diagonal') and not cxe))) or \
                               (X != base and sym_ == 'antihermitian')
                        if not herm:
                            combos_bad.append(('eigvalsh', sym_, cxe))
                    if not cxe and not real_wrapped and sym_ != 'diagonal':
                        combos_bad.append(('complex-eigenvalue', sym_, cxe))
            if combos_bad:
                kind_, sym_, cxe = combos_bad[0]
                if kind_ == 'eigvalsh':
                    r.violation(construct, 'np.linalg.eigvalsh (valid for Hermitian arguments only) is applied to `%s` for symmetry=%r, complex=%r: '
                                'its result is not an eigenvalue of that array, so array - lambda*I does not have determinant 0'
                                % (ai.show(X)[:40], sym_, cxe), where, expected='eigvalsh only for real symmetric / hermitian (or 1j*antihermitian)')
                else:
                    r.violation(construct, 'for the real sampler symmetry=%r, complex=False an arbitrary (generally complex) eigenvalue is '
                                'subtracted: the sample becomes complex although it is declared real' % sym_, where,
                                expected='a real eigenvalue (np.real of one whose imaginary part vanishes)')
                continue
            E = Rat.sym('E')
            # lambda = kappa * E with kappa * c == 1 (eigenvalues of c*A are c times those of A)
            kre, kim = k[0] / E if not k[0].is_zero() else Rat.const(0), k[1] / E if not k[1].is_zero() else Rat.const(0)
            if not (kre.is_const() and kim.is_const()):
                r.undecided(construct, 'eigenvalue expression is not linear', where)
                continue
            pre, pim = kre * c[0] - kim * c[1], kre * c[1] + kim * c[0]
            if v[0] == 'add':
                pre, pim = -pre, -pim
            if pre == Rat.const(1) and pim.is_zero():
                r.ok(construct, 'array - lambda*I with lambda an eigenvalue of the array (%s)' % e[1][1].split('.')[-1], where)
            else:
                f = pre.text() if pim.is_zero() else '%s + (%s)i' % (pre.text(), pim.text())
                r.violation(construct, 'the result is array - (%s)*lambda*I with lambda an eigenvalue of the array; only the factor 1 makes '
                            'det(array - lambda*I) vanish, so the sample does not have determinant 0' % f,
                            where, expected='array - eigenvalue * eye(dimension)', found=ai.show(v)[:100])
