"""Private helpers shared by c05.py / c06.py / c07.py (list graders and the assignment solver)."""
import ast

from ..index import AnalysisError, walk_own, walk_all, unparse, short, parent, ancestors, enclosing_stmt
from ..cfg import cfg_of
from ..effects import FunctionEffects
from .. import nf, lib

MUNKRES = 'mitxgraders.helpers.munkres.Munkres'
MUNKRES_MOD = 'mitxgraders.helpers.munkres'
LG_MOD = 'mitxgraders.listgrader'
UNKNOWN = '<unknown>'


# ----------------------------------------------------------------------- small queries
def is_name(node, name=None):
    return isinstance(node, ast.Name) and (name is None or node.id == name)


def is_self_attr(node, selfn, attr=None):
    return (isinstance(node, ast.Attribute) and isinstance(node.value, ast.Name) and node.value.id == selfn
            and (attr is None or node.attr == attr))


def sub_key(node):
    """'k' for X['k'] (constant string subscript), else None."""
    if isinstance(node, ast.Subscript) and isinstance(node.slice, ast.Constant):
        return node.slice.value
    return None


def guards_of(node, stop=None):
    """Canonical guard expressions (enclosing if/elif/else and conditional expressions) under which node runs."""
    out = []
    child = node
    for a in ancestors(node):
        if isinstance(a, ast.If):
            if any(child is s for s in a.body):
                out.append(nf.canon(a.test))
            elif any(child is s for s in a.orelse):
                out.append(nf.negate(nf.canon(a.test)))
        elif isinstance(a, ast.IfExp):
            if child is a.body:
                out.append(nf.canon(a.test))
            elif child is a.orelse:
                out.append(nf.negate(nf.canon(a.test)))
        if a is stop or isinstance(a, (ast.FunctionDef, ast.Lambda)):
            break
        child = a
    flat = []
    for g in reversed(out):
        flat.extend(nf.conjuncts(g))
    return flat


def single_def(fi, name):
    """The value of the only plain `name = value` assignment of a local (AnalysisError otherwise)."""
    vals = lib.assigned_value(fi.node, name)
    if len(vals) != 1:
        raise AnalysisError('%s: expected exactly one assignment of local `%s`, found %d' % (fi.qualname, name, len(vals)))
    return vals[0]


def deref(fi, expr, depth=4):
    """Follow plain local names that have exactly one plain assignment (and no other binding) to their value."""
    env = lib.local_env(fi.node)
    cur = expr
    for _ in range(depth):
        if isinstance(cur, ast.Name) and cur.id in env:
            cur = env[cur.id]
        else:
            break
    return cur


def comp_bindings(comp):
    """[(target, iter)] of a comprehension, outermost generator first."""
    return [(g.target, g.iter) for g in comp.generators]


def target_pos(target, name):
    """Index of Name `name` inside a tuple target (or 0 when the target is that very name); None if absent."""
    if isinstance(target, ast.Name):
        return 0 if target.id == name else None
    if isinstance(target, (ast.Tuple, ast.List)):
        for k, e in enumerate(target.elts):
            if isinstance(e, ast.Name) and e.id == name:
                return k
    return None


def strip_list_call(expr):
    """list(x) / tuple(x) -> x (order-preserving wrappers)."""
    while isinstance(expr, ast.Call) and isinstance(expr.func, ast.Name) and expr.func.id in ('list', 'tuple') \
            and len(expr.args) == 1 and not expr.keywords:
        expr = expr.args[0]
    return expr


def is_call_to(expr, name, nargs=None):
    return isinstance(expr, ast.Call) and nf.callee_name(expr) == name and (nargs is None or len(expr.args) == nargs)


# ---------------------------------------------------- in-place mutation of parameters
def param_mutations(fi, idx, params=None):
    """Mutations (engine E5 plus in-place `name op= ...` on an alias of a parameter) that hit a parameter.

    Returns [(node, description, param)].  `x += [..]` on a list extends it in place; the engine only
    recognises that when the right-hand side is a display, so the AugAssign case is handled here for
    names whose origins include a parameter and whose right-hand side builds a list.
    """
    fx = FunctionEffects(fi, idx)
    wanted = set(params if params is not None else fi.all_params)
    wanted.discard(fx.self_name)
    out = []
    for m in fx.direct_mutations():
        for o in m.origins:
            if o[0] == 'param' and o[1] in wanted:
                out.append((m.node, '%s on `%s`' % (m.how, short(m.target, 40)), o[1]))
    for n in walk_own(fi.node):
        if isinstance(n, ast.AugAssign) and isinstance(n.target, ast.Name) and isinstance(n.op, (ast.Add, ast.Mult)) \
                and builds_list(n.value):
            for o in fx.origins(n.target):
                if o[0] == 'param' and o[1] in wanted:
                    item = (n, 'in-place `%s`' % short(n, 60), o[1])
                    if not any(x[0] is n for x in out):
                        out.append(item)
    return out, fx


def builds_list(expr):
    if isinstance(expr, (ast.List, ast.ListComp)):
        return True
    if isinstance(expr, ast.BinOp) and isinstance(expr.op, (ast.Mult, ast.Add)):
        return builds_list(expr.left) or builds_list(expr.right)
    if isinstance(expr, ast.Call) and isinstance(expr.func, ast.Name) and expr.func.id == 'list':
        return True
    return False


# ------------------------------------------- constant propagation over the CFG (ENUM)
def const_returns(fn):
    """Set of values a function may return, by constant propagation over its CFG.

    Tracked variables are the locals that are only ever bound by `name = <constant>`; tests of the
    form `v`, `not v`, `v <op> const` on tracked variables with a known value follow only the feasible
    edge.  Returns a set of python constants, possibly containing UNKNOWN.
    """
    cfg = cfg_of(fn)
    consts, other = {}, set()
    for n in walk_own(fn):
        if isinstance(n, ast.Assign) and len(n.targets) == 1 and isinstance(n.targets[0], ast.Name) \
                and isinstance(n.value, ast.Constant):
            consts.setdefault(n.targets[0].id, set()).add(n.value.value)
        elif isinstance(n, ast.Name) and isinstance(n.ctx, (ast.Store, ast.Del)):
            p = parent(n)
            if not (isinstance(p, ast.Assign) and len(p.targets) == 1 and p.targets[0] is n and isinstance(p.value, ast.Constant)):
                other.add(n.id)
    tracked = sorted(set(consts) - other)
    top = ('<top>',)

    def ev(expr, st):
        if isinstance(expr, ast.Constant):
            return expr.value
        if isinstance(expr, ast.Name) and expr.id in st:
            return st[expr.id]
        if isinstance(expr, ast.UnaryOp) and isinstance(expr.op, ast.Not):
            v = ev(expr.operand, st)
            return top if v is top else (not v)
        if isinstance(expr, ast.Compare) and len(expr.ops) == 1:
            a, b = ev(expr.left, st), ev(expr.comparators[0], st)
            if a is top or b is top:
                return top
            try:
                op = expr.ops[0]
                return {ast.Eq: a == b, ast.NotEq: a != b, ast.Is: a is b, ast.IsNot: a is not b}.get(type(op)) \
                    if isinstance(op, (ast.Eq, ast.NotEq, ast.Is, ast.IsNot)) else \
                    {ast.Lt: a < b, ast.LtE: a <= b, ast.Gt: a > b, ast.GtE: a >= b}[type(op)]
            except Exception:
                return top
        return top

    results = set()
    start = tuple((v, top) for v in tracked)
    seen = set()
    work = [(cfg.entry, start)]
    while work:
        node, st_t = work.pop()
        key = (node.idx, st_t)
        if key in seen:
            continue
        seen.add(key)
        if len(seen) > 20000:
            raise AnalysisError('constant propagation did not converge')
        st = dict(st_t)
        feasible = None
        if node.kind == 'stmt':
            s = node.ast
            if isinstance(s, ast.Assign) and len(s.targets) == 1 and isinstance(s.targets[0], ast.Name) \
                    and s.targets[0].id in st and isinstance(s.value, ast.Constant):
                st[s.targets[0].id] = s.value.value
            elif isinstance(s, ast.Return):
                def ret_values(e):
                    if isinstance(e, ast.Subscript) and not isinstance(e.slice, ast.Slice):
                        d = e.value
                        if isinstance(d, ast.Name):
                            cands = [a.value for a in walk_own(fn) if isinstance(a, ast.Assign) and len(a.targets) == 1
                                     and is_name(a.targets[0], d.id)]
                            d = cands[0] if len(cands) == 1 else d
                        if isinstance(d, ast.Dict) and d.keys and all(isinstance(k, ast.Constant) for k in d.keys):
                            out_ = set()
                            for v in d.values:
                                out_ |= ret_values(v)
                            return out_
                    if isinstance(e, ast.IfExp):
                        t = ev(e.test, st)
                        if t is top:
                            return ret_values(e.body) | ret_values(e.orelse)
                        return ret_values(e.body if t else e.orelse)
                    v = ev(e, st) if e is not None else None
                    return {UNKNOWN if v is top else v}
                results |= ret_values(s.value)
        elif node.kind == 'test':
            v = ev(node.ast.test, st)
            if v is not top:
                feasible = 'true' if v else 'false'
        nxt = tuple(sorted(st.items(), key=lambda kv: kv[0]))
        for t, lab in node.succs:
            if feasible is not None and lab in ('true', 'false') and lab != feasible:
                continue
            if lab == 'exc':
                continue
            if t is cfg.exit_return and not (node.kind == 'stmt' and isinstance(node.ast, ast.Return)):
                results.add(None)       # falling off the end returns None
            work.append((t, nxt))
    return results


# ----------------------------------------------- result extraction of Munkres.compute
class Extraction(object):
    """Facts about the loop nest at the end of Munkres.compute that turns starred zeros into (row, col) pairs."""
    pass



def _row_star_extraction(fi, selfn):
    """Layout 3: `stars = ((i, self.__find_star_in_row(i)) for i in range(R))`; `return [(i, j) for (i, j) in stars if j < W]`."""
    rets = lib.returns_of(fi.node)
    if len(rets) != 1:
        return None
    out = deref(fi, rets[0].value)
    if not (isinstance(out, (ast.ListComp,)) and len(out.generators) == 1):
        return None
    g = out.generators[0]
    src = deref(fi, g.iter) if isinstance(g.iter, ast.Name) else g.iter
    if not (isinstance(src, (ast.GeneratorExp, ast.ListComp)) and len(src.generators) == 1 and not src.generators[0].ifs
            and isinstance(src.elt, ast.Tuple) and len(src.elt.elts) == 2 and isinstance(src.generators[0].target, ast.Name)
            and is_call_to(src.generators[0].iter, 'range', 1)):
        return None
    iv = src.generators[0].target.id
    first, second = src.elt.elts
    if not (is_name(first, iv) and isinstance(second, ast.Call) and is_self_attr(second.func, selfn) and len(second.args) == 1
            and is_name(second.args[0], iv)):
        return None
    if not (isinstance(g.target, ast.Tuple) and len(g.target.elts) == 2 and all(isinstance(t, ast.Name) for t in g.target.elts)):
        return None
    a, b = g.target.elts[0].id, g.target.elts[1].id
    ex = Extraction()
    ex.layout = 'row-star'
    ex.fi, ex.selfn = fi, selfn
    ex.collection = out
    ex.row_bound = src.generators[0].iter.args[0]
    ex.finder = second.func.attr
    ex.col_filter, ex.col_bound, ex.col_op = None, None, None
    conds = [x for c in g.ifs for x in nf.conjuncts(nf.canon(c))]
    extra = []
    for c in conds:
        if isinstance(c, ast.Compare) and len(c.ops) == 1 and is_name(c.left, b) and isinstance(c.ops[0], (ast.Lt, ast.LtE)):
            ex.col_filter, ex.col_bound, ex.col_op = c, c.comparators[0], '<' if isinstance(c.ops[0], ast.Lt) else '<='
        elif nf.match('%s is not None' % b, c) is not None or nf.match('0 <= %s' % b, c) is not None:
            pass        # "a star was found" -- always true for the solved matrix
        else:
            extra.append(c)
    ex.extra = extra
    ex.pair = out.elt
    ex.pair_order = None
    if isinstance(out.elt, ast.Tuple) and len(out.elt.elts) == 2:
        if is_name(out.elt.elts[0], a) and is_name(out.elt.elts[1], b):
            ex.pair_order = 'row-col'
        elif is_name(out.elt.elts[0], b) and is_name(out.elt.elts[1], a):
            ex.pair_order = 'col-row'
    ex.emit_kind, ex.emit_node = 'append', out
    ex.nest = [(a, src.generators[0].iter, out)]
    ex.loops = {a: (src.generators[0].iter, out)}
    ex.for_loops = []
    ex.sink = None
    ex.returns = rets
    ex.bad_returns = []
    ex.test = out
    return ex



def _generator_extraction(idx, comp, selfn):
    """Layout 4: compute returns `list(self.G())` (or a comprehension over it) where G is a generator method that scans the
    cells with nested loops and yields the pair under `if self.marked[i][j] == 1`."""
    rets = lib.returns_of(comp.node)
    if len(rets) != 1:
        return None
    v = deref(comp, rets[0].value)
    call = v.args[0] if is_call_to(v, 'list', 1) or is_call_to(v, 'tuple', 1) else v
    if not (isinstance(call, ast.Call) and is_self_attr(call.func, selfn) and not call.args):
        return None
    ci = idx.cls(MUNKRES)
    g = ci.methods.get(call.func.attr)
    if g is None or not any(isinstance(n, (ast.Yield, ast.YieldFrom)) for n in walk_own(g.node)):
        return None
    S = g.params[0]
    tests = [n for n in walk_own(g.node) if isinstance(n, ast.Compare) and len(n.ops) == 1 and isinstance(n.left, ast.Subscript)
             and isinstance(n.left.value, ast.Subscript) and is_self_attr(n.left.value.value, S, 'marked')]
    yields = [n for n in walk_own(g.node) if isinstance(n, ast.Yield)]
    if len(tests) != 1 or len(yields) != 1 or not (isinstance(yields[0].value, ast.Tuple) and len(yields[0].value.elts) == 2
                                                   and all(isinstance(e, ast.Name) for e in yields[0].value.elts)):
        return None
    ex = Extraction()
    ex.layout = 'cells'
    ex.fi, ex.selfn, ex.test = g, S, tests[0]
    ex.row_idx, ex.col_idx = tests[0].left.value.slice, tests[0].left.slice
    if not (is_name(ex.row_idx) and is_name(ex.col_idx)):
        return None
    ex.nest, ex.loops, ex.for_loops = [], {}, []
    order = [a for a in ancestors(tests[0]) if isinstance(a, ast.For) and isinstance(a.target, ast.Name)]
    for lp in reversed(order):
        ex.nest.append((lp.target.id, lp.iter, lp))
        ex.loops[lp.target.id] = (lp.iter, lp)
        ex.for_loops.append(lp)
    t = nf.canon(tests[0])
    st = enclosing_stmt(yields[0])
    if not any(x is tests[0] for x in (n for a in ancestors(yields[0]) if isinstance(a, ast.If) for n in ast.walk(a.test))):
        return None
    ex.extra = [x for x in guards_of(st, stop=g.node) if not nf.equal(x, t)]
    ex.pair = yields[0].value
    ex.emit_node, ex.emit_kind, ex.sink = st, 'append', None        # a generator yields in iteration order
    ex.collection = None
    ex.returns, ex.bad_returns = rets, []
    ex.field_owner = comp          # original_length / original_width are assigned in compute
    return ex


def extraction_facts(idx):
    """Facts about the code at the end of Munkres.compute that turns starred zeros into (row, col) pairs.

    Two equivalent layouts are understood: nested for-loops that append a pair under `if self.marked[i][j] == 1`,
    and a comprehension `[(i, j) for i in ... for j in ... if self.marked[i][j] == 1]`.
    Fields: row_idx/col_idx (Name nodes), test, nest [(var, iter, node)] outermost first, loops {var: (iter, node)},
    pair (Tuple), emit_kind 'append'|'prepend'|None, emit_node, extra (other conditions), for_loops, returns_collection.
    """
    fi = idx.func(MUNKRES + '.compute')
    selfn = fi.params[0]
    tests = []
    for n in walk_all(fi.node):
        if isinstance(n, ast.Compare) and len(n.ops) == 1 and isinstance(n.left, ast.Subscript) \
                and isinstance(n.left.value, ast.Subscript) and is_self_attr(n.left.value.value, selfn, 'marked'):
            tests.append(n)
    if not tests:
        alt = _row_star_extraction(fi, selfn)
        if alt is not None:
            return alt
        gen_ex = _generator_extraction(idx, fi, selfn)
        if gen_ex is not None:
            return gen_ex
    if len(tests) != 1:
        raise AnalysisError('Munkres.compute: expected one test of self.marked[i][j], found %d' % len(tests))
    ex = Extraction()
    ex.layout = 'cells'
    ex.fi, ex.selfn, ex.test = fi, selfn, tests[0]
    ex.row_idx, ex.col_idx = tests[0].left.value.slice, tests[0].left.slice
    if not (is_name(ex.row_idx) and is_name(ex.col_idx)):
        raise AnalysisError('Munkres.compute: marked[..][..] is not indexed by plain loop variables')
    comp = None
    for a in ancestors(tests[0]):
        if isinstance(a, (ast.ListComp, ast.GeneratorExp)):
            comp = a
            break
        if isinstance(a, ast.stmt):
            break
    ex.nest, ex.loops, ex.for_loops, ex.extra = [], {}, [], []
    ex.sink, ex.emit_kind, ex.emit_node = None, None, None
    t = nf.canon(tests[0])
    if comp is not None:
        conds = [c for g in comp.generators for c in g.ifs]
        flat = [x for c in conds for x in nf.conjuncts(nf.canon(c))]
        if not any(nf.equal(x, t) for x in flat):
            raise AnalysisError('Munkres.compute: the marked test is not a filter of the comprehension')
        ex.extra = [x for x in flat if not nf.equal(x, t)]
        for g in comp.generators:
            if not isinstance(g.target, ast.Name):
                raise AnalysisError('Munkres.compute: comprehension target is not a name')
            ex.nest.append((g.target.id, g.iter, comp))
            ex.loops[g.target.id] = (g.iter, comp)
        if not (isinstance(comp.elt, ast.Tuple) and len(comp.elt.elts) == 2 and all(isinstance(e, ast.Name) for e in comp.elt.elts)):
            raise AnalysisError('Munkres.compute: comprehension element is not a pair of names')
        ex.pair, ex.emit_kind, ex.emit_node = comp.elt, 'append', comp
        ex.collection = comp
    else:
        order = []
        for a in ancestors(tests[0]):
            if isinstance(a, ast.For) and isinstance(a.target, ast.Name):
                order.append(a)
            if a is fi.node:
                break
        for lp in reversed(order):
            ex.nest.append((lp.target.id, lp.iter, lp))
            ex.loops[lp.target.id] = (lp.iter, lp)
            ex.for_loops.append(lp)
        ifs = [a for a in ancestors(tests[0]) if isinstance(a, ast.If)]
        if not ifs or not any(x is tests[0] for x in ast.walk(ifs[0].test)):
            raise AnalysisError('Munkres.compute: the marked test does not guard an if')
        guard_if = ifs[0]
        pairs = [n for s in guard_if.body for n in ast.walk(s) if isinstance(n, ast.Tuple) and len(n.elts) == 2
                 and all(isinstance(e, ast.Name) for e in n.elts) and isinstance(n.ctx, ast.Load)]
        if len(pairs) != 1:
            raise AnalysisError('Munkres.compute: expected one emitted (row, col) pair, found %d' % len(pairs))
        ex.pair = pairs[0]
        st = enclosing_stmt(ex.pair)
        ex.emit_node = st
        ex.extra = [g for g in guards_of(st, stop=fi.node) if not nf.equal(g, t)]
        if isinstance(st, ast.AugAssign) and isinstance(st.target, ast.Name) and isinstance(st.op, ast.Add):
            ex.sink, ex.emit_kind = st.target.id, 'append'
        elif isinstance(st, ast.Assign) and len(st.targets) == 1 and isinstance(st.targets[0], ast.Name) \
                and isinstance(st.value, ast.BinOp) and isinstance(st.value.op, ast.Add):
            ex.sink = st.targets[0].id
            if is_name(st.value.left, ex.sink):
                ex.emit_kind = 'append'
            elif is_name(st.value.right, ex.sink):
                ex.emit_kind = 'prepend'
        elif isinstance(st, ast.Expr) and isinstance(st.value, ast.Call) and isinstance(st.value.func, ast.Attribute) \
                and isinstance(st.value.func.value, ast.Name):
            ex.sink = st.value.func.value.id
            ex.emit_kind = {'append': 'append', 'insert': 'prepend'}.get(st.value.func.attr)
        ex.collection = None
    ex.returns = lib.returns_of(fi.node)
    ex.bad_returns = []
    for ret in ex.returns:
        v = ret.value
        good = (ex.collection is not None and (v is ex.collection or deref(fi, v) is ex.collection)) or \
            (ex.collection is None and ex.sink is not None and is_name(v, ex.sink))
        if not good:
            ex.bad_returns.append(ret)
    return ex


# ----------------------------------------------------------- reaching definitions (CFG)
def _binds(stmt_node, name):
    """Does this CFG node (re)bind local `name`?  Returns the Assign value, or True for other bindings, or None."""
    s = stmt_node.ast
    if stmt_node.kind == 'stmt':
        if isinstance(s, ast.Assign):
            for t in s.targets:
                if is_name(t, name):
                    return s.value
                if any(is_name(x, name) for x in ast.walk(t) if isinstance(x, ast.Name) and isinstance(x.ctx, ast.Store)):
                    return True
        elif isinstance(s, (ast.AugAssign, ast.AnnAssign)) and is_name(s.target, name):
            return True
        elif isinstance(s, (ast.FunctionDef, ast.ClassDef)) and s.name == name:
            return True
    elif stmt_node.kind == 'for':
        if any(is_name(x, name) for x in ast.walk(s.target)):
            return True
    elif stmt_node.kind == 'with':
        for it in s.items:
            if it.optional_vars is not None and any(is_name(x, name) for x in ast.walk(it.optional_vars)):
                return True
    elif stmt_node.kind == 'handler' and s.name == name:
        return True
    return None


def reaching_defs(fi, use):
    """Values of the plain assignments of local `use.id` that may reach the Name node `use` (True for non-plain bindings)."""
    cfg = cfg_of(fi.node)
    name = use.id
    targets = cfg.nodes_containing(use)
    if not targets:
        raise AnalysisError('%s: no CFG node for the use of %s' % (fi.qualname, name))
    defs = [(n, _binds(n, name)) for n in cfg.nodes if n.ast is not None]
    defs = [(n, v) for n, v in defs if v is not None]
    dnodes = [n for n, v in defs]
    out = []
    for n, v in defs:
        r = cfg.reach([n], blocked=[d for d in dnodes if d is not n], include_starts=False)
        hit = any(t in r for t in targets)
        # a definition node that is itself the use (x = f(x)) is reached by the others, not by itself, unless in a loop
        if hit:
            out.append(v)
    return out


def deref_at(fi, expr, depth=4):
    """Like deref, but flow-sensitive: follow a Name to the single plain assignment that reaches this use."""
    cur = expr
    for _ in range(depth):
        if not isinstance(cur, ast.Name) or cur.id in fi.all_params and not lib.assigned_value(fi.node, cur.id):
            break
        try:
            vals = reaching_defs(fi, cur)
        except AnalysisError:
            break
        if len(vals) == 1 and isinstance(vals[0], ast.AST):
            cur = vals[0]
        else:
            break
    return cur


# ------------------------------------------------------------ seeing through refactorings
def accumulated_comp(fi, name):
    """If local `name` is built as `name = []` followed by one for-loop that appends to it (one append per iteration,
    possibly one in each branch of an if/else), return the equivalent synthetic ListComp; else None.

    `for v in it: name.append(e)`                      -> [e for v in it]
    `for v in it: if c: name.append(a) else: name.append(b)` -> [a if c else b for v in it]
    `for v in it: if c: name.append(a)`                -> [a for v in it if c]
    """
    inits = [s for s in walk_own(fi.node) if isinstance(s, ast.Assign) and any(is_name(t, name) for t in s.targets)]
    if len(inits) != 1 or not (isinstance(inits[0].value, ast.List) and not inits[0].value.elts):
        return None
    loops = []
    for lp in walk_own(fi.node):
        if isinstance(lp, ast.For) and any(_appends_to(n, name) is not None for n in ast.walk(lp)):
            if not any(lp is not o and any(x is lp for x in ast.walk(o)) for o in loops):
                loops.append(lp)
    loops = [l for l in loops if not any(l is not o and any(x is l for x in ast.walk(o)) for o in loops)]
    others = [n for n in walk_own(fi.node) if _appends_to(n, name) is not None
              and not any(any(x is n for x in ast.walk(l)) for l in loops)]
    if len(loops) != 1 or others or loops[0].orelse:
        return None
    lp = loops[0]

    def elt_of(stmts):
        """-> (elt, cond) for a statement list that appends exactly once (cond None = always)"""
        stmts = [s for s in stmts if not (isinstance(s, ast.Expr) and isinstance(s.value, ast.Constant))]
        if len(stmts) != 1:
            return None
        s = stmts[0]
        e = _appends_to(s, name) if isinstance(s, (ast.Expr, ast.AugAssign)) else None
        if e is not None:
            return e, None
        if isinstance(s, ast.If):
            a = elt_of(s.body)
            if a is None or a[1] is not None:
                return None
            if not s.orelse:
                return a[0], s.test
            b = elt_of(s.orelse)
            if b is None or b[1] is not None:
                return None
            return ast.IfExp(test=s.test, body=a[0], orelse=b[0]), None
        return None
    got = elt_of(lp.body)
    if got is None:
        return None
    elt, cond = got
    comp = ast.ListComp(elt=elt, generators=[ast.comprehension(target=lp.target, iter=lp.iter, ifs=[cond] if cond is not None else [],
                                                               is_async=0)])
    comp.lineno = lp.lineno
    comp.col_offset = lp.col_offset
    comp._synthetic_from = lp
    return comp


def _appends_to(node, name):
    """The element appended to list `name` by this node (name.append(e) / name += [e]), else None."""
    if isinstance(node, ast.Expr):
        node = node.value
    if isinstance(node, ast.Call) and isinstance(node.func, ast.Attribute) and node.func.attr == 'append' \
            and is_name(node.func.value, name) and len(node.args) == 1:
        return node.args[0]
    if isinstance(node, ast.AugAssign) and is_name(node.target, name) and isinstance(node.op, ast.Add) \
            and isinstance(node.value, ast.List) and len(node.value.elts) == 1:
        return node.value.elts[0]
    return None


def value_of(fi, expr, depth=5):
    """Follow plain locals (flow-sensitively) to their value; lists built by an accumulator loop become comprehensions."""
    cur = expr
    for _ in range(depth):
        if not isinstance(cur, ast.Name):
            break
        acc = accumulated_comp(fi, cur.id)
        if acc is not None:
            return acc
        nxt = deref(fi, cur, depth=1)
        if nxt is cur:
            try:
                nxt = deref_at(fi, cur, depth=1) if getattr(cur, '_parent', None) is not None else cur
            except Exception:
                nxt = cur
        if nxt is cur:
            break
        cur = nxt
    return cur


def expand_quantifier(e):
    """any(P(v) for v in (a, b)) -> P(a) or P(b); all(...) -> and.  Other expressions are returned unchanged."""
    if isinstance(e, ast.Call) and isinstance(e.func, ast.Name) and e.func.id in ('any', 'all') and len(e.args) == 1 \
            and isinstance(e.args[0], (ast.GeneratorExp, ast.ListComp)) and len(e.args[0].generators) == 1:
        g = e.args[0].generators[0]
        if isinstance(g.iter, (ast.Tuple, ast.List)) and isinstance(g.target, ast.Name) and not g.ifs and g.iter.elts:
            vals = [nf.subst(e.args[0].elt, {g.target.id: x}) for x in g.iter.elts]
            return ast.BoolOp(op=ast.Or() if e.func.id == 'any' else ast.And(), values=vals)
    return e


def search_loops_to_conditions(stmts):
    """Rewrite (on a clone) `for v in L: if P: break` + `else: S` into `if not any(P for v in L): S` (recursively)."""
    from ..index import clone
    out = []
    for s in stmts:
        s = clone(s)
        if isinstance(s, ast.For) and s.orelse and len(s.body) == 1 and isinstance(s.body[0], ast.If) \
                and not s.body[0].orelse and len(s.body[0].body) == 1 and isinstance(s.body[0].body[0], ast.Break):
            q = ast.Call(func=ast.Name(id='any', ctx=ast.Load()),
                         args=[ast.GeneratorExp(elt=s.body[0].test,
                                                generators=[ast.comprehension(target=s.target, iter=s.iter, ifs=[], is_async=0)])],
                         keywords=[])
            new = ast.If(test=ast.UnaryOp(op=ast.Not(), operand=q), body=search_loops_to_conditions(s.orelse), orelse=[])
            ast.copy_location(new, s)
            ast.fix_missing_locations(new)
            out.append(new)
            continue
        for field in ('body', 'orelse', 'finalbody'):
            sub = getattr(s, field, None)
            if isinstance(sub, list) and sub and isinstance(sub[0], ast.stmt):
                setattr(s, field, search_loops_to_conditions(sub))
        out.append(s)
    return out


def inline(fi, expr, keep=()):
    """expr with single-definition locals substituted (canonical); locals named in `keep` stay."""
    env = {k: v for k, v in lib.local_env(fi.node).items() if k not in keep}
    cur = expr
    for _ in range(4):
        new = nf.subst(cur, env)
        if ast.dump(new) == ast.dump(cur):
            break
        cur = new
    return nf.canon(cur)


def calls_unreviewed(idx, node):
    """Names of unreviewed helpers (left un-inlined by the normaliser) that are called under `node`."""
    names = {q.split('.')[-1] for q in getattr(idx, 'unreviewed', []) or []}
    return sorted({nf.callee_name(c) for c in ast.walk(node) if isinstance(c, ast.Call) and nf.callee_name(c) in names})


def guarded(ctx, fn, idx):
    """Run one rule function; an unexpected exception inside the checker is an analysis error (exit 2), never a crash."""
    try:
        fn(ctx, idx)
    except AnalysisError:
        raise
    except Exception as e:       # pragma: no cover - defensive
        import traceback
        tb = traceback.extract_tb(e.__traceback__)[-1]
        r = ctx.rule('%s.INTERNAL' % fn.__name__.upper(), 'the rule could be evaluated')
        r.undecided('<checker>', 'internal error in %s: %s: %s (%s:%d)' % (fn.__name__, type(e).__name__, e, tb.filename.split('/')[-1], tb.lineno))


# ------------------------------------------------------------ cost as a function of the grade
LOSSY_CALLS = {'int', 'round', 'floor', 'ceil', 'trunc', 'rint', 'around', 'fix', 'bool', 'sign'}
IDENTITY_CALLS = {'float'}


def affine_in_grade(expr, is_grade):
    """Symbolic (exact-arithmetic) form of a cost expression as a function of one grade g.

    -> ('affine', a, b)     cost == a*g + b with numeric a, b
       ('lossy', text)      a non-injective wrapper (int, round, floor, ceil, //, %) around something that depends on g
       None                 anything else (not recognised)
    `is_grade(node)` says whether a node *is* the grade (e.g. result['grade_decimal'])."""
    e = expr

    def num(x):
        return x.value if isinstance(x, ast.Constant) and isinstance(x.value, (int, float)) and not isinstance(x.value, bool) else None

    def go(x):
        if is_grade(x):
            return ('affine', 1.0, 0.0)
        if num(x) is not None:
            return ('affine', 0.0, float(num(x)))
        if isinstance(x, ast.UnaryOp) and isinstance(x.op, (ast.USub, ast.UAdd)):
            r_ = go(x.operand)
            if r_ and r_[0] == 'affine':
                s_ = -1.0 if isinstance(x.op, ast.USub) else 1.0
                return ('affine', s_ * r_[1], s_ * r_[2])
            return r_
        if isinstance(x, ast.BinOp):
            l, rr = go(x.left), go(x.right)
            for side in (l, rr):
                if side and side[0] == 'lossy':
                    return side
            if isinstance(x.op, (ast.FloorDiv, ast.Mod)):
                if (l and l[0] == 'affine' and l[1] != 0) or (rr and rr[0] == 'affine' and rr[1] != 0):
                    return ('lossy', '`%s` (%s)' % (short(x), '//' if isinstance(x.op, ast.FloorDiv) else '%'))
                return None
            if l is None or rr is None:
                return None
            if isinstance(x.op, ast.Add):
                return ('affine', l[1] + rr[1], l[2] + rr[2])
            if isinstance(x.op, ast.Sub):
                return ('affine', l[1] - rr[1], l[2] - rr[2])
            if isinstance(x.op, ast.Mult):
                if l[1] == 0:
                    return ('affine', l[2] * rr[1], l[2] * rr[2])
                if rr[1] == 0:
                    return ('affine', rr[2] * l[1], rr[2] * l[2])
                return None
            if isinstance(x.op, ast.Div):
                if rr[1] == 0 and rr[2] != 0:
                    return ('affine', l[1] / rr[2], l[2] / rr[2])
                return None
            return None
        if isinstance(x, ast.Call) and not x.keywords or isinstance(x, ast.Call):
            name = nf.callee_name(x)
            if name in IDENTITY_CALLS and len(x.args) == 1:
                return go(x.args[0])
            if name in LOSSY_CALLS and x.args:
                inner = go(x.args[0])
                if inner and inner[0] == 'lossy':
                    return inner
                if inner and inner[0] == 'affine' and inner[1] != 0:
                    return ('lossy', '`%s(...)`' % name)
                if inner is None and any(is_grade(n) for n in ast.walk(x.args[0])):
                    return ('lossy', '`%s(...)`' % name)
            return None
        return None
    return go(e)


def kwarg(fi, call, name, pos=None):
    """Value passed for parameter `name`: keyword, positional (index pos), or through `**d` where d is a local bound once to
    a dict literal / dict(k=v) that has the key.  Returns (value or None, certain) -- certain is False when an unresolved
    `**mapping` or `*args` could still carry it."""
    for kw in call.keywords:
        if kw.arg == name:
            return kw.value, True
    if pos is not None and len(call.args) > pos and not any(isinstance(a, ast.Starred) for a in call.args[:pos + 1]):
        return call.args[pos], True
    certain = not any(isinstance(a, ast.Starred) for a in call.args)
    for kw in call.keywords:
        if kw.arg is None:
            d = value_of(fi, kw.value) if isinstance(kw.value, ast.Name) else kw.value
            if isinstance(d, ast.Dict) and all(isinstance(k, ast.Constant) for k in d.keys if k is not None) and None not in d.keys:
                for k, v in zip(d.keys, d.values):
                    if k.value == name:
                        return v, True
            elif isinstance(d, ast.Call) and isinstance(d.func, ast.Name) and d.func.id == 'dict' and not d.args:
                for k2 in d.keywords:
                    if k2.arg == name:
                        return k2.value, True
                if any(k2.arg is None for k2 in d.keywords):
                    certain = False
            else:
                certain = False
    return None, certain


def bind_call(callee_params, call):
    """{parameter name: argument} for a call of a function whose positional parameters (without self) are callee_params;
    None when *args / **kwargs make the binding unknown."""
    if any(isinstance(a, ast.Starred) for a in call.args) or any(k.arg is None for k in call.keywords):
        return None
    out = {}
    for pname, a in zip(callee_params, call.args):
        out[pname] = a
    for k in call.keywords:
        out[k.arg] = k.value
    return out


def split_conditional_returns(paths):
    """`return a if c else b` -> two paths (guards + c -> a, guards + not c -> b), recursively."""
    out = []
    work = list(paths)
    while work:
        p = work.pop(0)
        if p.leaf.kind == 'ret' and isinstance(p.leaf.expr, ast.IfExp):
            t = nf.canon(p.leaf.expr.test)
            work.insert(0, nf.Path(p.guards + nf.conjuncts(nf.negate(t)) if not isinstance(nf.negate(t), ast.BoolOp) or isinstance(nf.negate(t).op, ast.And)
                                   else p.guards + [nf.negate(t)], nf.Leaf('ret', p.leaf.expr.orelse, p.leaf.stmt, p.leaf.env), p.effects))
            work.insert(0, nf.Path(p.guards + [t], nf.Leaf('ret', p.leaf.expr.body, p.leaf.stmt, p.leaf.env), p.effects))
        else:
            out.append(p)
    return out


def dict_choice(fi, e):
    """`{True: a, False: b}[c]` (the dict possibly through a single-definition local) -> IfExp(c, a, b); else e."""
    if isinstance(e, ast.Subscript) and not isinstance(e.slice, ast.Slice):
        d = deref(fi, e.value) if isinstance(e.value, ast.Name) else e.value
        if isinstance(d, ast.Dict) and len(d.keys) == 2 and all(isinstance(k, ast.Constant) and isinstance(k.value, bool) for k in d.keys):
            m = {k.value: v for k, v in zip(d.keys, d.values)}
            if set(m) == {True, False}:
                return ast.IfExp(test=e.slice, body=m[True], orelse=m[False])
    return e


def guard_clause_nesting(stmts):
    """(on a clone) `if c: <...; break|continue|return|raise>` followed by more statements -> the rest moves into the else branch,
    recursively, so that decision paths see the jump as the end of its branch."""
    from ..index import clone
    stmts = [clone(s) for s in stmts]

    def ends_in_jump(body):
        return bool(body) and (isinstance(body[-1], (ast.Break, ast.Continue, ast.Return, ast.Raise))
                               or (isinstance(body[-1], ast.If) and body[-1].orelse and ends_in_jump(body[-1].body) and ends_in_jump(body[-1].orelse)))

    def go(block):
        out = []
        for k, s in enumerate(block):
            for field in ('body', 'orelse'):
                sub = getattr(s, field, None)
                if isinstance(s, (ast.If, ast.For, ast.While, ast.With)) and isinstance(sub, list) and sub:
                    setattr(s, field, go(sub))
            if isinstance(s, ast.If) and not s.orelse and ends_in_jump(s.body) and k + 1 < len(block):
                s.orelse = go(block[k + 1:])
                out.append(s)
                return out
            out.append(s)
        return out
    res = go(stmts)
    for s in res:
        ast.fix_missing_locations(s)
    return res


# ------------------------------------------------------ small accumulator classes ("tally" objects)
RESOLVED_HELPERS = set()      # helpers whose complete body was folded into an analysed expression
ACCUMULATOR_CLASSES = set()   # qualified names of classes understood by object_fields


def object_fields(idx, module, call):
    """Symbolic fields of `Cls(args)` for a small accumulator class of the module whose __init__ initialises fields to [] / 0
    and fills them in ONE loop over a constructor argument:
        self.xs.append(E(item))            -> xs = [E(item) for item in ARG]
        if C(item): self.xs.append(E)      -> xs = [E(item) for item in ARG if C(item)]
        if C(item): self.n += 1            -> n  = sum(1 for item in ARG if C(item))
    Callback parameters bound to a lambda or to a one-line module function are inlined.  -> {field: expr} or None."""
    if not (isinstance(call, ast.Call) and isinstance(call.func, ast.Name)):
        return None
    kind, ci = idx.resolve_name(module, call.func.id)
    if kind != 'class' or '__init__' not in ci.methods:
        return None
    init = ci.methods['__init__']
    S = init.params[0]
    params = init.params[1:]
    args = init.node.args
    defaults = dict(zip([a.arg for a in args.args][len(args.args) - len(args.defaults):], args.defaults))
    bound = {}
    for pn, a in zip(params, call.args):
        bound[pn] = a
    for kw in call.keywords:
        if kw.arg is None:
            return None
        bound[kw.arg] = kw.value
    for pn in params:
        if pn not in bound:
            if pn not in defaults:
                return None
            bound[pn] = defaults[pn]

    def inline_callbacks(e):
        class T(ast.NodeTransformer):
            def visit_Call(self, node):
                self.generic_visit(node)
                if isinstance(node.func, ast.Name) and node.func.id in bound and len(node.args) == 1 and not node.keywords:
                    f = bound[node.func.id]
                    if isinstance(f, ast.Lambda) and len(f.args.args) == 1:
                        return nf.subst(f.body, {f.args.args[0].arg: node.args[0]})
                    if isinstance(f, ast.Name):
                        k2, fo = idx.resolve_name(module, f.id)
                        if k2 == 'func' and len(fo.params) == 1:
                            body = [x for x in fo.node.body if not (isinstance(x, ast.Expr) and isinstance(x.value, ast.Constant))]
                            if len(body) == 1 and isinstance(body[0], ast.Return) and body[0].value is not None:
                                RESOLVED_HELPERS.add(fo.qualname)          # its whole body (one return) is now part of the expression
                                return nf.subst(body[0].value, {fo.params[0]: node.args[0]})
                    raise AnalysisError('callback `%s` of %s cannot be inlined' % (short(node), ci.name))
                return node
        from ..index import clone
        return T().visit(clone(e))
    fields, loops = {}, []
    for st in init.node.body:
        if isinstance(st, ast.Expr) and isinstance(st.value, ast.Constant):
            continue
        if isinstance(st, ast.Assign) and len(st.targets) == 1 and is_self_attr(st.targets[0], S):
            v = st.value
            if isinstance(v, ast.List) and not v.elts:
                fields[st.targets[0].attr] = ('list', [])
            elif isinstance(v, ast.Constant) and v.value == 0 and not isinstance(v.value, bool):
                fields[st.targets[0].attr] = ('count', [])
            elif isinstance(v, ast.Name) and v.id in bound:
                fields[st.targets[0].attr] = ('value', bound[v.id])
            else:
                return None
        elif isinstance(st, ast.For) and not st.orelse:
            loops.append(st)
        else:
            return None
    if len(loops) > 1:
        return None
    if loops:
        lp = loops[0]
        if not (isinstance(lp.target, ast.Name) and isinstance(lp.iter, ast.Name) and lp.iter.id in bound):
            return None
        item, arg = lp.target.id, bound[lp.iter.id]

        def visit(stmts, conds):
            for st in stmts:
                if isinstance(st, ast.If) and not st.orelse:
                    if not visit(st.body, conds + [st.test]):
                        return False
                elif isinstance(st, ast.Expr) and isinstance(st.value, ast.Call) and isinstance(st.value.func, ast.Attribute) \
                        and st.value.func.attr == 'append' and is_self_attr(st.value.func.value, S) and len(st.value.args) == 1:
                    f = st.value.func.value.attr
                    if fields.get(f, (None,))[0] != 'list' or fields[f][1]:
                        return False
                    fields[f][1].append((st.value.args[0], list(conds)))
                elif isinstance(st, ast.AugAssign) and isinstance(st.op, ast.Add) and is_self_attr(st.target, S) \
                        and isinstance(st.value, ast.Constant) and st.value.value == 1:
                    f = st.target.attr
                    if fields.get(f, (None,))[0] != 'count' or fields[f][1]:
                        return False
                    fields[f][1].append((None, list(conds)))
                else:
                    return False
            return True
        if not visit(lp.body, []):
            return None
    ACCUMULATOR_CLASSES.add(ci.qualname)
    out = {}
    for f, (kind_, entries) in fields.items():
        if kind_ == 'value':
            out[f] = entries
            continue
        if not entries:
            out[f] = ast.List(elts=[], ctx=ast.Load()) if kind_ == 'list' else ast.Constant(value=0)
            continue
        e, conds = entries[0]
        gen = ast.comprehension(target=ast.Name(id=item, ctx=ast.Store()), iter=arg, ifs=[inline_callbacks(c) for c in conds], is_async=0)
        if kind_ == 'list':
            out[f] = ast.ListComp(elt=inline_callbacks(e), generators=[gen])
        else:
            out[f] = ast.Call(func=ast.Name(id='sum', ctx=ast.Load()),
                              args=[ast.GeneratorExp(elt=ast.Constant(value=1), generators=[gen])], keywords=[])
        ast.fix_missing_locations(out[f])
    return out


def resolve_objects(idx, module, expr):
    """Replace `Cls(args).field` by the symbolic field of the accumulator object (see object_fields); `list([..])` -> `[..]`;
    `len([E for x in L])` (no filter) -> `len(L)`."""
    from ..index import clone

    class T(ast.NodeTransformer):
        def visit_Attribute(self, node):
            self.generic_visit(node)
            if isinstance(node.value, ast.Call) and isinstance(node.value.func, ast.Name):
                f = object_fields(idx, module, node.value)
                if f is not None and node.attr in f:
                    return clone(f[node.attr])
            return node

        def visit_Call(self, node):
            self.generic_visit(node)
            if isinstance(node.func, ast.Name) and node.func.id == 'list' and len(node.args) == 1 and not node.keywords \
                    and isinstance(node.args[0], ast.ListComp):
                return node.args[0]
            if isinstance(node.func, ast.Name) and node.func.id == 'len' and len(node.args) == 1 \
                    and isinstance(node.args[0], ast.ListComp) and len(node.args[0].generators) == 1 and not node.args[0].generators[0].ifs:
                return ast.Call(func=node.func, args=[node.args[0].generators[0].iter], keywords=[])
            return node
    if expr is None:
        return None
    out = T().visit(clone(expr))
    ast.fix_missing_locations(out)
    return out


def mark_folded_helpers_reviewed(idx):
    """Un-inlined helpers that were nevertheless analysed in full are taken off the engine's `unreviewed` list:
    * one-line callbacks folded into an expression by object_fields;
    * methods of an accumulator class understood by object_fields whose calls were all inlined by the normaliser
      (no `.name(...)` call is left in any function outside the class)."""
    left = list(getattr(idx, 'unreviewed', []) or [])
    for q in left:
        if q in RESOLVED_HELPERS:
            idx.unreviewed.remove(q)
            continue
        owner, _, name = q.rpartition('.')
        if owner in ACCUMULATOR_CLASSES:
            used = False
            for f in idx.package_funcs():
                if f.qualname.startswith(owner + '.'):
                    continue
                for c in walk_own(f.node):
                    if isinstance(c, ast.Call) and isinstance(c.func, ast.Attribute) and c.func.attr == name:
                        used = True
            if not used:
                idx.unreviewed.remove(q)
