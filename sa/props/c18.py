"""C18 -- StringGrader matches exactly the inputs equal after the configured cleaning.

All clauses are decided from the shape of the code:
* D1  TABLE/NF: `clean_input` is extracted as an ordered pipeline of (guard, transform) terms and compared
      with the reference table of Appendix A9 (steps, guards, and the precedence pairs that matter);
* D2  ROLE: both compared strings are `self.clean_input(...)` of the answer's expect / the submission, and
      the submission / expected string are used in no other way;
* D3  REGEX construction (E9) + ROLE: every validation test is a full-match construction over the author's
      pattern (a hole) and is applied to the cleaned strings;
* D3/D4 ENUM over extracted decision paths (E6): the branch conditions of `check_response` are recognised
      as atoms (option flags, "pattern is None", outcome of the opaque validation test, equality of the two
      opaque cleaned strings, order type of the two opaque counts against the constants/options they are
      compared with) and the decision tree is compared with the reference decision over the *complete*
      finite domain of those atoms;
* D4  NF: the word count is `len(<cleaned>.split())` without a separator; policy table of `construct_message`
      over ('err','msg',None) x debug (complete) with an opaque message;
* D5  ENUM over the decision paths of `__call__` (expect is None x accept_any x accept_nonempty).
Nothing of /repo is imported or executed; no input strings are pushed through the code.
"""
import ast
import itertools
from re import _parser as sre_parse
from re import _constants as sre_c

from ..index import AnalysisError, walk_own, short, unparse, parent
from .. import nf, lib
from ..selftest import Mutant, Benign
from ._c13_enum import Interp, Model, Obj, Sym, Raised, Budget
from . import _c13_regex as rx
from . import _c13_nfx as X

ID = 'C18'
SGF = 'mitxgraders/stringgrader.py'
FILES = [SGF]

EXPLANATION = (
    "(D1, TABLE/NF) clean_input is extracted as an ordered pipeline of (guard, transform) terms by walking its body "
    "along the working variable and compared with the table of Appendix A9: replace(x, ' ') for x in {TAB, CR LF, LF CR, "
    "CR, LF} unguarded, lower() iff not case_sensitive, strip() iff strip, replace(' ', '') iff strip_all, collapse of "
    "space runs (re.sub whose regex term is a run of >= 1 or >= 2 spaces, or the equivalent while-loop) iff clean_spaces; "
    "no other transform; precedence pairs: two-character line breaks before CR and LF, every line-break/tab mapping "
    "before strip_all and before the collapse; (D2, ROLE) the two compared strings are self.clean_input(answer['expect']) "
    "and self.clean_input(student_input) and neither raw value is used otherwise; (D3, REGEX construction) every test "
    "over config['validation_pattern'] is a full-match construction (the pattern is a hole standing for an arbitrary "
    "regex) applied to a cleaned string, once for the answer and once for the submission; (D3/D4, ENUM over extracted "
    "decision paths) over the complete domain of the branch atoms of check_response the selected leaf is the one the "
    "property prescribes: ConfigError for an answer failing the pattern (not in accept modes), refusal through "
    "construct_message(invalid_msg, explain_validation) for a submission failing it (every mode), answer's own record "
    "iff the cleaned strings are equal, zero record otherwise, accept modes: refusal through "
    "construct_message(., explain_minimums) iff len < min_length (raised to 1 iff accept_nonempty and min_length == 0) "
    "or words < min_words, the word message winning; the word count is len(<cleaned>.split()) without separator; "
    "construct_message's policy table over ('err','msg',None) x debug; (D5) __call__ passes '' for a missing expect "
    "exactly in the accept modes.")
NOT_DECIDED = ("Python's str/re semantics themselves (trusted: str.replace/lower/strip/split, re.sub, re.fullmatch); the "
               "wording of messages; ItemGrader.__call__'s handling of the answers list (C08/C11).")
ASSUMPTIONS = ["str.strip() removes TAB/CR/LF as white space, hence strip commutes with the line-break mapping (no precedence pair needed)",
               "cleaned strings contain no line breaks, so `$` and `\\Z` coincide in a full-match construction"]

SG = 'mitxgraders.stringgrader.StringGrader'


def check(ctx):
    _run_all(ctx, ctx.index, [d1_pipeline, d2_roles, d3_construction, d34_decision, d4_words, d4_policy, d5_call])


def _run_all(ctx, idx, fns):
    """Run the rule functions; an unexpected failure inside the checker is an analysis error, never a crash."""
    for f in fns:
        try:
            f(ctx, idx)
        except AnalysisError:
            raise
        except Exception as e:      # pragma: no cover - defensive
            ctx.rule('ENGINE.%s' % f.__name__, 'the checker could not finish this rule').undecided(
                '<checker>', '%s: %s' % (type(e).__name__, e))


# ----------------------------------------------------------------------------- D1
FOREIGN_STR_METHODS = {'upper', 'casefold', 'lstrip', 'rstrip', 'title', 'capitalize', 'swapcase', 'expandtabs', 'translate',
                       'removeprefix', 'removesuffix', 'center', 'ljust', 'rjust', 'zfill'}
WS = {'\t': 'TAB', '\r\n': 'CR LF', '\n\r': 'LF CR', '\r': 'CR', '\n': 'LF'}


class Step(object):
    def __init__(self, guards, kind, args, node):
        self.guards = frozenset(guards)
        self.kind = kind          # replace | lower | strip | sub | loop-collapse | foreign
        self.args = args
        self.node = node

    def __repr__(self):
        return '%s%r if %s' % (self.kind, self.args, sorted(self.guards))


def flag_literals(test):
    """[(flag, polarity)] if the test is a conjunction of config-flag literals, else None."""
    out = []
    for c in nf.conjuncts(nf.canon(test)):
        k = nf.config_key(c)
        if k is not None:
            out.append((k, True))
            continue
        if isinstance(c, ast.UnaryOp) and isinstance(c.op, ast.Not) and nf.config_key(c.operand) is not None:
            out.append((nf.config_key(c.operand), False))
            continue
        return None
    return out


def module_value(fi, e):
    """The value expression of a module-level name assigned exactly once (else None)."""
    if isinstance(e, ast.Name):
        vals = fi.module.assigns.get(e.id, [])
        if len(vals) == 1:
            return vals[0]
    return None


def const_rows(fi, e):
    """The rows if e is (a module- or class-level name for) a tuple/list of tuples, else None."""
    v = module_value(fi, e) if isinstance(e, ast.Name) else e
    if isinstance(e, ast.Attribute) and isinstance(e.value, ast.Name) and e.value.id in ('self', 'cls') and fi.cls is not None:
        v = fi.cls.attrs.get(e.attr)
    if isinstance(v, (ast.Tuple, ast.List)) and v.elts and all(isinstance(x, (ast.Tuple, ast.List)) for x in v.elts):
        return list(v.elts)
    return None


class _RowSimplify(ast.NodeTransformer):
    """After a table row was substituted into a loop body: apply lambdas to their arguments, read `bool(x) is True/False`
    as x / not x."""
    def visit_Call(self, node):
        self.generic_visit(node)
        f = node.func
        if isinstance(f, ast.Lambda) and not node.keywords and not f.args.vararg and not f.args.kwarg and not f.args.kwonlyargs \
                and len(f.args.args) == len(node.args) and not any(isinstance(a, ast.Starred) for a in node.args):
            return nf.subst(f.body, {p.arg: a for p, a in zip(f.args.args, node.args)})
        return node

    def visit_Compare(self, node):
        self.generic_visit(node)
        if len(node.ops) == 1 and isinstance(node.ops[0], (ast.Is, ast.Eq, ast.IsNot, ast.NotEq)) and isinstance(node.comparators[0], ast.Constant) \
                and isinstance(node.comparators[0].value, bool) and isinstance(node.left, ast.Call) and isinstance(node.left.func, ast.Name) \
                and node.left.func.id == 'bool' and len(node.left.args) == 1:
            want = node.comparators[0].value == isinstance(node.ops[0], (ast.Is, ast.Eq))
            inner = node.left.args[0]
            return inner if want else ast.UnaryOp(op=ast.Not(), operand=inner)
        return node


def const_strings(fi, e):
    """List of strings if e is (a module-level name for) a tuple/list of string literals, else None."""
    v = module_value(fi, e) if isinstance(e, ast.Name) else e
    if isinstance(e, ast.Attribute) and isinstance(e.value, ast.Name) and e.value.id in ('self', 'cls') and fi.cls is not None:
        v = fi.cls.attrs.get(e.attr)
    if isinstance(v, (ast.Tuple, ast.List)) and v.elts and all(lib.str_const(x) is not None for x in v.elts):
        return [x.value for x in v.elts]
    return None


def compiled_pattern(idx, fi, e, env=None):
    """The pattern string if e is (a name for) re.compile(<literal>) without flags, else None."""
    v = e
    if isinstance(e, ast.Name):
        v = (env or {}).get(e.id) or module_value(fi, e)
    if isinstance(e, ast.Attribute) and isinstance(e.value, ast.Name) and e.value.id in ('self', 'cls') and fi.cls is not None:
        v = fi.cls.attrs.get(e.attr)
    if isinstance(v, ast.Call) and idx.dotted_of(fi.module, v.func) == 're.compile' and len(v.args) == 1 and not v.keywords:
        return lib.str_const(v.args[0])
    return None


def extract_pipeline(idx, fi, direct=False, depth=0, val=None):
    """Ordered list of Steps of clean_input, the working variable's initial expression, and the input parameter.
    With direct=True the function is a helper whose (last) parameter is the working string itself."""
    if depth > 3:
        raise AnalysisError('helper nesting too deep in the cleaning pipeline')
    fi = X.unrolled(fi)
    fn = fi.node
    param = fi.params[-1] if direct else fi.params[1]
    state = {'w': param if direct else None, 'init': ast.Name(id=param, ctx=ast.Load()) if direct else None, 'returned': False}
    steps = []

    def flag_atom(e):
        k = nf.config_key(e)
        if k is not None and val is not None and k in val:
            return lambda w_, k=k: val[k]
        return None
    flag_guards = X.Guards(flag_atom)

    def decide(test):
        """Truth of a test over the option flags under the current valuation, or None if it is not such a test."""
        if val is None:
            return None
        try:
            return bool(flag_guards.compile(nf.canon(test))({}))
        except X.Unrecognised:
            return None

    def touches(node):
        return state['w'] is not None and X.mentions(node, state['w'])

    def transforms_of(e, guards):
        """Steps applied by expression e to the working variable (innermost first); None if e does not derive from it."""
        w = state['w']
        if isinstance(e, ast.Name):
            return [] if e.id == w else None
        if isinstance(e, ast.IfExp) and decide(e.test) is not None:
            return transforms_of(e.body if decide(e.test) else e.orelse, guards)
        if isinstance(e, ast.Call):
            dotted = idx.dotted_of(fi.module, e.func)
            if isinstance(e.func, ast.Name) and e.func.id == 'str' and len(e.args) == 1 and not e.keywords:
                return transforms_of(e.args[0], guards)
            if dotted == 're.sub':
                if len(e.args) != 3 or e.keywords:
                    if touches(e):
                        raise AnalysisError('re.sub with flags/count on the working string: %s' % short(e))
                    return None
                base = transforms_of(e.args[2], guards)
                if base is None:
                    return None
                p, r = lib.str_const(e.args[0]), lib.str_const(e.args[1])
                if p is None or r is None:
                    raise AnalysisError('re.sub with a non-literal pattern/replacement: %s' % short(e))
                return base + [Step(guards, 'sub', (p, r), e)]
            if isinstance(e.func, ast.Lambda) and len(e.args) == 1 and not e.keywords and len(e.func.args.args) == 1 \
                    and not e.func.args.defaults:
                return transforms_of(nf.subst(e.func.body, {e.func.args.args[0].arg: e.args[0]}), guards)
            if isinstance(e.func, ast.Attribute) and isinstance(e.func.value, ast.Name) and e.func.value.id in ('self', 'cls') \
                    and len(e.args) == 1 and not e.keywords and touches(e.args[0]):
                targets, how = idx.resolve_call(fi.original, e)
                fts = [t for t in targets if hasattr(t, 'node')]
                if len(fts) == 1:
                    base = transforms_of(e.args[0], guards)
                    sub_steps, _, _ = extract_pipeline(idx, fts[0], direct=True, depth=depth + 1, val=val)
                    return base + [Step(list(guards) + list(st.guards), st.kind, st.args, e) for st in sub_steps]
            if isinstance(e.func, ast.Attribute) and e.func.attr == 'sub' and len(e.args) == 2 and not e.keywords \
                    and compiled_pattern(idx, fi, e.func.value, lib.local_env(fn)) is not None:
                base = transforms_of(e.args[1], guards)
                if base is None:
                    return None
                rr = lib.str_const(e.args[0])
                if rr is None:
                    raise AnalysisError('non-literal replacement in %s' % short(e))
                return base + [Step(guards, 'sub', (compiled_pattern(idx, fi, e.func.value, lib.local_env(fn)), rr), e)]
            if isinstance(e.func, ast.Attribute):
                base = transforms_of(e.func.value, guards)
                if base is None:
                    if any(touches(a) for a in e.args):
                        raise AnalysisError('working string passed to `%s`' % short(e))
                    return None
                name = e.func.attr
                consts = [lib.str_const(a) for a in e.args]
                if name == 'replace' and len(e.args) == 2 and not e.keywords and None not in consts:
                    return base + [Step(guards, 'replace', tuple(consts), e)]
                if name == 'lower' and not e.args and not e.keywords:
                    return base + [Step(guards, 'lower', (), e)]
                if name == 'strip' and not e.args and not e.keywords:
                    return base + [Step(guards, 'strip', (), e)]
                if name in FOREIGN_STR_METHODS or name in ('strip', 'replace', 'lower'):
                    text = '.%s(%s)' % (name, ', '.join(short(a, 20) for a in e.args))
                    return base + [Step(guards, 'foreign', (text,), e)]
                raise AnalysisError('method .%s applied to the working string is not a known string transform' % name)
            if touches(e):
                raise AnalysisError('working string passed to `%s`' % short(e))
            return None
        if touches(e):
            raise AnalysisError('expression over the working string not recognised: %s' % short(e))
        return None

    def transforms_of_safe(e, guards):
        try:
            return transforms_of(e, guards)
        except AnalysisError:
            return None

    def walk(stmts, guards):
        for s in stmts:
            if state['returned']:
                if val is not None:
                    return
                raise AnalysisError('statements after the return of clean_input')
            if isinstance(s, ast.Expr):
                continue
            if isinstance(s, ast.Assign) and len(s.targets) == 1 and isinstance(s.targets[0], ast.Name):
                t = s.targets[0].id
                if state['w'] is None:
                    if X.mentions(s.value, param):
                        if guards:
                            raise AnalysisError('working string initialised under a condition')
                        state['w'] = param
                        tr = transforms_of(s.value, guards)
                        if tr is None:
                            raise AnalysisError('initial value `%s` does not derive from the input' % short(s.value))
                        steps.extend(tr)
                        state['w'], state['init'] = t, ast.Name(id=param, ctx=ast.Load())
                    continue
                if t == state['w']:
                    tr = transforms_of(s.value, guards)
                    if tr is None:
                        raise AnalysisError('working string overwritten by `%s`' % short(s.value))
                    steps.extend(tr)
                    continue
                if X.is_name(s.value, state['w']) or (transforms_of_safe(s.value, guards) is not None):
                    # the pipeline continues under another name
                    tr = transforms_of(s.value, guards)
                    steps.extend(tr)
                    state['w'] = t
                    continue
                if touches(s.value):
                    raise AnalysisError('working string copied into `%s`' % t)
                continue
            if isinstance(s, ast.If) and decide(s.test) is not None:
                walk(s.body if decide(s.test) else s.orelse, guards)
                if state['returned']:
                    return
                continue
            if isinstance(s, ast.If):
                lits = flag_literals(s.test)
                body_touch = any(touches(x) for x in s.body + s.orelse)
                if lits is None:
                    if body_touch:
                        raise AnalysisError('transform guarded by an unrecognised condition: %s' % short(s.test))
                    continue
                walk(s.body, guards + lits)
                if s.orelse:
                    if len(lits) != 1:
                        if any(touches(x) for x in s.orelse):
                            raise AnalysisError('else-branch of a compound guard')
                        continue
                    walk(s.orelse, guards + [(lits[0][0], not lits[0][1])])
                continue
            if isinstance(s, ast.For) and state['w'] is not None and touches(s):
                w = state['w']
                toks = const_strings(fi, s.iter)
                body = [x for x in s.body if not isinstance(x, ast.Expr)]
                if toks is not None and isinstance(s.target, ast.Name) and len(body) == 1 and not s.orelse:
                    b = X.m(X.spat("%s = %s.replace(%s, _R)" % (w, w, s.target.id)), body[0])
                    if b is not None and lib.str_const(b['_R']) is not None:
                        for tok in toks:
                            steps.append(Step(guards, 'replace', (tok, b['_R'].value), body[0]))
                        continue
                rows = const_rows(fi, s.iter)
                if rows is not None and not s.orelse and not any(isinstance(x, (ast.Break, ast.Continue)) for x in ast.walk(s)):
                    # an ordered table of rows (class / module constant): the body is read once per row, lambdas applied
                    for row in rows:
                        bnd = X._bind_target(s.target, row)
                        if bnd is None:
                            raise AnalysisError('row `%s` does not fit the loop target `%s`' % (short(row), short(s.target)))
                        walk([_RowSimplify().visit(nf._Subst(bnd).visit(X.clone_stmt(x))) for x in s.body], guards)
                        if state['returned']:
                            return
                    continue
                raise AnalysisError('loop over the working string not recognised: for %s in %s' % (short(s.target), short(s.iter)))
            if isinstance(s, ast.While):
                w = state['w']
                if w is not None and X.m("'  ' in %s" % w, s.test) is not None and len(s.body) == 1 and \
                        X.m(X.spat("%s = %s.replace('  ', ' ')" % (w, w)), s.body[0]) is not None and not s.orelse:
                    steps.append(Step(guards, 'loop-collapse', (), s))
                    continue
                if touches(s):
                    raise AnalysisError('loop over the working string not recognised: %s' % short(s.test))
                continue
            if isinstance(s, ast.Return):
                if guards:
                    raise AnalysisError('conditional return in clean_input')
                state['return_node'] = s
                if s.value is None or state['w'] is None:
                    raise AnalysisError('clean_input returns nothing recognisable')
                tr = transforms_of(s.value, guards)
                if tr is None:
                    raise AnalysisError('clean_input returns `%s`, not the working string' % short(s.value))
                steps.extend(tr)
                state['returned'] = True
                continue
            if touches(s):
                raise AnalysisError('statement over the working string not recognised: %s' % short(s))
    walk(fn.body, [])
    if state['w'] is None or not state['returned']:
        raise AnalysisError('clean_input: working string / return not found')
    if val is not None:
        return steps, state['init'], state.get('return_node')
    return steps, state['init'], param


def space_run(pattern):
    """('run', lo, hi) if the regex matches exactly runs of lo..hi spaces; ('other', why) for a regex over other
    characters; None if not analysable."""
    try:
        tree = sre_parse.parse(pattern)
    except Exception:
        return None
    flag = {'other': False}
    INF = sre_c.MAXREPEAT

    def add(a, b):
        return INF if (a == INF or b == INF) else a + b

    def mul(a, b):
        if a == 0 or b == 0:
            return 0
        return INF if (a == INF or b == INF) else a * b

    def run(items):
        lo = hi = 0
        for op, av in items:
            if op is sre_c.LITERAL:
                if av != 32:
                    flag['other'] = True
                lo, hi = lo + 1, add(hi, 1)
            elif op is sre_c.IN:
                if not (len(av) == 1 and av[0] == (sre_c.LITERAL, 32)):
                    flag['other'] = True
                lo, hi = lo + 1, add(hi, 1)
            elif op in (sre_c.MAX_REPEAT, sre_c.MIN_REPEAT):
                a, b, sub = av
                r = run(list(sub))
                if r is None:
                    return None
                lo, hi = lo + a * r[0], add(hi, mul(b, r[1]))
            elif op is sre_c.SUBPATTERN and not av[1] and not av[2]:
                r = run(list(av[3]))
                if r is None:
                    return None
                lo, hi = lo + r[0], add(hi, r[1])
            elif op in (sre_c.CATEGORY, sre_c.ANY, sre_c.NOT_LITERAL):
                flag['other'] = True
                lo, hi = lo + 1, add(hi, 1)
            else:
                return None
        return lo, hi
    r = run(list(tree))
    if r is None:
        return None
    if flag['other']:
        return ('other', 'it matches characters other than the space')
    return ('run', r[0], r[1])


REFERENCE = [  # (step id, guard, description)
    ('W:\t', frozenset(), "TAB -> space"),
    ('W:\r\n', frozenset(), "CR LF -> space"),
    ('W:\n\r', frozenset(), "LF CR -> space"),
    ('W:\r', frozenset(), "CR -> space"),
    ('W:\n', frozenset(), "LF -> space"),
    ('LOWER', frozenset([('case_sensitive', False)]), "lower() iff not case_sensitive"),
    ('STRIP', frozenset([('strip', True)]), "strip() iff strip"),
    ('STRIPALL', frozenset([('strip_all', True)]), "replace(' ', '') iff strip_all"),
    ('COLLAPSE', frozenset([('clean_spaces', True)]), "collapse runs of spaces iff clean_spaces"),
]
PRECEDENCE = [('W:\r\n', 'W:\r'), ('W:\r\n', 'W:\n'), ('W:\n\r', 'W:\r'), ('W:\n\r', 'W:\n')] + \
             [(w, later) for w in ('W:\t', 'W:\r\n', 'W:\n\r', 'W:\r', 'W:\n') for later in ('STRIPALL', 'COLLAPSE')]


def classify_step(st):
    """(step id | None, violation text | None)."""
    if st.kind == 'replace':
        old, new = st.args
        if old in WS:
            if new == ' ':
                return 'W:' + old, None
            return None, '%s is replaced by %r instead of a space' % (WS[old], new)
        if (old, new) == (' ', ''):
            return 'STRIPALL', None
        if (old, new) == ('  ', ' '):
            return None, ("a single pass of replace('  ', ' ') is not the collapse of space runs: a run of three or more "
                          "spaces keeps more than one space")
        return None, 'replace(%r, %r) alters a character the property never alters' % (old, new)
    if st.kind == 'lower':
        return 'LOWER', None
    if st.kind == 'strip':
        return 'STRIP', None
    if st.kind == 'loop-collapse':
        return 'COLLAPSE', None
    if st.kind == 'sub':
        p, r = st.args
        sr = space_run(p)
        if sr is None:
            raise AnalysisError('re.sub pattern %r not analysable' % p)
        if sr[0] == 'other':
            return None, 're.sub(%r, %r, .) is not the collapse of space runs: %s' % (p, r, sr[1])
        _, lo, hi = sr
        if hi != sre_c.MAXREPEAT or lo not in (1, 2):
            return None, ('re.sub(%r, ...) rewrites runs of %d..%s spaces, not every run of two or more'
                          % (p, lo, 'inf' if hi == sre_c.MAXREPEAT else hi))
        if r != ' ':
            return None, 'runs of spaces are replaced by %r instead of one space' % r
        return 'COLLAPSE', None
    if st.kind == 'foreign':
        return None, '%s is not a transform of the cleaning pipeline' % st.args[0]
    raise AnalysisError('step kind %s' % st.kind)


def d1_pipeline(ctx, idx):
    r = ctx.rule('D1.PIPELINE', 'clean_input executes exactly the transform pipeline of Appendix A9 under each of the 16 option '
                 'valuations (steps present, nothing else, precedence pairs that matter)', floor=11)
    with r:
        fi = idx.func(SG + '.clean_input')
        if len(fi.params) != 2:
            raise AnalysisError('clean_input: signature changed: %s' % fi.params)
        param = fi.params[1]
        OPTS = ('case_sensitive', 'strip', 'strip_all', 'clean_spaces')
        required = {'LOWER': lambda v: not v['case_sensitive'], 'STRIP': lambda v: v['strip'], 'STRIPALL': lambda v: v['strip_all'],
                    'COLLAPSE': lambda v: v['clean_spaces']}
        names = dict((sid, text) for sid, _, text in REFERENCE)
        runs = []
        for bits in itertools.product((True, False), repeat=4):
            val = dict(zip(OPTS, bits))
            steps, init, retnode = extract_pipeline(idx, fi, val=val)
            runs.append((val, steps, retnode))
        r.ok('clean_input: starts from the given input', 'str(%s)' % param, fi.loc)
        # foreign / malformed transforms
        seen_bad = set()
        for val, steps, retnode in runs:
            for st in steps:
                sid, bad = classify_step(st)
                if bad and short(st.node) not in seen_bad:
                    seen_bad.add(short(st.node))
                    r.violation('clean_input: `%s`' % short(st.node, 60), bad + ' (executed e.g. with %s)' % _val_text(val),
                                lib.loc(fi, st.node), expected='only the transforms of Appendix A9', found=short(st.node, 60))
        # presence of each reference step per valuation
        order_problems = []
        for sid, _, text in REFERENCE:
            construct = 'clean_input: %s' % text
            missing, extra, present_somewhere = [], [], False
            for val, steps, retnode in runs:
                ids = [classify_step(st)[0] for st in steps]
                has = sid in ids
                present_somewhere = present_somewhere or has
                need = required[sid](val) if sid in required else True
                if sid == 'COLLAPSE' and val['strip_all'] and 'STRIPALL' in ids:
                    # after every space has been removed the collapse is a no-op: present or absent, both fine
                    if has and ids.index('COLLAPSE') < ids.index('STRIPALL') and not val['clean_spaces']:
                        extra.append((val, retnode))
                    continue
                if need and not has:
                    missing.append((val, retnode))
                if has and not need:
                    extra.append((val, retnode))
            if not present_somewhere:
                X.absent(r, construct, 'the step is missing from the pipeline', fi.loc, expected=text)
            elif missing:
                val, retnode = missing[0]
                r.violation(construct, 'with %s the step is not executed%s (%d of the 16 option valuations lack it)' % (
                    _val_text(val), (': the function has already returned at `%s`' % short(retnode, 60)) if retnode is not None and
                    retnode is not fi.node.body[-1] else '', len(missing)), lib.loc(fi, retnode) if retnode is not None else fi.loc,
                    expected=text, found='not applied when %s' % _val_text(val))
            elif extra:
                val, retnode = extra[0]
                r.violation(construct, 'with %s the step is executed although the option says otherwise (%d of the 16 valuations)'
                            % (_val_text(val), len(extra)), fi.loc, expected=text, found='applied when %s' % _val_text(val))
            else:
                r.ok(construct, 'executed exactly in the valuations that ask for it', fi.loc)
        for val, steps, retnode in runs:
            ids = [classify_step(st)[0] for st in steps]
            for a_, b_ in PRECEDENCE:
                if a_ in ids and b_ in ids and max(i for i, x in enumerate(ids) if x == a_) > min(i for i, x in enumerate(ids) if x == b_):
                    if (a_, b_) not in [p[:2] for p in order_problems]:
                        order_problems.append((a_, b_, val))
        r.check(not order_problems, 'clean_input: order of the steps', '%d precedence pairs hold in every valuation' % len(PRECEDENCE),
                'step order changes results: %s' % '; '.join('`%s` must precede `%s`' % (names[a_], names[b_]) for a_, b_, _ in order_problems[:3])
                + ' (a CR LF pair would become two spaces / a line break would survive strip_all or split a collapsed run)',
                fi.loc)


def _val_text(val):
    return ', '.join('%s=%s' % (k, val[k]) for k in ('case_sensitive', 'strip', 'strip_all', 'clean_spaces'))


def _guard_text(g):
    if not g:
        return 'unconditionally'
    return 'iff ' + ' and '.join(('%s' if v else 'not %s') % k for k, v in sorted(g))


# ----------------------------------------------------------------------------- D2 (roles)
def check_response_view(idx):
    """check_response with pure single-expression helper predicates the normaliser left behind (e.g. under `and`/`or`)
    inlined as expressions."""
    fi0 = idx.func(SG + '.check_response')
    partly = set((getattr(idx, 'normalization', None) or {}).get('inlined', {}) or {})      # inlined at some call sites, left at others
    view, done = X.inline_pure_calls(idx, fi0, only=set(getattr(idx, 'unreviewed', None) or []) | partly)
    X.settle_unreviewed(idx, done, {fi0.qualname})
    view = X.select_tables(view)         # `[row for row in TABLE if cond]` tested / indexed at its ends is read row by row
    if any(isinstance(n, ast.For) or (isinstance(n, ast.Assign) and isinstance(n.value, ast.IfExp)) for n in walk_own(view.node)):
        view = X.unrolled(view)          # loops over a literal table of rows (e.g. the two minimum checks) are read row by row
    return view


S_CLEAN = "self.clean_input(student_input)"
E_CLEAN = "self.clean_input(answer['expect'])"


def subject(e):
    """('S'|'E', cleaned?) for an expression denoting the submission / the expected string, else None."""
    if X.m(S_CLEAN, e) is not None:
        return 'S', True
    if X.m(E_CLEAN, e) is not None:
        return 'E', True
    if X.any_match(['student_input', 'str(student_input)'], e) is not None:
        return 'S', False
    if X.any_match(["answer['expect']", "str(answer['expect'])"], e) is not None:
        return 'E', False
    return None


def d2_roles(ctx, idx):
    r = ctx.rule('D2.ROLE', "the compared strings are clean_input(answer['expect']) and clean_input(student_input); the raw "
                 "values are used in no other way", floor=5)
    with r:
        fi = check_response_view(idx)
        if fi.params[:3] != ['self', 'answer', 'student_input']:
            raise AnalysisError('check_response: signature changed: %s' % fi.params)
        # the deciding comparison
        comps = []
        for n in walk_own(fi.node):
            if isinstance(n, ast.Compare) and len(n.ops) == 1 and isinstance(n.ops[0], (ast.Eq, ast.NotEq)):
                a = subject(lib.inline_locals(n.left, fi.node))
                b = subject(lib.inline_locals(n.comparators[0], fi.node))
                if a is not None and b is not None:
                    comps.append((n, a, b))
        if len(comps) != 1:
            raise AnalysisError('check_response: expected one comparison of the submission with the expected string, found %d'
                                % len(comps))
        n, a, b = comps[0]
        where = lib.loc(fi, n)
        r.check({a[0], b[0]} == {'S', 'E'}, 'check_response: equality test compares submission and expected string',
                'student vs expect', 'the equality test `%s` does not compare the submission with the expected string' % short(n), where)
        for who, cleaned in (a, b):
            label = 'submission' if who == 'S' else 'expected string'
            r.check(cleaned, 'check_response: the %s is cleaned before the comparison' % label, 'self.clean_input(...)',
                    'the %s enters the comparison `%s` without clean_input: cleaning is applied to one side only, so e.g. '
                    'padded or differently-cased input no longer matches' % (label, short(n)), where,
                    expected=S_CLEAN if who == 'S' else E_CLEAN)
        # every use of the raw values goes through clean_input (or into an error message)
        bad = []
        for x in walk_own(fi.node):
            if isinstance(x, ast.Name) and x.id == 'student_input' and isinstance(x.ctx, ast.Load):
                p = parent(x)
                if not (isinstance(p, ast.Call) and nf.callee_name(p) == 'clean_input' and p.args and p.args[0] is x):
                    bad.append(x)
            if isinstance(x, ast.Subscript) and isinstance(x.ctx, ast.Load) and X.m("answer['expect']", x) is not None:
                p = parent(x)
                if isinstance(p, ast.Call) and nf.callee_name(p) == 'clean_input' and p.args and p.args[0] is x:
                    continue
                if any(isinstance(a_, ast.Raise) for a_ in _ancestors_until_stmt(x)):
                    continue
                st = lib.enclosing_stmt(x)
                if isinstance(st, ast.Assign) and len(st.targets) == 1 and isinstance(st.targets[0], ast.Name) and \
                        _only_in_raise(fi.node, st.targets[0].id):
                    continue
                bad.append(x)
        r.check(not bad, 'check_response: raw submission / expected string only feed clean_input',
                'every use is the argument of self.clean_input (or an error message)',
                'the uncleaned %s is used in `%s`: minimums / validation / comparison must see the cleaned string'
                % (('submission' if isinstance(bad[0], ast.Name) else 'expected string') if bad else '',
                   short(lib.enclosing_stmt(bad[0]), 70) if bad else ''), lib.loc(fi, bad[0]) if bad else fi.loc)
        # clean_input is StringGrader's own
        calls = lib.calls_named(fi.node, 'clean_input')
        targets = set()
        for c in calls:
            ts, how = idx.resolve_call(getattr(fi, 'original', fi), c)
            targets |= {getattr(t, 'qualname', str(t)) for t in ts}
        r.check(targets == {SG + '.clean_input'}, 'check_response: clean_input resolves to StringGrader.clean_input',
                '%d call sites' % len(calls), 'clean_input resolves to %s' % sorted(targets), fi.loc)


def _ancestors_until_stmt(x):
    p = parent(x)
    while p is not None:
        yield p
        if isinstance(p, ast.stmt):
            return
        p = parent(p)


def _only_in_raise(fn, name):
    for n in walk_own(fn):
        if isinstance(n, ast.Name) and n.id == name and isinstance(n.ctx, ast.Load):
            if not any(isinstance(a, ast.Raise) for a in _ancestors_until_stmt(n)):
                return False
    return True


# ----------------------------------------------------------------------------- D3 (construction)
REGEX_FUNCS = {'re.fullmatch': 'fullmatch', 're.match': 'match', 're.search': 'search'}


def regex_tests(idx, fi):
    """[(call, method, pattern expr, subject expr)] of regular-expression tests in the function."""
    env = lib.local_env(fi.node)
    out = []
    for call in [c for c in walk_own(fi.node) if isinstance(c, ast.Call)]:
        dotted = idx.dotted_of(fi.module, call.func)
        if dotted in REGEX_FUNCS and len(call.args) >= 2:
            if len(call.args) > 2 or call.keywords:
                raise AnalysisError('regular-expression test with flags: %s' % short(call))
            out.append((call, REGEX_FUNCS[dotted], call.args[0], call.args[1]))
        elif isinstance(call.func, ast.Attribute) and call.func.attr in ('fullmatch', 'match', 'search') and call.args:
            recv = call.func.value
            if isinstance(recv, ast.Name) and recv.id in env:
                recv = env[recv.id]
            if isinstance(recv, ast.Call) and idx.dotted_of(fi.module, recv.func) == 're.compile' and recv.args:
                if len(recv.args) > 1 or recv.keywords or len(call.args) > 1 or call.keywords:
                    raise AnalysisError('re.compile / match with flags or positions: %s' % short(call))
                out.append((call, call.func.attr, recv.args[0], call.args[0]))
    return out


def d3_construction(ctx, idx):
    r = ctx.rule('D3.FULLMATCH', "every validation test is a full-match construction over the author's pattern, applied to "
                 "the cleaned answer and to the cleaned submission", floor=4)
    with r:
        fi = check_response_view(idx)

        def is_hole(e):
            return 'validation_pattern' if lib.is_config(e, 'validation_pattern') else None
        seen = []
        n = 0
        for call, method, pat, subj in regex_tests(idx, fi):
            try:
                parts = rx.fold(pat, fi.node, is_hole)
            except AnalysisError as e:
                r.undecided('check_response: `%s`' % short(call, 60), str(e), lib.loc(fi, call))
                n += 1
                continue
            if not any(isinstance(p, rx.Hole) for p in parts):
                continue
            n += 1
            verdict, why = rx.classify_fullmatch(method, parts)
            who = subject(lib.inline_locals(subj, fi.node))
            label = {'S': 'submission', 'E': 'answer', None: 'string'}[who[0] if who else None]
            construct = 'check_response: validation of the %s' % label
            if verdict == rx.FULL:
                r.ok(construct + ' [full match]', why, lib.loc(fi, call))
            elif verdict == rx.PARTIAL:
                r.violation(construct + ' [full match]', "`%s` is not a full match of the author's pattern: %s. The property needs "
                            "the pattern to match the entire cleaned string" % (short(call, 70), why), lib.loc(fi, call),
                            expected='re.fullmatch(pattern, s)', found='re.%s(%s, s)' % (method, rx.render(parts)))
            else:
                r.undecided(construct + ' [full match]', why, lib.loc(fi, call))
            if who is None:
                r.undecided(construct + ' [subject]', 'validated expression not recognised: %s' % short(subj), lib.loc(fi, call))
            else:
                seen.append(who[0])
                r.check(who[1], construct + ' [subject]', 'the cleaned string',
                        'the pattern is applied to the uncleaned %s (`%s`): the property validates the cleaned string'
                        % (label, short(subj)), lib.loc(fi, call))
        if n == 0:
            raise AnalysisError("no regular-expression test over config['validation_pattern'] found in check_response")
        if seen and sorted(set(seen)) != ['E', 'S']:
            X.absent(r, 'check_response: validation covers answer and submission',
                     'the validation pattern is applied to %s only' % ('the submission' if 'S' in seen else 'the answer'), fi.loc,
                     understood=False)


# ----------------------------------------------------------------------------- D3/D4 (decision)
WRONG_REC = {'ok': 'False', 'grade_decimal': '0', 'msg': "''"}
CORRECT_REC = {'ok': "answer['ok']", 'grade_decimal': "answer['grade_decimal']", 'msg': "answer['msg']"}


def make_guards(idx, fi):
    def is_pattern(e):
        return any(lib.is_config(x, 'validation_pattern') for x in ast.walk(e))

    def regex_subject(e):
        """'S'/'E' if e is a regular-expression test over the validation pattern, else None."""
        if not isinstance(e, ast.Call):
            return None
        dotted = idx.dotted_of(fi.module, e.func)
        if dotted in REGEX_FUNCS and len(e.args) >= 2 and is_pattern(e.args[0]):
            s = subject(e.args[1])
            return s[0] if s else None
        if isinstance(e.func, ast.Attribute) and e.func.attr in ('fullmatch', 'match', 'search') and e.args \
                and isinstance(e.func.value, ast.Call) and idx.dotted_of(fi.module, e.func.value.func) == 're.compile' \
                and e.func.value.args and is_pattern(e.func.value.args[0]):
            s = subject(e.args[0])
            return s[0] if s else None
        return None

    def none_test(e):
        """(operand, positive?) for `x is None` / `x == None` / negations."""
        if isinstance(e, ast.Compare) and len(e.ops) == 1 and isinstance(e.comparators[0], ast.Constant) \
                and e.comparators[0].value is None:
            if isinstance(e.ops[0], (ast.Is, ast.Eq)):
                return e.left, True
            if isinstance(e.ops[0], (ast.IsNot, ast.NotEq)):
                return e.left, False
        return None

    def atom(e):
        k = nf.config_key(e)
        if k in ('accept_any', 'accept_nonempty', 'debug'):
            return lambda w, k=k: w[k]
        nt = none_test(e)
        if nt is not None:
            operand, positive = nt
            if lib.is_config(operand, 'validation_pattern'):
                return lambda w: w['pattern_none'] == positive
            who = regex_subject(operand)
            if who is not None:
                key = 's_match' if who == 'S' else 'e_match'
                return lambda w: (not w[key]) == positive
            if isinstance(operand, (ast.Dict, ast.List, ast.Tuple, ast.Set, ast.JoinedStr)) or (
                    isinstance(operand, ast.Constant) and operand.value is not None):
                return lambda w: not positive          # a display / literal is an object, never None
            if isinstance(operand, ast.Call) and X.m("self.construct_message(__, __)", operand) is not None:
                # construct_message returns a grading record or raises (D4.POLICY decides that); where the comparison is
                # evaluated at all, the result is not None
                return lambda w: not positive
            return None
        who = regex_subject(e)
        if who is not None:
            key = 's_match' if who == 'S' else 'e_match'
            return lambda w: w[key]
        if isinstance(e, ast.Compare) and len(e.ops) == 1 and isinstance(e.ops[0], (ast.Eq, ast.NotEq)):
            a, b = subject(e.left), subject(e.comparators[0])
            if a and b and {a[0], b[0]} == {'S', 'E'}:
                eq = isinstance(e.ops[0], ast.Eq)
                return lambda w: w['equal'] == eq
        return None

    def term(e):
        if isinstance(e, ast.Constant) and isinstance(e.value, int) and not isinstance(e.value, bool):
            return lambda w, v=e.value: v
        k = nf.config_key(e)
        if k == 'min_length':
            return lambda w: w['ml']
        if k == 'min_words':
            return lambda w: w['mw']
        if isinstance(e, ast.Call) and isinstance(e.func, ast.Name) and e.func.id == 'len' and len(e.args) == 1:
            a = e.args[0]
            if subject(a) and subject(a)[0] == 'S':
                return lambda w: w['len']
            if isinstance(a, ast.Call) and isinstance(a.func, ast.Attribute) and a.func.attr == 'split' \
                    and subject(a.func.value) and subject(a.func.value)[0] == 'S':
                return lambda w: w['words']
        if isinstance(e, ast.Call) and isinstance(e.func, ast.Name) and e.func.id in ('max', 'min') and len(e.args) == 2 \
                and not e.keywords:
            a, b = term(e.args[0]), term(e.args[1])
            if a and b:
                f = max if e.func.id == 'max' else min
                return lambda w: f(a(w), b(w))
        if isinstance(e, ast.IfExp):
            a, b = term(e.body), term(e.orelse)
            if a and b:
                test = e.test
                return lambda w: a(w) if holder['g'].compile(nf.canon(test))(w) else b(w)
        return None
    holder = {}
    holder['g'] = X.Guards(atom, term)
    return holder['g']


def resolve_record(fi, e, depth=0):
    """A fresh copy (dict(C) / C.copy() / {**C}) of a module- or class-level constant bound once to a dict literal is read
    as that literal.  (Handing out the constant itself, without a copy, is C11's business and is not resolved here.)"""
    src = X.copy_source(e)
    if src is None or depth > 2:
        return e
    if isinstance(src, ast.Dict):
        return src
    v = None
    if isinstance(src, ast.Name):
        v = module_value(fi, src)
    elif isinstance(src, ast.Attribute) and isinstance(src.value, ast.Name) and src.value.id in ('self', 'cls') and fi.cls is not None:
        v = fi.cls.attrs.get(src.attr)
    if isinstance(v, ast.Dict):
        return v
    if v is not None:
        r2 = resolve_record(fi, v, depth + 1)
        if isinstance(r2, ast.Dict):
            return r2
    return e


def classify_leaf(p, fi=None):
    leaf = p.leaf
    if leaf.kind == 'raise':
        return ('raise', nf.exc_class_name(leaf.expr) if leaf.expr is not None else 're-raise')
    if leaf.kind == 'fall':
        return ('returns None',)
    e = resolve_record(fi, leaf.expr) if fi is not None else leaf.expr
    if isinstance(e, ast.Dict):
        if X.record_is(e, WRONG_REC):
            return ('zero record',)
        if X.record_is(e, CORRECT_REC):
            return ("answer's record",)
        return ('record %s' % short(e, 80),)
    if isinstance(e, ast.Call) and nf.callee_name(e) == 'construct_message' and len(e.args) == 2 and not e.keywords:
        msg, pol = e.args
        pk = nf.config_key(pol)
        if lib.is_config(msg, 'invalid_msg'):
            mk = 'invalid_msg'
        else:
            words = [c for c in ast.walk(msg) if isinstance(c, ast.Call) and isinstance(c.func, ast.Attribute) and c.func.attr == 'split']
            lens = [c for c in ast.walk(msg) if isinstance(c, ast.Call) and isinstance(c.func, ast.Name) and c.func.id == 'len']
            mk = 'word-count message' if words else ('character-count message' if lens else 'message %s' % short(msg, 40))
        return ('refuse', mk, pk or short(pol, 40))
    return ('unknown', 'returns %s' % short(e, 80))


def spec_outcome(w):
    accept = w['accept_any'] or w['accept_nonempty']
    if not w['pattern_none']:
        if not accept and not w['e_match']:
            return ('raise', 'ConfigError'), 'config'
        if not w['s_match']:
            return ('refuse', 'invalid_msg', 'explain_validation'), ('valid-accept' if accept else 'valid')
    if not accept:
        return (("answer's record",), 'equal') if w['equal'] else (('zero record',), 'differ')
    need = max(w['ml'], 1) if w['accept_nonempty'] else w['ml']
    if w['words'] < w['mw']:
        return ('refuse', 'word-count message', 'explain_minimums'), ('wins' if w['len'] < need else 'words')
    if w['len'] < need:
        return ('refuse', 'character-count message', 'explain_minimums'), ('nonempty' if (w['accept_nonempty'] and w['ml'] == 0) else 'short')
    return ("answer's record",), 'accepted'


GROUPS = {
    'config': 'check_response: an expected answer failing the pattern raises ConfigError (not in accept modes)',
    'valid': 'check_response: a submission failing the pattern is refused through construct_message(invalid_msg, explain_validation)',
    'valid-accept': 'check_response: the pattern applies in accept_any / accept_nonempty mode as well',
    'equal': "check_response: equal after cleaning => the answer's own ok / grade_decimal / msg",
    'differ': 'check_response: different after cleaning => zero record',
    'accepted': 'check_response: accept modes accept every submission meeting both minimums',
    'short': 'check_response: shorter than min_length => refused through construct_message(., explain_minimums)',
    'nonempty': 'check_response: accept_nonempty raises a zero min_length to 1',
    'words': 'check_response: fewer than min_words words => refused through construct_message(., explain_minimums)',
    'wins': 'check_response: the word-count message wins over the character-count message',
}
DOMAIN = {'accept_any': [False, True], 'accept_nonempty': [False, True], 'pattern_none': [True, False],
          'e_match': [True, False], 's_match': [True, False], 'equal': [True, False],
          'len': [0, 1, 2, 3], 'ml': [0, 1, 2, 3], 'words': [0, 1, 2], 'mw': [0, 1, 2]}


def world_text(w):
    bits = ['accept_any=%s' % w['accept_any'], 'accept_nonempty=%s' % w['accept_nonempty'],
            'validation_pattern %s' % ('is None' if w['pattern_none'] else 'given')]
    if not w['pattern_none']:
        bits += ['answer %s the pattern' % ('matches' if w['e_match'] else 'fails'),
                 'submission %s the pattern' % ('matches' if w['s_match'] else 'fails')]
    if not (w['accept_any'] or w['accept_nonempty']):
        bits.append('cleaned strings %s' % ('equal' if w['equal'] else 'differ'))
    else:
        bits += ['len(cleaned) %s min_length%s' % (_rel(w['len'], w['ml']), ' = 0' if w['ml'] == 0 else (' = 1' if w['ml'] == 1 else ' >= 2')),
                 'len(cleaned) %s 1' % _rel(w['len'], 1), 'words %s min_words' % _rel(w['words'], w['mw'])]
    return ', '.join(bits)


def _rel(a, b):
    return '<' if a < b else ('=' if a == b else '>')


def d34_decision(ctx, idx):
    r = ctx.rule('D34.DECISION', "check_response's decision tree, over the complete domain of its branch atoms, selects the leaf "
                 "the property prescribes", floor=10)
    with r:
        fi = check_response_view(idx)
        paths = nf.decision_paths(fi.node.body)
        guards = make_guards(idx, fi)
        compiled = [([guards.compile(g) for g in p.guards], classify_leaf(p, fi), p) for p in paths]
        tree = _path_tree(compiled, 0)
        stats = {}
        for w in X.worlds(DOMAIN):
            if w['equal'] and w['e_match'] != w['s_match']:
                continue          # equal strings cannot differ in matching
            want, group = spec_outcome(w)
            sel = [_descend(tree, w)] if tree is not None else [c for c in compiled if all(g(w) for g in c[0])]
            if len(sel) != 1:
                raise AnalysisError('decision paths are not exclusive/exhaustive (%d paths for one case)' % len(sel))
            got = sel[0][1]
            if got[0] == 'unknown':
                raise AnalysisError('leaf of the decision tree not recognised: %s' % got[1])
            st = stats.setdefault(group, {'n': 0, 'bad': []})
            st['n'] += 1
            if got != want:
                st['bad'].append((w, want, got, sel[0][2]))
        for group in GROUPS:
            st = stats.get(group)
            if not st:
                continue
            if st['bad']:
                w, want, got, p = st['bad'][0]
                r.violation(GROUPS[group], 'for %s the decision tree ends in %s, the property needs %s (%d of %d cases differ)'
                            % (world_text(w), _leaf_text(got), _leaf_text(want), len(st['bad']), st['n']),
                            lib.loc(fi, p.leaf.stmt) if p.leaf.stmt is not None else fi.loc,
                            expected=_leaf_text(want), found=_leaf_text(got))
            else:
                r.ok(GROUPS[group], '%d cases of the atom domain agree' % st['n'], fi.loc)


def _path_tree(entries, depth):
    """The decision paths share guard prefixes (each `if` contributes a test to one half and its negation to the other):
    arrange them as the binary tree they came from, so that one case costs a walk from the root instead of a scan of all
    paths.  None if the paths do not have that shape (the caller then scans)."""
    if len(entries) == 1 and len(entries[0][0]) == depth:
        return ('leaf', entries[0])
    if any(len(e[0]) <= depth for e in entries):
        return None
    key = lambda e: unparse(e[2].guards[depth])
    k0 = key(entries[0])
    left = [e for e in entries if key(e) == k0]
    right = [e for e in entries if key(e) != k0]
    if not right or len({key(e) for e in right}) != 1:
        return None
    lt, rt = _path_tree(left, depth + 1), _path_tree(right, depth + 1)
    if lt is None or rt is None:
        return None
    return ('node', left[0][0][depth], right[0][0][depth], lt, rt)


def _descend(tree, w):
    while tree[0] == 'node':
        a, b = tree[1](w), tree[2](w)
        if a == b:
            raise AnalysisError('decision paths are not exclusive/exhaustive (a test and its negation agree for one case)')
        tree = tree[3] if a else tree[4]
    return tree[1]


def _leaf_text(t):
    if t[0] == 'raise':
        return 'raise %s' % t[1]
    if t[0] == 'refuse':
        return 'construct_message(%s, %s)' % (t[1], t[2])
    return t[0]


# ----------------------------------------------------------------------------- D4 (words term, policy)
def d4_words(ctx, idx):
    r = ctx.rule('D4.WORDS', 'the word count is len(<cleaned submission>.split()) with no separator argument', floor=1)
    with r:
        fi = check_response_view(idx)
        n = 0
        for c in walk_own(fi.node):
            if isinstance(c, ast.Call) and isinstance(c.func, ast.Attribute) and c.func.attr == 'split':
                s = subject(lib.inline_locals(c.func.value, fi.node))
                if not s or s[0] != 'S':
                    continue
                n += 1
                r.check(not c.args and not c.keywords, 'check_response: word count of the submission', '.split() on white space',
                        "`%s` splits on an explicit separator: an empty string counts as one word and runs of spaces produce empty "
                        "words, so submissions with fewer than min_words words are accepted" % short(c),
                        lib.loc(fi, c), expected='.split()', found=short(c))
        if n == 0:
            raise AnalysisError('check_response: no word count (`.split`) of the submission found')


class PolicyModel(Model):
    """Module-level names bound once to a literal evaluate to (a copy of) that literal."""

    def global_name(self, name, module):
        vals = module.assigns.get(name, [])
        if len(vals) == 1:
            try:
                return ast.literal_eval(vals[0])
            except Exception:
                return NotImplemented
        return NotImplemented


def d4_policy(ctx, idx):
    r = ctx.rule('D4.POLICY', "construct_message over ('err','msg',None) x debug: 'err' raises InvalidInput(msg); 'msg' or debug "
                 "returns the zero record carrying the message; None returns the silent zero record", floor=3)
    with r:
        fi = idx.func(SG + '.construct_message')
        if fi.params[:3] != ['self', 'msg', 'msg_type']:
            raise AnalysisError('construct_message: signature changed: %s' % fi.params)
        names = {'err': "construct_message: 'err' raises InvalidInput carrying the message",
                 'msg': "construct_message: 'msg' (or debug mode) returns ok=False, grade 0 and the message",
                 None: 'construct_message: None (outside debug mode) returns ok=False, grade 0 and no message'}
        results = {}
        for policy in ('err', 'msg', None):
            for debug in (False, True):
                MSG = Sym('MSG')
                obj = Obj(SG, fields={'config': {'debug': debug}})
                try:
                    got = ('ret', Interp(idx, PolicyModel(), max_steps=2000).call_function(fi, [MSG, policy], self_obj=obj))
                except Raised as e:
                    got = ('raise', e.cls.split('.')[-1], e.eargs)
                except Budget:
                    got = ('loop',)
                if policy == 'err':
                    want = 'raise InvalidInput(msg)'
                elif policy == 'msg' or debug:
                    want = 'zero record with the message'
                else:
                    want = 'silent zero record'
                if got[0] == 'raise':
                    found = 'raise %s(%s)' % (got[1], 'msg' if (got[2] and got[2][0] is MSG) else '...')
                elif got[0] == 'ret' and isinstance(got[1], dict) and set(got[1]) == {'ok', 'grade_decimal', 'msg'} \
                        and got[1]['ok'] is False and got[1]['grade_decimal'] == 0:
                    found = 'zero record with the message' if got[1]['msg'] is MSG else (
                        'silent zero record' if got[1]['msg'] == '' else 'zero record with msg=%r' % (got[1]['msg'],))
                else:
                    found = 'returns %r' % (got[1],) if got[0] == 'ret' else 'no result'
                g = names['msg'] if (policy is None and debug) else names[policy]
                results.setdefault(g, []).append((policy, debug, want, found))
        for g, cases in results.items():
            bad = [c for c in cases if c[2] != c[3]]
            if bad:
                policy, debug, want, found = bad[0]
                r.violation(g, 'for msg_type=%r, debug=%s the code gives %s, the property needs %s' % (policy, debug, found, want),
                            fi.loc, expected=want, found=found)
            else:
                r.ok(g, '%d cases' % len(cases), fi.loc)


# ----------------------------------------------------------------------------- D5
def d5_call(ctx, idx):
    r = ctx.rule('D5.CALL', "__call__ passes '' for a missing expect exactly when accept_any or accept_nonempty is set and "
                 "delegates to ItemGrader.__call__", floor=2)
    with r:
        hook = None
        if idx.has_func(SG + '.__call__'):
            fi = idx.func(SG + '.__call__')
            if fi.params[:3] != ['self', 'expect', 'student_input']:
                raise AnalysisError('__call__: signature changed: %s' % fi.params)
        else:
            # no override: the inherited __call__ may hand `expect` to a hook first that StringGrader shadows
            base = None
            for cname in idx.cls(SG).mro[1:]:
                if idx.has_func(cname + '.__call__'):
                    base = idx.func(cname + '.__call__')
                    break
            if base is None or base.params[:3] != ['self', 'expect', 'student_input']:
                raise AnalysisError('anchor vanished: neither StringGrader.__call__ nor an inherited __call__(self, expect, student_input)')
            body = [s_ for s_ in base.node.body if not (isinstance(s_, ast.Expr) and isinstance(s_.value, ast.Constant))]
            b = X.m(X.spat("expect = self._H(expect)"), body[0]) if body else None
            hname = body[0].value.func.attr if body and isinstance(body[0], ast.Assign) and isinstance(body[0].value, ast.Call) \
                and isinstance(body[0].value.func, ast.Attribute) and X.is_name(body[0].value.func.value, 'self') \
                and len(body[0].value.args) == 1 and X.is_name(body[0].value.args[0], 'expect') and not body[0].value.keywords \
                and len(body[0].targets) == 1 and X.is_name(body[0].targets[0], 'expect') else None
            if hname is None or not idx.has_func(SG + '.' + hname):
                raise AnalysisError('anchor vanished: StringGrader.__call__ not found and %s.__call__ does not start with a hook on `expect` '
                                    'that StringGrader defines' % base.qualname)
            fi = idx.func(SG + '.' + hname)
            if fi.params[:2] != ['self', 'expect'] or len(fi.params) != 2:
                raise AnalysisError('%s: signature changed: %s' % (hname, fi.params))
            hook = hname
        paths = nf.decision_paths(fi.node.body)

        def atom(e):
            k = nf.config_key(e)
            if k in ('accept_any', 'accept_nonempty'):
                return lambda w, k=k: w[k]
            if isinstance(e, ast.Compare) and len(e.ops) == 1 and X.is_name(e.left, 'expect') and \
                    isinstance(e.comparators[0], ast.Constant) and e.comparators[0].value is None:
                if isinstance(e.ops[0], (ast.Is, ast.Eq)):
                    return lambda w: w['expect_none']
                if isinstance(e.ops[0], (ast.IsNot, ast.NotEq)):
                    return lambda w: not w['expect_none']
            return None
        guards = X.Guards(atom)
        g1 = "StringGrader.__call__: expect=None becomes '' in the accept modes only"
        g2 = 'StringGrader.__call__: a given expect is passed on unchanged'
        stats = {g1: [], g2: []}
        for w in X.worlds({'expect_none': [True, False], 'accept_any': [False, True], 'accept_nonempty': [False, True]}):
            sel = X.select_paths(paths, guards, w)
            if len(sel) != 1:
                raise AnalysisError('decision paths of __call__ are not exclusive')
            leaf = sel[0].leaf
            e = leaf.expr
            if hook is not None:
                if leaf.kind != 'ret' or e is None:
                    raise AnalysisError('%s does not end in a return of the value for expect: %s' % (hook, leaf))
                e = ast.Call(func=ast.Attribute(value=ast.Call(func=ast.Name(id='super', ctx=ast.Load()), args=[], keywords=[]), attr='__call__',
                                                ctx=ast.Load()), args=[e, ast.Name(id='student_input', ctx=ast.Load())], keywords=[])
            if leaf.kind != 'ret' or not (isinstance(e, ast.Call) and nf.callee_name(e) == '__call__'
                                          and isinstance(e.func, ast.Attribute) and isinstance(e.func.value, ast.Call)
                                          and nf.callee_name(e.func.value) == 'super' and len(e.args) >= 2):
                raise AnalysisError('__call__ does not end in super().__call__(...): %s' % leaf)
            if not X.is_name(e.args[1], 'student_input'):
                r.violation('StringGrader.__call__: the submission is passed on unchanged',
                            'ItemGrader.__call__ receives `%s` as the submission' % short(e.args[1]), lib.loc(fi, leaf.stmt))
            first = e.args[0]
            while isinstance(first, ast.IfExp):          # conditional expression in the argument: resolve it in this case
                first = first.body if guards.compile(nf.canon(first.test))(w) else first.orelse
            if isinstance(first, ast.Constant) and first.value == '':
                got = "''"
            elif X.is_name(first, 'expect') or (isinstance(first, ast.Constant) and first.value is None and w['expect_none']):
                got = 'expect'
            elif isinstance(first, ast.Constant):
                got = repr(first.value)
            else:
                raise AnalysisError('first argument of ItemGrader.__call__ not recognised: %s' % short(first))
            want = "''" if (w['expect_none'] and (w['accept_any'] or w['accept_nonempty'])) else 'expect'
            stats[g1 if w['expect_none'] else g2].append((w, want, got, leaf))
        for g, cases in stats.items():
            bad = [c for c in cases if c[1] != c[2]]
            if bad:
                w, want, got, leaf = bad[0]
                r.violation(g, 'for expect %s, accept_any=%s, accept_nonempty=%s ItemGrader.__call__ receives %s, the property needs %s'
                            % ('None' if w['expect_none'] else 'given', w['accept_any'], w['accept_nonempty'], got, want),
                            lib.loc(fi, leaf.stmt), expected=want, found=got)
            else:
                r.ok(g, '%d cases' % len(cases), fi.loc)


# ------------------------------------------------------------------------ self-test
_CLEAN_TAIL = ("        # Apply case sensitivity\n"
               "        if not self.config['case_sensitive']:\n"
               "            cleaned = cleaned.lower()\n"
               "\n"
               "        # Apply strip, strip_all and clean_spaces\n"
               "        if self.config['strip']:\n"
               "            cleaned = cleaned.strip()\n"
               "        if self.config['strip_all']:\n"
               "            cleaned = cleaned.replace(' ', '')\n"
               "        if self.config['clean_spaces']:\n"
               "            cleaned = re.sub(r' +', ' ', cleaned)\n")
_WS = ("        cleaned = cleaned.replace('\\t', ' ')\n"
       "        cleaned = cleaned.replace('\\r\\n', ' ')\n"
       "        cleaned = cleaned.replace('\\n\\r', ' ')\n"
       "        cleaned = cleaned.replace('\\r', ' ')\n"
       "        cleaned = cleaned.replace('\\n', ' ')\n")
_MIN_BLOCKS = ("            chars = len(student)\n"
               "            if chars < min_length:\n"
               "                msg = ('Your response is too short ({chars}/{min} characters)'\n"
               "                       ).format(chars=chars, min=min_length)\n"
               "\n"
               "            # Check for minimum word count (more important than character count)\n"
               "            words = len(student.split())\n"
               "            if words < self.config['min_words']:\n"
               "                msg = ('Your response is too short ({words}/{min} words)'\n"
               "                       ).format(words=words, min=self.config['min_words'])\n")
_MIN_BLOCKS_SWAPPED = ("            words = len(student.split())\n"
                       "            if words < self.config['min_words']:\n"
                       "                msg = ('Your response is too short ({words}/{min} words)'\n"
                       "                       ).format(words=words, min=self.config['min_words'])\n"
                       "\n"
                       "            chars = len(student)\n"
                       "            if chars < min_length:\n"
                       "                msg = ('Your response is too short ({chars}/{min} characters)'\n"
                       "                       ).format(chars=chars, min=min_length)\n")

_W5I_CONSTS = ("            Required('invalid_msg', default='Your input is not in the expected format'): str\n            })\n", "            Required('invalid_msg', default='Your input is not in the expected format'): str\n            })\n\n    SPACE_LIKE = ('\\t', '\\r\\n', '\\n\\r', '\\r', '\\n')\n    MULTIPLE_SPACES = re.compile(r' +')\n")
_W5I_OLD = "        cleaned = cleaned.replace('\\t', ' ')\n        cleaned = cleaned.replace('\\r\\n', ' ')\n        cleaned = cleaned.replace('\\n\\r', ' ')\n        cleaned = cleaned.replace('\\r', ' ')\n        cleaned = cleaned.replace('\\n', ' ')\n\n        # Apply case sensitivity\n        if not self.config['case_sensitive']:\n            cleaned = cleaned.lower()\n\n        # Apply strip, strip_all and clean_spaces\n        if self.config['strip']:\n            cleaned = cleaned.strip()\n        if self.config['strip_all']:\n            cleaned = cleaned.replace(' ', '')\n        if self.config['clean_spaces']:\n            cleaned = re.sub(r' +', ' ', cleaned)\n\n        return cleaned\n\n"
_W5I_HEAD = "        for sequence in self.SPACE_LIKE:\n            cleaned = cleaned.replace(sequence, ' ')\n\n"
_W5I_SLIP = "        if self.config['strip']:\n            cleaned = cleaned.strip()\n        if self.config['strip_all']:\n            return cleaned.replace(' ', '')\n        if self.config['clean_spaces']:\n            cleaned = self.MULTIPLE_SPACES.sub(' ', cleaned)\n\n        return cleaned if self.config['case_sensitive'] else cleaned.lower()\n\n"
_W5I_FIXED = "        if self.config['strip']:\n            cleaned = cleaned.strip()\n        if self.config['strip_all']:\n            cleaned = cleaned.replace(' ', '')\n        elif self.config['clean_spaces']:\n            cleaned = self.MULTIPLE_SPACES.sub(' ', cleaned)\n\n        return cleaned if self.config['case_sensitive'] else cleaned.lower()\n\n"
_W5I_FIXED2 = "        if not self.config['case_sensitive']:\n            cleaned = cleaned.lower()\n\n        if self.config['strip']:\n            cleaned = cleaned.strip()\n        if self.config['strip_all']:\n            return cleaned.replace(' ', '')\n        if self.config['clean_spaces']:\n            cleaned = self.MULTIPLE_SPACES.sub(' ', cleaned)\n\n        return cleaned\n\n"

_W5J_HELPER = ('    def check_response(self, answer, student_input, **kwargs):\n', "    def satisfies_pattern(self, text):\n        pattern = self.config['validation_pattern']\n        return pattern is None or re.fullmatch(pattern, text) is not None\n\n    def check_response(self, answer, student_input, **kwargs):\n")
_W5J_BODY = ('        # Apply the validation pattern\n        pattern = self.config[\'validation_pattern\']\n        if pattern is not None:\n            # The pattern must match the entire input (fullmatch, rather than\n            # appending "$", so that alternations like \'cat|dog\' are anchored too)\n            if not accept_any:\n                # Make sure that expect matches the pattern\n                # If it doesn\'t, a student can never get this right\n                if re.fullmatch(pattern, expect) is None:\n                    msg = "The provided answer \'{}\' does not match the validation pattern \'{}\'"\n                    raise ConfigError(msg.format(answer[\'expect\'], pattern))\n\n            # Check to see if the student input matches the validation pattern\n            if re.fullmatch(pattern, student) is None:\n                return self.construct_message(self.config[\'invalid_msg\'],\n                                              self.config[\'explain_validation\'])\n\n', '        if not accept_any and not self.satisfies_pattern(expect):\n            msg = "The provided answer \'{}\' does not match the validation pattern \'{}\'"\n            raise ConfigError(msg.format(answer[\'expect\'], self.config[\'validation_pattern\']))\n\n        if not self.satisfies_pattern(%s):\n            return self.construct_message(self.config[\'invalid_msg\'],\n                                          self.config[\'explain_validation\'])\n\n')

_W5R_TABLE = ("            msg = None\n            chars = len(student)\n            if chars < min_length:\n                msg = ('Your response is too short ({chars}/{min} characters)'\n                       ).format(chars=chars, min=min_length)\n\n            # Check for minimum word count (more important than character count)\n            words = len(student.split())\n            if words < self.config['min_words']:\n                msg = ('Your response is too short ({words}/{min} words)'\n                       ).format(words=words, min=self.config['min_words'])\n\n", "            requirements = ((len(student), min_length, 'characters'),\n                            (len(student.split()), self.config['min_words'], 'words'))\n            msg = None\n            for count, minimum, units in requirements:\n                if count < minimum:\n                    msg = 'Your response is too short ({count}/{min} {units})'.format(count=count, min=minimum, units=units)\n\n")

_W6_HELPERS = ('    def check_response(self, answer, student_input, **kwargs):\n', '    def check_pattern(self, answer, expect, student, accept_any):\n        """Returns the result for a student input that fails validation_pattern, else None"""\n        pattern = self.config[\'validation_pattern\']\n        if pattern is None:\n            return None\n\n        # The pattern must match the entire input (fullmatch, rather than\n        # appending "$", so that alternations like \'cat|dog\' are anchored too)\n        # If expect doesn\'t match the pattern, a student can never get this right\n        if not accept_any and re.fullmatch(pattern, expect) is None:\n            msg = "The provided answer \'{}\' does not match the validation pattern \'{}\'"\n            raise ConfigError(msg.format(answer[\'expect\'], pattern))\n        # Check to see if the student input matches the validation pattern\n        if re.fullmatch(pattern, student) is None:\n            return self.construct_message(self.config[\'invalid_msg\'],\n                                          self.config[\'explain_validation\'])\n        return None\n\n    def check_minimums(self, student, min_length):\n        """Returns the result for a student input that is too short, else None"""\n        minimums = [(len(student), min_length, \'characters\'),\n                    (len(student.split()), self.config[\'min_words\'], \'words\')]\n        shortfalls = [row for row in minimums if row[0] < row[1]]\n        if not shortfalls:\n            return None\n        # Give student feedback (word count is more important than character count)\n        count, minimum, unit = shortfalls[-1]\n        msg = (\'Your response is too short ({count}/{min} {unit})\'\n               ).format(count=count, min=minimum, unit=unit)\n        return self.construct_message(msg, self.config[\'explain_minimums\'])\n\n    def check_response(self, answer, student_input, **kwargs):\n')
_W6_BODY = ('        # Apply the validation pattern\n        pattern = self.config[\'validation_pattern\']\n        if pattern is not None:\n            # The pattern must match the entire input (fullmatch, rather than\n            # appending "$", so that alternations like \'cat|dog\' are anchored too)\n            if not accept_any:\n                # Make sure that expect matches the pattern\n                # If it doesn\'t, a student can never get this right\n                if re.fullmatch(pattern, expect) is None:\n                    msg = "The provided answer \'{}\' does not match the validation pattern \'{}\'"\n                    raise ConfigError(msg.format(answer[\'expect\'], pattern))\n\n            # Check to see if the student input matches the validation pattern\n            if re.fullmatch(pattern, student) is None:\n                return self.construct_message(self.config[\'invalid_msg\'],\n                                              self.config[\'explain_validation\'])\n\n        # Perform the comparison\n        if not accept_any:\n            # Check for a match to expect\n            if student != expect:\n                return {\'ok\': False, \'grade_decimal\': 0, \'msg\': \'\'}\n        else:\n            # Check for the minimum length\n            msg = None\n            chars = len(student)\n            if chars < min_length:\n                msg = (\'Your response is too short ({chars}/{min} characters)\'\n                       ).format(chars=chars, min=min_length)\n\n            # Check for minimum word count (more important than character count)\n            words = len(student.split())\n            if words < self.config[\'min_words\']:\n                msg = (\'Your response is too short ({words}/{min} words)\'\n                       ).format(words=words, min=self.config[\'min_words\'])\n\n            # Give student feedback\n            if msg:\n                return self.construct_message(msg,\n                                              self.config[\'explain_minimums\'])\n\n', "        # Apply the validation pattern, then perform the comparison\n        refusal = self.check_pattern(answer, expect, %s, accept_any)\n        if refusal is None:\n            if accept_any:\n                refusal = self.check_minimums(student, min_length)\n            elif student != expect:\n                refusal = {'ok': False, 'grade_decimal': 0, 'msg': ''}\n        if refusal is not None:\n            return refusal\n\n")

_W6R_STEPS = ('    def clean_input(self, input):\n', "    _CLEANING_STEPS = (\n        ('case_sensitive', False, lambda text: text.lower()),\n        ('strip', True, lambda text: text.@@STRIP@@()),\n        ('strip_all', True, lambda text: text.replace(' ', '')),\n        ('clean_spaces', True, lambda text: re.sub(r' +', ' ', text)),\n    )\n\n    def clean_input(self, input):\n")
_W6R_LOOP = ("        # Apply case sensitivity\n        if not self.config['case_sensitive']:\n            cleaned = cleaned.lower()\n\n        # Apply strip, strip_all and clean_spaces\n        if self.config['strip']:\n            cleaned = cleaned.strip()\n        if self.config['strip_all']:\n            cleaned = cleaned.replace(' ', '')\n        if self.config['clean_spaces']:\n            cleaned = re.sub(r' +', ' ', cleaned)\n\n", '        for option, active_when, transform in self._CLEANING_STEPS:\n            if bool(self.config[option]) is active_when:\n                cleaned = transform(cleaned)\n\n')

MUTANTS = [
    Mutant('cleaning-table-strips-left-only', SGF, [(_W6R_STEPS[0], _W6R_STEPS[1].replace('@@STRIP@@', 'lstrip')), _W6R_LOOP], None, 'D1'),
    Mutant('minimums-helper-reports-first-shortfall', SGF, [(_W6_HELPERS[0], _W6_HELPERS[1].replace('shortfalls[-1]', 'shortfalls[0]')), (_W6_BODY[0], _W6_BODY[1] % 'student')], None, 'D34'),
    Mutant('check-pattern-given-uncleaned-submission', SGF, [_W6_HELPERS, (_W6_BODY[0], _W6_BODY[1] % 'student_input')], None, 'D2'),
    Mutant('minimums-table-compares-with-le', SGF, _W5R_TABLE[0], _W5R_TABLE[1].replace('count < minimum', 'count <= minimum'), 'D34'),
    Mutant('pattern-helper-given-uncleaned-submission', SGF, [_W5J_HELPER, (_W5J_BODY[0], _W5J_BODY[1] % 'student_input')], None, 'D2'),
    Mutant('strip-all-returns-before-case-fold', SGF, [_W5I_CONSTS, (_W5I_OLD, _W5I_HEAD + _W5I_SLIP)], None, 'D1'),
    Mutant('expect-not-cleaned', SGF, "        expect = self.clean_input(answer['expect'])", "        expect = str(answer['expect'])", 'D2'),
    Mutant('submission-not-cleaned', SGF, "        student = self.clean_input(student_input)", "        student = str(student_input)", 'D2'),
    Mutant('cr-before-crlf', SGF, "        cleaned = cleaned.replace('\\r\\n', ' ')\n        cleaned = cleaned.replace('\\n\\r', ' ')\n        cleaned = cleaned.replace('\\r', ' ')\n",
           "        cleaned = cleaned.replace('\\r', ' ')\n        cleaned = cleaned.replace('\\r\\n', ' ')\n        cleaned = cleaned.replace('\\n\\r', ' ')\n", 'D1'),
    Mutant('whitespace-conversion-last', SGF, _WS + "\n" + _CLEAN_TAIL, _CLEAN_TAIL + "\n" + _WS, 'D1'),
    Mutant('case-flag-inverted', SGF, "        if not self.config['case_sensitive']:", "        if self.config['case_sensitive']:", 'D1'),
    Mutant('strip-unconditional', SGF, "        if self.config['strip']:\n            cleaned = cleaned.strip()", "        cleaned = cleaned.strip()", 'D1'),
    Mutant('lstrip-only', SGF, "            cleaned = cleaned.strip()", "            cleaned = cleaned.lstrip()", 'D1'),
    Mutant('strip-all-under-strip-flag', SGF, "        if self.config['strip_all']:", "        if self.config['strip']:", 'D1'),
    Mutant('extra-replace', SGF, "        cleaned = cleaned.replace('\\t', ' ')\n", "        cleaned = cleaned.replace('\\t', ' ')\n        cleaned = cleaned.replace('-', ' ')\n", 'D1'),
    Mutant('tab-deleted', SGF, "        cleaned = cleaned.replace('\\t', ' ')", "        cleaned = cleaned.replace('\\t', '')", 'D1'),
    Mutant('collapse-any-whitespace', SGF, "re.sub(r' +', ' ', cleaned)", "re.sub(r'\\s+', ' ', cleaned)", 'D1'),
    Mutant('collapse-single-pass-replace', SGF, "re.sub(r' +', ' ', cleaned)", "cleaned.replace('  ', ' ')", 'D1'),
    Mutant('collapse-star', SGF, "re.sub(r' +', ' ', cleaned)", "re.sub(r' *', ' ', cleaned)", 'D1'),
    Mutant('collapse-to-nothing', SGF, "re.sub(r' +', ' ', cleaned)", "re.sub(r' +', '', cleaned)", 'D1'),
    Mutant('lf-forgotten', SGF, "        cleaned = cleaned.replace('\\n', ' ')\n", "", 'D1'),
    Mutant('collapse-under-strip-flag', SGF, "        if self.config['clean_spaces']:\n            cleaned = re.sub", "        if self.config['strip']:\n            cleaned = re.sub", 'D1'),
    Mutant('validation-by-search', SGF, "            if re.fullmatch(pattern, student) is None:", "            if re.search(pattern, student) is None:", 'D3'),
    Mutant('validation-dollar-appended', SGF, "            if re.fullmatch(pattern, student) is None:", "            if re.match(pattern + \"$\", student) is None:", 'D3'),
    Mutant('validation-prefix-match', SGF, "            if re.fullmatch(pattern, student) is None:", "            if re.match(pattern, student) is None:", 'D3'),
    Mutant('answer-validation-dollar-appended', SGF, "                if re.fullmatch(pattern, expect) is None:", "                if re.match(pattern + '$', expect) is None:", 'D3'),
    Mutant('validation-on-raw-input', SGF, "            if re.fullmatch(pattern, student) is None:", "            if re.fullmatch(pattern, student_input) is None:", 'D3'),
    Mutant('validation-skipped-in-accept-modes', SGF, "        if pattern is not None:", "        if pattern is not None and not accept_any:", 'D34'),
    Mutant('answer-validated-in-accept-modes', SGF, "            if not accept_any:\n                # Make sure that expect matches the pattern", "            if accept_any:\n                # Make sure that expect matches the pattern", 'D34'),
    Mutant('validation-policy-from-minimums', SGF, "                                              self.config['explain_validation'])", "                                              self.config['explain_minimums'])", 'D34'),
    Mutant('answer-mismatch-error-class', SGF, "                    raise ConfigError(msg.format(answer['expect'], pattern))", "                    raise InvalidInput(msg.format(answer['expect'], pattern))", 'D34'),
    Mutant('min-length-inclusive', SGF, "            if chars < min_length:", "            if chars <= min_length:", 'D34'),
    Mutant('min-words-inclusive', SGF, "            if words < self.config['min_words']:", "            if words <= self.config['min_words']:", 'D34'),
    Mutant('nonempty-not-enforced', SGF, "        if self.config['accept_nonempty'] and min_length == 0:\n            min_length = 1\n", "", 'D34'),
    Mutant('nonempty-lowers-min-length', SGF, "        if self.config['accept_nonempty'] and min_length == 0:", "        if self.config['accept_nonempty']:", 'D34'),
    Mutant('nonempty-replaces-min-length', SGF, "        min_length = self.config['min_length']\n        if self.config['accept_nonempty'] and min_length == 0:\n            min_length = 1\n",
           "        min_length = 1 if self.config['accept_nonempty'] else self.config['min_length']\n", 'D34'),
    Mutant('char-message-wins', SGF, _MIN_BLOCKS, _MIN_BLOCKS_SWAPPED, 'D34'),
    Mutant('words-split-on-single-space', SGF, "            words = len(student.split())", "            words = len(student.split(' '))", 'D4'),
    Mutant('length-of-raw-input', SGF, "            chars = len(student)", "            chars = len(student_input)", 'D2'),
    Mutant('minimums-policy-from-validation', SGF, "                                              self.config['explain_minimums'])", "                                              self.config['explain_validation'])", 'D34'),
    Mutant('policy-err-msg-exchanged', SGF, "        if msg_type == 'err':", "        if msg_type == 'msg':", 'D4'),
    Mutant('policy-debug-ignored', SGF, "        elif msg_type == 'msg' or self.config['debug']:", "        elif msg_type == 'msg':", 'D4'),
    Mutant('policy-none-shows-message', SGF, "        elif msg_type == 'msg' or self.config['debug']:", "        else:", 'D4'),
    Mutant('equality-inverted', SGF, "            if student != expect:", "            if student == expect:", 'D34'),
    Mutant('correct-result-pinned', SGF, "            'ok': answer['ok'],", "            'ok': True,", 'D34'),
    Mutant('call-ignores-accept-nonempty', SGF, "        if expect is None and (self.config['accept_any'] or self.config['accept_nonempty']):", "        if expect is None and self.config['accept_any']:", 'D5'),
    Mutant('call-overrides-given-expect', SGF, "        if expect is None and (self.config['accept_any'] or self.config['accept_nonempty']):", "        if expect is None or (self.config['accept_any'] or self.config['accept_nonempty']):", 'D5'),
]

BENIGN = [
    Benign('cleaning-steps-as-ordered-table', SGF, [(_W6R_STEPS[0], _W6R_STEPS[1].replace('@@STRIP@@', 'strip')), _W6R_LOOP], None),
    Benign('pattern-and-minimums-in-helpers', SGF, [_W6_HELPERS, (_W6_BODY[0], _W6_BODY[1] % 'student')], None),
    Benign('minimums-as-ordered-table', SGF, _W5R_TABLE[0], _W5R_TABLE[1]),
    Benign('pattern-test-in-helper', SGF, [_W5J_HELPER, (_W5J_BODY[0], _W5J_BODY[1] % 'student')], None),
    Benign('case-fold-last-strip-all-elif', SGF, [_W5I_CONSTS, (_W5I_OLD, _W5I_HEAD + _W5I_FIXED)], None),
    Benign('strip-all-early-return-after-case-fold', SGF, [_W5I_CONSTS, (_W5I_OLD, _W5I_HEAD + _W5I_FIXED2)], None),
    Benign('zero-record-copied-from-constant', SGF, "            if student != expect:\n                return {'ok': False, 'grade_decimal': 0, 'msg': ''}",
           "            if student != expect:\n                return dict({'ok': False, 'grade_decimal': 0, 'msg': ''})"),
    Benign('too-short-message-by-concatenation', SGF, "                msg = ('Your response is too short ({words}/{min} words)'\n                       ).format(words=words, min=self.config['min_words'])",
           "                msg = 'Your response is too short ' + f\"({words}/{self.config['min_words']} words)\""),
    Benign('whitespace-mapping-as-loop', SGF, _WS, "        for token in ('\\t', '\\r\\n', '\\n\\r', '\\r', '\\n'):\n            cleaned = cleaned.replace(token, ' ')\n"),
    Benign('collapse-with-compiled-pattern', SGF, "            cleaned = re.sub(r' +', ' ', cleaned)\n", "            spaces = re.compile(r' +')\n            cleaned = spaces.sub(' ', cleaned)\n"),
    Benign('comparison-as-elif', SGF, "        if not accept_any:\n            # Check for a match to expect\n            if student != expect:\n                return {'ok': False, 'grade_decimal': 0, 'msg': ''}\n        else:",
           "        if not accept_any and student != expect:\n            return {'ok': False, 'grade_decimal': 0, 'msg': ''}\n        elif accept_any:"),
    Benign('validation-test-by-truthiness', SGF, "            if re.fullmatch(pattern, student) is None:", "            if not re.fullmatch(pattern, student):"),
    Benign('fullmatch-as-grouped-match', SGF, "            if re.fullmatch(pattern, student) is None:", "            if re.match('(?:' + pattern + r')\\Z', student) is None:"),
    Benign('compiled-validator', SGF, "            if re.fullmatch(pattern, student) is None:", "            validator = re.compile(pattern)\n            if validator.fullmatch(student) is None:"),
    Benign('crlf-lfcr-exchanged', SGF, "        cleaned = cleaned.replace('\\r\\n', ' ')\n        cleaned = cleaned.replace('\\n\\r', ' ')\n",
           "        cleaned = cleaned.replace('\\n\\r', ' ')\n        cleaned = cleaned.replace('\\r\\n', ' ')\n"),
    Benign('collapse-two-or-more', SGF, "re.sub(r' +', ' ', cleaned)", "re.sub(r' {2,}', ' ', cleaned)"),
    Benign('collapse-by-loop', SGF, "            cleaned = re.sub(r' +', ' ', cleaned)\n", "            while '  ' in cleaned:\n                cleaned = cleaned.replace('  ', ' ')\n"),
    Benign('strip-all-else-clean-spaces', SGF, "        if self.config['clean_spaces']:\n            cleaned = re.sub", "        elif self.config['clean_spaces']:\n            cleaned = re.sub"),
    Benign('nonempty-by-conditional-expression', SGF, "        min_length = self.config['min_length']\n        if self.config['accept_nonempty'] and min_length == 0:\n            min_length = 1\n",
           "        min_length = max(self.config['min_length'], 1 if self.config['accept_nonempty'] else 0)\n"),
    Benign('nonempty-by-max', SGF, "        if self.config['accept_nonempty'] and min_length == 0:\n            min_length = 1\n",
           "        if self.config['accept_nonempty']:\n            min_length = max(min_length, 1)\n"),
    Benign('case-fold-first', SGF, "        cleaned = str(input)\n", "        cleaned = str(input)\n        if not self.config['case_sensitive']:\n            cleaned = cleaned.lower()\n"),
    Benign('strip-before-line-break-mapping', SGF, "        cleaned = str(input)\n", "        cleaned = str(input)\n        if self.config['strip']:\n            cleaned = cleaned.strip()\n"),
    Benign('chained-replaces', SGF, "        cleaned = cleaned.replace('\\r', ' ')\n        cleaned = cleaned.replace('\\n', ' ')\n", "        cleaned = cleaned.replace('\\r', ' ').replace('\\n', ' ')\n"),
    Benign('equality-positive-form', SGF, "            if student != expect:\n                return {'ok': False, 'grade_decimal': 0, 'msg': ''}",
           "            if not (student == expect):\n                return {'ok': False, 'grade_decimal': 0, 'msg': ''}"),
    Benign('record-keys-reordered', SGF, "                return {'ok': False, 'grade_decimal': 0, 'msg': ''}\n        else:", "                return {'msg': '', 'ok': False, 'grade_decimal': 0}\n        else:"),
]
