"""C18 -- StringGrader matches exactly the inputs equal after the configured cleaning.

D1/D2/D4/D5 are decided by bounded evaluation (E7d, `_c13_enum`) of the syntax trees of
`clean_input`, `check_response`, `construct_message` and `__call__` over a finite domain taken from
the property statement, compared with the reference of Appendix A9.  D3 additionally analyses the
*construction* of the validation test with the regex term analysis of E9 (`_c13_regex`): the
author's pattern is a hole standing for an arbitrary regular expression, so whether the test is a
full match cannot be seen on probe patterns alone.  Nothing of /repo is imported or executed.
"""
import ast
import itertools
import re

from ..index import AnalysisError, walk_own, short
from .. import nf, lib
from ..selftest import Mutant, Benign
from ._c13_enum import Interp, Model, Obj, Sym, Native, Raised, Budget, describe
from . import _c13_regex as rx

ID = 'C18'
SGF = 'mitxgraders/stringgrader.py'
FILES = [SGF]

EXPLANATION = (
    "(D1) clean_input, evaluated by the checker's bounded evaluator under all 16 combinations of the four "
    "cleaning flags on probe strings covering both letter cases, digits, punctuation, non-ASCII letters, space, "
    "TAB, CR, LF, CRLF, LFCR and other white space, equals the reference pipeline of Appendix A9 (line breaks and "
    "tabs to spaces; case folded iff not case_sensitive; ends trimmed iff strip; spaces deleted iff strip_all; runs "
    "collapsed iff clean_spaces; nothing else); (D2) check_response grades correct exactly the submissions whose "
    "cleaned form equals the cleaned expected string, under all 16 flag combinations, and returns the answer's own "
    "ok/grade/msg; (D3) every validation test is a full-match construction over the author's pattern (regex term "
    "analysis with the pattern as a hole), it is applied to the cleaned answer (ConfigError, only when not "
    "accepting anything) and to the cleaned submission in every mode, and a failing submission follows "
    "explain_validation; (D4) accept_any/accept_nonempty: minimum length (at least 1 for accept_nonempty) and "
    "minimum word count on the cleaned submission, the word message wins, refusal follows explain_minimums; "
    "construct_message's policy table ('err' raises InvalidInput, 'msg' or debug shows the message, None is a silent "
    "zero); (D5) __call__ substitutes '' for a missing expect exactly in the accept modes.")
NOT_DECIDED = ("Python's str/re semantics (trusted model); inputs outside the probe set; the wording of messages; "
               "ItemGrader.__call__'s handling of the answers list (C08/C11).")
ASSUMPTIONS = ["str methods and the stdlib re module behave as documented (they are the evaluation model for string values)",
               "cleaned strings contain no line breaks, so `$` and `\\Z` coincide in a full-match construction"]

SG = 'mitxgraders.stringgrader.StringGrader'


def check(ctx):
    idx = ctx.index
    d1_clean(ctx, idx)
    d2_equal(ctx, idx)
    d3_construction(ctx, idx)
    d3_validation(ctx, idx)
    d4_minimums(ctx, idx)
    d4_policy(ctx, idx)
    d5_call(ctx, idx)


def _name(cls):
    return cls.split('.')[-1] if isinstance(cls, str) else cls


class Groups(object):
    def __init__(self, rule, where):
        self.rule = rule
        self.where = where
        self.groups = {}
        self.order = []

    def case(self, group, ok, scenario, expected, found):
        g = self.groups.setdefault(group, {'n': 0, 'bad': []})
        if group not in self.order:
            self.order.append(group)
        g['n'] += 1
        if not ok:
            g['bad'].append((scenario, expected, found))

    def flush(self):
        for group in self.order:
            g = self.groups[group]
            if g['bad']:
                sc, exp, fnd = g['bad'][0]
                self.rule.violation(group, 'for %s the code gives %s, the property needs %s (%d of %d cases differ)'
                                    % (sc, fnd, exp, len(g['bad']), g['n']), self.where, expected=str(exp), found=str(fnd))
            else:
                self.rule.ok(group, '%d cases agree with the reference' % g['n'], self.where)


def outcome(fn):
    try:
        return ('ret', fn())
    except Raised as r:
        return ('raise', _name(r.cls), r.eargs)
    except Budget:
        return ('loop', None)


def show(res):
    if res[0] == 'raise':
        return 'raise %s' % res[1]
    if res[0] == 'loop':
        return 'no result within the step bound'
    return 'returns %r' % (res[1],)


# ------------------------------------------------------------------ reference (Appendix A9)
def ref_clean(s, case_sensitive, strip, strip_all, clean_spaces):
    s = str(s)
    out = []
    i = 0
    while i < len(s):
        if s[i:i + 2] in ('\r\n', '\n\r'):
            out.append(' ')
            i += 2
        elif s[i] in '\t\r\n':
            out.append(' ')
            i += 1
        else:
            out.append(s[i])
            i += 1
    s = ''.join(out)
    if not case_sensitive:
        s = s.lower()
    if strip:
        s = s.strip()
    if strip_all:
        s = s.replace(' ', '')
    if clean_spaces:
        while '  ' in s:
            s = s.replace('  ', ' ')
    return s


FLAGS = ('case_sensitive', 'strip', 'strip_all', 'clean_spaces')
DEFAULTS = {'case_sensitive': True, 'strip': True, 'strip_all': False, 'clean_spaces': True,
            'accept_any': False, 'accept_nonempty': False, 'min_length': 0, 'min_words': 0,
            'explain_minimums': 'err', 'validation_pattern': None, 'explain_validation': 'err',
            'invalid_msg': 'NOT-IN-FORMAT', 'debug': False}

PROBES = ['cat', ' Cat ', '  two  spaces  ', 'a\tb', 'a\r\nb', 'a\n\rb', 'a\rb', 'a\nb', 'a \n b', '\tx\n', 'MiXeD Case',
          'Éa Ωb', 'a-b_c.d,e;f', "it's 42!", 'a\x0bb', 'a\u00a0b', '', ' ', 'a  \t  b', ' a\r\n b\n\rc\td ',
          '  A  B  ', 'a   b', 'a    b', '12 34', 'x\r\r\ny', '\r\nab\r\n', 'tab\t\tTAB', 'a/b\\c', '(x) [y] {z}', 'q r']


def flag_label(cfg):
    return ', '.join('%s=%s' % (k, cfg[k]) for k in FLAGS)


def grader(cfg, stubs=None):
    c = dict(DEFAULTS)
    c.update(cfg)
    return Obj(SG, fields={'config': c}, stubs=stubs or {})


def all_flags():
    for vals in itertools.product((True, False), repeat=4):
        yield dict(zip(FLAGS, vals))


# ----------------------------------------------------------------------------- D1
def d1_clean(ctx, idx):
    r = ctx.rule('D1.CLEAN', 'clean_input equals the reference cleaning pipeline under all 16 flag combinations', floor=6)
    with r:
        fi = idx.func(SG + '.clean_input')
        if len(fi.params) != 2:
            raise AnalysisError('clean_input: signature changed: %s' % fi.params)
        G = Groups(r, fi.loc)
        groups = {
            'ws': 'clean_input: TAB, CR LF, LF CR, CR and LF each become one space (always)',
            'case': 'clean_input: case is folded exactly when case_sensitive is off',
            'strip': 'clean_input: leading/trailing white space is removed exactly when strip is on',
            'strip_all': 'clean_input: all spaces are removed exactly when strip_all is on',
            'clean_spaces': 'clean_input: runs of spaces collapse to one exactly when clean_spaces is on',
            'other': 'clean_input: no other character is altered',
        }
        for flags in all_flags():
            for s in PROBES:
                it = Interp(idx, Model(), max_steps=5000)
                res = outcome(lambda: it.call_function(fi, [s], self_obj=grader(flags)))
                want = ref_clean(s, **flags)
                ok = res[0] == 'ret' and res[1] == want
                g = groups[_blame(s, flags, res[1] if res[0] == 'ret' else None, want)] if not ok else groups[_topic(s, flags)]
                G.case(g, ok, 'input %r with %s' % (s, flag_label(flags)), repr(want), show(res))
        G.flush()


def _topic(s, flags):
    if any(c in s for c in '\t\r\n'):
        return 'ws'
    if s != s.lower() and not flags['case_sensitive']:
        return 'case'
    if s != s.strip() and flags['strip']:
        return 'strip'
    if ' ' in s and flags['strip_all']:
        return 'strip_all'
    if '  ' in s and flags['clean_spaces']:
        return 'clean_spaces'
    return 'other'


def _blame(s, flags, got, want):
    """Which clause of the pipeline a differing result most plausibly belongs to (for the report only)."""
    if not isinstance(got, str):
        return _topic(s, flags)
    for key in ('case_sensitive', 'strip', 'strip_all', 'clean_spaces'):
        f2 = dict(flags)
        f2[key] = not f2[key]
        if ref_clean(s, **f2) == got:
            return {'case_sensitive': 'case', 'strip': 'strip', 'strip_all': 'strip_all', 'clean_spaces': 'clean_spaces'}[key]
    if any(c in s for c in '\t\r\n'):
        return 'ws'
    return 'other'


# ----------------------------------------------------------------------------- D2
ANSWER = {'expect': None, 'ok': True, 'grade_decimal': 1, 'msg': 'well done'}
PARTIAL_ANSWER = {'expect': None, 'ok': 'partial', 'grade_decimal': 0.5, 'msg': 'half'}
WRONG = {'ok': False, 'grade_decimal': 0, 'msg': ''}

PAIRS = [('cat', 'cat'), ('cat', ' cat '), ('cat', 'Cat'), ('cat', 'c at'), ('cat', 'cot'), ('two words', 'two  words'),
         ('two words', 'two\twords'), ('two words', 'two\r\nwords'), ('two words', 'twowords'), ('two words', 'two words.'),
         (' Pad ', 'pad'), ('A  b', 'a b'), ('x', 'x\n'), ('x y', 'x\r\ny'), ('x  y', 'x \n y'), ('Été', 'été'),
         ('a-b', 'a b'), ('a b', 'a b'), ('', ' '), ('cat', '')]


def run_check(idx, fi, cfg, answer, student):
    it = Interp(idx, Model(), max_steps=20000)
    return outcome(lambda: it.call_function(fi, [dict(answer), student], self_obj=grader(cfg)))


def correct_result(answer):
    return {'ok': answer['ok'], 'grade_decimal': answer['grade_decimal'], 'msg': answer['msg']}


def d2_equal(ctx, idx):
    r = ctx.rule('D2.EQUAL', 'a submission is graded correct exactly when it equals the expected string after the '
                 'configured cleaning of both', floor=3)
    with r:
        fi = idx.func(SG + '.check_response')
        if fi.params[:3] != ['self', 'answer', 'student_input']:
            raise AnalysisError('check_response: signature changed: %s' % fi.params)
        G = Groups(r, fi.loc)
        g_ok = 'check_response: equal after cleaning => the answer\'s own ok / grade_decimal / msg'
        g_no = 'check_response: different after cleaning => zero result'
        g_both = 'check_response: the expected string and the submission are cleaned alike'
        for flags in all_flags():
            for expect, student in PAIRS:
                for a, b in ((expect, student), (student, expect)):
                    same = ref_clean(a, **flags) == ref_clean(b, **flags)
                    for base in ((ANSWER, PARTIAL_ANSWER) if all(flags[k] == DEFAULTS[k] for k in FLAGS) else (ANSWER,)):
                        ans = dict(base)
                        ans['expect'] = a
                        res = run_check(idx, fi, flags, ans, b)
                        want = correct_result(ans) if same else WRONG
                        ok = res[0] == 'ret' and res[1] == want
                        # which side was (not) cleaned? raw equality differs from cleaned equality
                        g = g_ok if same else g_no
                        if not ok and res[0] == 'ret' and (a == b) != same:
                            g = g_both
                        G.case(g, ok, 'expect %r, submission %r, %s' % (a, b, flag_label(flags)), repr(want), show(res))
        G.case(g_both, True, 'symmetry', '', '')
        G.flush()


# ----------------------------------------------------------------------------- D3 (construction)
REGEX_FUNCS = {'re.fullmatch': 'fullmatch', 're.match': 'match', 're.search': 'search'}


def d3_construction(ctx, idx):
    r = ctx.rule('D3.FULLMATCH', "every validation test is a full-match construction over the author's pattern "
                 "(re.fullmatch(pattern, s), or re.match on the grouped pattern followed by an end anchor)", floor=2)
    with r:
        fi = idx.func(SG + '.check_response')
        env = lib.local_env(fi.node)

        def is_hole(e):
            return 'validation_pattern' if lib.is_config(e, 'validation_pattern') else None

        def compiled_from(e):
            """pattern expression if e is (a local bound to) re.compile(P)."""
            if isinstance(e, ast.Name) and e.id in env:
                e = env[e.id]
            if isinstance(e, ast.Call) and idx.dotted_of(fi.module, e.func) == 're.compile' and e.args:
                return e.args[0]
            return None

        n = 0
        for call in [c for c in walk_own(fi.node) if isinstance(c, ast.Call)]:
            dotted = idx.dotted_of(fi.module, call.func)
            method = pat = None
            if dotted in REGEX_FUNCS and call.args:
                method, pat = REGEX_FUNCS[dotted], call.args[0]
            elif isinstance(call.func, ast.Attribute) and call.func.attr in ('fullmatch', 'match', 'search'):
                p = compiled_from(call.func.value)
                if p is not None:
                    method, pat = call.func.attr, p
            if method is None:
                continue
            try:
                parts = rx.fold(pat, fi.node, is_hole)
            except AnalysisError as e:
                r.undecided('check_response: `%s`' % short(call, 60), str(e), lib.loc(fi, call))
                n += 1
                continue
            if not any(isinstance(p, rx.Hole) for p in parts):
                continue
            n += 1
            verdict, why = rx.classify_fullmatch(method, parts)
            construct = 'check_response: validation test #%d' % n
            if verdict == rx.FULL:
                r.ok(construct, why, lib.loc(fi, call))
            elif verdict == rx.PARTIAL:
                r.violation(construct, "`%s` is not a full match of the author's pattern: %s. The property needs the pattern to "
                            "match the entire cleaned string" % (short(call, 70), why), lib.loc(fi, call),
                            expected='re.fullmatch(pattern, s)', found='re.%s(%s, s)' % (method, rx.render(parts)))
            else:
                r.undecided(construct, why, lib.loc(fi, call))
        if n == 0:
            raise AnalysisError("no regular-expression test over config['validation_pattern'] found in check_response")


# ----------------------------------------------------------------------------- D3 (behaviour)
def refusal(policy, debug, message_ok):
    """Expected outcome class of construct_message."""
    if policy == 'err':
        return 'raise InvalidInput'
    if policy == 'msg' or debug:
        return 'zero result with the message'
    return 'silent zero result'


def classify_refusal(res, is_message):
    """Map an outcome to the refusal classes above (or describe it)."""
    if res[0] == 'raise':
        if res[1] == 'InvalidInput':
            return 'raise InvalidInput' if (res[2] and is_message(res[2][0])) else 'raise InvalidInput with another message'
        return 'raise %s' % res[1]
    if res[0] != 'ret' or not isinstance(res[1], dict):
        return show(res)
    d = res[1]
    if d.get('ok') is False and d.get('grade_decimal') == 0 and set(d) == {'ok', 'grade_decimal', 'msg'}:
        if d['msg'] == '':
            return 'silent zero result'
        if is_message(d['msg']):
            return 'zero result with the message'
        return 'zero result with another message (%r)' % (d['msg'],)
    return show(res)


MODES = [(False, False), (True, False), (False, True), (True, True)]
PATTERNS = ['cat|dog', 'ca', '[a-z]+ [a-z]+', '^cat$', 'cat$|dog']
VAL_PAIRS = [('cat', 'cat'), ('cat', 'dog'), ('dog', ' Dog '), ('cat', 'catfish'), ('cat', 'dogfish'), ('cat', 'hotdog'),
             ('cat', 'ca'), ('cat', 'c'), ('one two', 'one two'), ('one two', 'one  two'), ('fish', 'fish'), ('fish', 'cat'),
             ('catfish', 'catfish'), ('cat', ''), ('cat', 'cat\n')]


def d3_validation(ctx, idx):
    r = ctx.rule('D3.VALIDATE', 'validation_pattern must match the whole cleaned answer (else ConfigError, unless accepting '
                 'anything) and the whole cleaned submission (else explain_validation), in every mode', floor=4)
    with r:
        fi = idx.func(SG + '.check_response')
        G = Groups(r, fi.loc)
        g_cfg = 'check_response: an expected answer that fails the pattern raises ConfigError (not in accept modes)'
        g_ref = 'check_response: a submission the pattern does not match entirely is refused as explain_validation prescribes'
        g_pass = 'check_response: a submission the pattern matches entirely is graded as without the pattern'
        g_any = 'check_response: the pattern applies in accept_any / accept_nonempty mode as well'
        flags = {k: DEFAULTS[k] for k in FLAGS}
        flags['case_sensitive'] = False
        for (any_, nonempty) in MODES:
            accept = any_ or nonempty
            for pattern in PATTERNS:
                for expect, student in VAL_PAIRS:
                    E, S = ref_clean(expect, **flags), ref_clean(student, **flags)
                    e_ok = re.fullmatch(pattern, E) is not None
                    s_ok = re.fullmatch(pattern, S) is not None
                    policies = [('err', False), ('msg', False), (None, False), (None, True)] if not s_ok else [('err', False)]
                    for policy, debug in policies:
                        cfg = dict(flags, accept_any=any_, accept_nonempty=nonempty, validation_pattern=pattern,
                                   explain_validation=policy, debug=debug, explain_minimums='msg')
                        ans = dict(ANSWER, expect=expect)
                        res = run_check(idx, fi, cfg, ans, student)
                        sc = 'pattern %r, expect %r, submission %r, accept_any=%s, accept_nonempty=%s, explain_validation=%r, debug=%s' % (
                            pattern, expect, student, any_, nonempty, policy, debug)
                        if not accept and not e_ok:
                            G.case(g_cfg, res[0] == 'raise' and res[1] == 'ConfigError', sc, 'ConfigError', show(res))
                            continue
                        if not s_ok:
                            want = refusal(policy, debug, True)
                            got = classify_refusal(res, lambda m: m == 'NOT-IN-FORMAT')
                            G.case(g_any if accept else g_ref, got == want, sc, want + ' (invalid_msg)', got)
                            continue
                        if accept:
                            want = correct_result(ans) if (len(S) >= (1 if nonempty else 0)) else None
                            if want is None:
                                continue    # refused for the minimum length: D4's business
                        else:
                            want = correct_result(ans) if S == E else WRONG
                        G.case(g_any if accept else g_pass, res[0] == 'ret' and res[1] == want, sc, repr(want), show(res))
        G.flush()


# ----------------------------------------------------------------------------- D4
STUDENTS = ['', ' ', 'a', ' a ', 'abc', 'one two', ' one  two ', 'a b c d e f g h i', 'x' * 45, 'two  w' + 'x' * 40, 'a\tb\nc']


def ints_in(text):
    return {int(x) for x in re.findall(r'\d+', str(text))}


def d4_minimums(ctx, idx):
    r = ctx.rule('D4.MINIMUMS', 'accept modes: accepted exactly when the cleaned submission has min_length characters (at '
                 'least 1 for accept_nonempty) and min_words words; refusal follows explain_minimums; the word message wins',
                 floor=5)
    with r:
        fi = idx.func(SG + '.check_response')
        G = Groups(r, fi.loc)
        g_acc = 'check_response: accept modes accept every submission that meets both minimums'
        g_len = 'check_response: a submission shorter than min_length is refused as explain_minimums prescribes'
        g_ne = 'check_response: accept_nonempty requires at least one character'
        g_words = 'check_response: a submission with fewer than min_words words is refused as explain_minimums prescribes'
        g_win = 'check_response: the word-count message takes precedence over the character-count message'
        RAW = {'case_sensitive': True, 'strip': False, 'strip_all': False, 'clean_spaces': False}
        grids = [({k: DEFAULTS[k] for k in FLAGS}, MODES[1:], (0, 1, 3, 40), (0, 1, 2, 9), STUDENTS, True),
                 (RAW, MODES[1:2], (0, 3), (1, 2, 3), ['', ' ', ' a ', ' one  two ', 'a\tb\nc'], False)]
        for flags, modes, lengths, wordcounts, students, all_policies in grids:
            for (any_, nonempty), min_length, min_words, student in itertools.product(modes, lengths, wordcounts, students):
                S = ref_clean(student, **flags)
                need = max(min_length, 1) if nonempty else min_length
                short_ = len(S) < need
                few = len(S.split()) < min_words
                policies = [('err', False), ('msg', False), (None, False), (None, True)] if ((short_ or few) and all_policies) \
                    else [('err', False)]
                for policy, debug in policies:
                    cfg = dict(flags, accept_any=any_, accept_nonempty=nonempty, min_length=min_length,
                               min_words=min_words, explain_minimums=policy, debug=debug, explain_validation='msg')
                    ans = dict(PARTIAL_ANSWER, expect='' if policy == 'err' else 'whatever')
                    res = run_check(idx, fi, cfg, ans, student)
                    sc = ('submission %r, accept_any=%s, accept_nonempty=%s, min_length=%d, min_words=%d, '
                          'explain_minimums=%r, debug=%s%s' % (student, any_, nonempty, min_length, min_words, policy, debug,
                                                               '' if all_policies else ', ' + flag_label(flags)))
                    if not short_ and not few:
                        G.case(g_acc, res[0] == 'ret' and res[1] == correct_result(ans), sc, repr(correct_result(ans)), show(res))
                        continue
                    want = refusal(policy, debug, True)
                    got = classify_refusal(res, lambda m: isinstance(m, str) and m != '')
                    g = g_words if few else (g_ne if (nonempty and min_length == 0) else g_len)
                    G.case(g, got == want, sc, want, got)
                    # which message?
                    if few and short_ and got == want and want != 'silent zero result':
                        text = res[2][0] if res[0] == 'raise' else res[1]['msg']
                        words_pair = {len(S.split()), min_words}
                        chars_pair = {len(S), need}
                        nums = ints_in(text)
                        if words_pair != chars_pair and nums:
                            if words_pair <= nums and not chars_pair <= nums:
                                G.case(g_win, True, sc, '', '')
                            elif chars_pair <= nums and not words_pair <= nums:
                                G.case(g_win, False, sc, 'the message about the word count (%d/%d words)'
                                       % (len(S.split()), min_words), 'the character-count message %r' % (text,))
        if g_win not in G.groups:
            raise AnalysisError('the messages for too-short responses no longer carry the counts; cannot tell which one wins')
        G.flush()


def d4_policy(ctx, idx):
    r = ctx.rule('D4.POLICY', "construct_message: 'err' raises InvalidInput(msg); 'msg' (or debug) returns a zero result with "
                 "the message; None returns a silent zero result", floor=3)
    with r:
        fi = idx.func(SG + '.construct_message')
        if fi.params[:3] != ['self', 'msg', 'msg_type']:
            raise AnalysisError('construct_message: signature changed: %s' % fi.params)
        G = Groups(r, fi.loc)
        names = {'err': "construct_message: 'err' raises InvalidInput carrying the message",
                 'msg': "construct_message: 'msg' (or debug mode) returns ok=False, grade 0 and the message",
                 None: 'construct_message: None (outside debug mode) returns ok=False, grade 0 and no message'}
        for policy in ('err', 'msg', None):
            for debug in (False, True):
                it = Interp(idx, Model(), max_steps=2000)
                res = outcome(lambda: it.call_function(fi, ['THE-MESSAGE', policy], self_obj=grader({'debug': debug})))
                want = refusal(policy, debug, True)
                got = classify_refusal(res, lambda m: m == 'THE-MESSAGE')
                g = names['msg'] if (policy is None and debug) else names[policy]
                G.case(g, got == want, 'msg_type=%r, debug=%s' % (policy, debug), want, got)
        G.flush()


# ----------------------------------------------------------------------------- D5
class CallModel(Model):
    def __init__(self):
        self.calls = []
        self.result = Sym('RESULT-OF-ItemGrader.__call__')

    def global_name(self, name, module):
        if name == 'super':
            return Native(lambda *a: Sym('super-proxy', kind='super'), 'super')
        return NotImplemented

    def attr(self, obj, attr, node, interp):
        if isinstance(obj, Sym) and obj.data.get('kind') == 'super' and attr == '__call__':
            def call(*args, **kwargs):
                self.calls.append((args, kwargs))
                return self.result
            return Native(call, 'ItemGrader.__call__')
        return Model.attr(self, obj, attr, node, interp)


def d5_call(ctx, idx):
    r = ctx.rule('D5.CALL', "__call__ substitutes '' for a missing expect exactly when accept_any or accept_nonempty is set "
                 "and delegates to ItemGrader.__call__", floor=2)
    with r:
        fi = idx.func(SG + '.__call__')
        if fi.params[:3] != ['self', 'expect', 'student_input']:
            raise AnalysisError('__call__: signature changed: %s' % fi.params)
        G = Groups(r, fi.loc)
        g1 = "StringGrader.__call__: expect=None becomes '' in the accept modes only"
        g2 = 'StringGrader.__call__: a given expect and the submission are passed on unchanged'
        for any_, nonempty in MODES:
            for expect in (None, 'cat', ''):
                model = CallModel()
                it = Interp(idx, model, max_steps=2000)
                res = outcome(lambda: it.call_function(fi, [expect, 'the input'], {'attempt': 3},
                                                       self_obj=grader({'accept_any': any_, 'accept_nonempty': nonempty})))
                want = '' if (expect is None and (any_ or nonempty)) else expect
                ok = res[0] == 'ret' and res[1] is model.result and len(model.calls) == 1 \
                    and model.calls[0][0] == (want, 'the input') and model.calls[0][1] == {'attempt': 3}
                found = show(res) if (res[0] != 'ret' or not model.calls) else \
                    'ItemGrader.__call__%r %r' % (model.calls[0][0], model.calls[0][1])
                G.case(g1 if expect is None else g2, ok, 'expect=%r, accept_any=%s, accept_nonempty=%s' % (expect, any_, nonempty),
                       "ItemGrader.__call__(%r, 'the input', attempt=3) and its result returned" % (want,), found)
        G.flush()


# ------------------------------------------------------------------------ self-test
_CLEAN_TAIL = ("        # Apply case sensitivity\n"
               "        if not self.config['case_sensitive']:\n"
               "            cleaned = cleaned.lower()\n"
               "\n"
               "        # Apply strip, strip_all and clean_spaces\n"
               "        if self.config['strip']:\n"
               "            cleaned = cleaned.strip()\n"
               "        if self.config['strip_all']:\n"
               "            cleaned = cleaned.replace(' ', '')\n"
               "        if self.config['clean_spaces']:\n"
               "            cleaned = re.sub(r' +', ' ', cleaned)\n")
_WS = ("        cleaned = cleaned.replace('\\t', ' ')\n"
       "        cleaned = cleaned.replace('\\r\\n', ' ')\n"
       "        cleaned = cleaned.replace('\\n\\r', ' ')\n"
       "        cleaned = cleaned.replace('\\r', ' ')\n"
       "        cleaned = cleaned.replace('\\n', ' ')\n")
_MIN_BLOCKS = ("            chars = len(student)\n"
               "            if chars < min_length:\n"
               "                msg = ('Your response is too short ({chars}/{min} characters)'\n"
               "                       ).format(chars=chars, min=min_length)\n"
               "\n"
               "            # Check for minimum word count (more important than character count)\n"
               "            words = len(student.split())\n"
               "            if words < self.config['min_words']:\n"
               "                msg = ('Your response is too short ({words}/{min} words)'\n"
               "                       ).format(words=words, min=self.config['min_words'])\n")
_MIN_BLOCKS_SWAPPED = ("            words = len(student.split())\n"
                       "            if words < self.config['min_words']:\n"
                       "                msg = ('Your response is too short ({words}/{min} words)'\n"
                       "                       ).format(words=words, min=self.config['min_words'])\n"
                       "\n"
                       "            chars = len(student)\n"
                       "            if chars < min_length:\n"
                       "                msg = ('Your response is too short ({chars}/{min} characters)'\n"
                       "                       ).format(chars=chars, min=min_length)\n")

MUTANTS = [
    Mutant('expect-not-cleaned', SGF, "        expect = self.clean_input(answer['expect'])", "        expect = str(answer['expect'])", 'D2'),
    Mutant('submission-not-cleaned', SGF, "        student = self.clean_input(student_input)", "        student = str(student_input)", 'D2'),
    Mutant('cr-before-crlf', SGF, "        cleaned = cleaned.replace('\\r\\n', ' ')\n        cleaned = cleaned.replace('\\n\\r', ' ')\n        cleaned = cleaned.replace('\\r', ' ')\n",
           "        cleaned = cleaned.replace('\\r', ' ')\n        cleaned = cleaned.replace('\\r\\n', ' ')\n        cleaned = cleaned.replace('\\n\\r', ' ')\n", 'D1'),
    Mutant('whitespace-conversion-last', SGF, _WS + "\n" + _CLEAN_TAIL, _CLEAN_TAIL + "\n" + _WS, 'D1'),
    Mutant('case-flag-inverted', SGF, "        if not self.config['case_sensitive']:", "        if self.config['case_sensitive']:", 'D1'),
    Mutant('strip-unconditional', SGF, "        if self.config['strip']:\n            cleaned = cleaned.strip()", "        cleaned = cleaned.strip()", 'D1'),
    Mutant('lstrip-only', SGF, "            cleaned = cleaned.strip()", "            cleaned = cleaned.lstrip()", 'D1'),
    Mutant('strip-all-under-strip-flag', SGF, "        if self.config['strip_all']:", "        if self.config['strip']:", 'D1'),
    Mutant('extra-replace', SGF, "        cleaned = cleaned.replace('\\t', ' ')\n", "        cleaned = cleaned.replace('\\t', ' ')\n        cleaned = cleaned.replace('-', ' ')\n", 'D1'),
    Mutant('tab-deleted', SGF, "        cleaned = cleaned.replace('\\t', ' ')", "        cleaned = cleaned.replace('\\t', '')", 'D1'),
    Mutant('collapse-any-whitespace', SGF, "re.sub(r' +', ' ', cleaned)", "re.sub(r'\\s+', ' ', cleaned)", 'D1'),
    Mutant('collapse-pairs-only', SGF, "re.sub(r' +', ' ', cleaned)", "cleaned.replace('  ', ' ')", 'D1'),
    Mutant('lf-forgotten', SGF, "        cleaned = cleaned.replace('\\n', ' ')\n", "", 'D1'),
    Mutant('validation-by-search', SGF, "            if re.fullmatch(pattern, student) is None:", "            if re.search(pattern, student) is None:", 'D3'),
    Mutant('validation-dollar-appended', SGF, "            if re.fullmatch(pattern, student) is None:", "            if re.match(pattern + \"$\", student) is None:", 'D3'),
    Mutant('validation-prefix-match', SGF, "            if re.fullmatch(pattern, student) is None:", "            if re.match(pattern, student) is None:", 'D3'),
    Mutant('answer-validation-dollar-appended', SGF, "                if re.fullmatch(pattern, expect) is None:", "                if re.match(pattern + '$', expect) is None:", 'D3'),
    Mutant('validation-on-raw-input', SGF, "            if re.fullmatch(pattern, student) is None:", "            if re.fullmatch(pattern, student_input) is None:", 'D3'),
    Mutant('validation-skipped-in-accept-modes', SGF, "        if pattern is not None:", "        if pattern is not None and not accept_any:", 'D3'),
    Mutant('answer-validated-in-accept-modes', SGF, "            if not accept_any:\n                # Make sure that expect matches the pattern", "            if accept_any:\n                # Make sure that expect matches the pattern", 'D3'),
    Mutant('validation-policy-from-minimums', SGF, "                                              self.config['explain_validation'])", "                                              self.config['explain_minimums'])", 'D3'),
    Mutant('answer-mismatch-error-class', SGF, "                    raise ConfigError(msg.format(answer['expect'], pattern))", "                    raise InvalidInput(msg.format(answer['expect'], pattern))", 'D3'),
    Mutant('min-length-inclusive', SGF, "            if chars < min_length:", "            if chars <= min_length:", 'D4'),
    Mutant('min-words-inclusive', SGF, "            if words < self.config['min_words']:", "            if words <= self.config['min_words']:", 'D4'),
    Mutant('nonempty-not-enforced', SGF, "        if self.config['accept_nonempty'] and min_length == 0:\n            min_length = 1\n", "", 'D4'),
    Mutant('char-message-wins', SGF, _MIN_BLOCKS, _MIN_BLOCKS_SWAPPED, 'D4'),
    Mutant('words-split-on-single-space', SGF, "            words = len(student.split())", "            words = len(student.split(' '))", 'D4'),
    Mutant('length-of-raw-input', SGF, "            chars = len(student)", "            chars = len(student_input)", 'D4'),
    Mutant('minimums-policy-from-validation', SGF, "                                              self.config['explain_minimums'])", "                                              self.config['explain_validation'])", 'D4'),
    Mutant('policy-err-msg-exchanged', SGF, "        if msg_type == 'err':", "        if msg_type == 'msg':", 'D4'),
    Mutant('policy-debug-ignored', SGF, "        elif msg_type == 'msg' or self.config['debug']:", "        elif msg_type == 'msg':", 'D4'),
    Mutant('policy-none-shows-message', SGF, "        elif msg_type == 'msg' or self.config['debug']:", "        else:", 'D4'),
    Mutant('equality-inverted', SGF, "            if student != expect:", "            if student == expect:", 'D2'),
    Mutant('correct-result-pinned', SGF, "            'ok': answer['ok'],", "            'ok': True,", 'D2'),
    Mutant('call-ignores-accept-nonempty', SGF, "        if expect is None and (self.config['accept_any'] or self.config['accept_nonempty']):", "        if expect is None and self.config['accept_any']:", 'D5'),
    Mutant('call-overrides-given-expect', SGF, "        if expect is None and (self.config['accept_any'] or self.config['accept_nonempty']):", "        if expect is None or (self.config['accept_any'] or self.config['accept_nonempty']):", 'D5'),
]

BENIGN = [
    Benign('validation-test-by-truthiness', SGF, "            if re.fullmatch(pattern, student) is None:", "            if not re.fullmatch(pattern, student):"),
    Benign('fullmatch-as-grouped-match', SGF, "            if re.fullmatch(pattern, student) is None:", "            if re.match('(?:' + pattern + r')\\Z', student) is None:"),
    Benign('compiled-validator', SGF, "            if re.fullmatch(pattern, student) is None:", "            validator = re.compile(pattern)\n            if validator.fullmatch(student) is None:"),
    Benign('crlf-lfcr-exchanged', SGF, "        cleaned = cleaned.replace('\\r\\n', ' ')\n        cleaned = cleaned.replace('\\n\\r', ' ')\n",
           "        cleaned = cleaned.replace('\\n\\r', ' ')\n        cleaned = cleaned.replace('\\r\\n', ' ')\n"),
    Benign('collapse-two-or-more', SGF, "re.sub(r' +', ' ', cleaned)", "re.sub(r' {2,}', ' ', cleaned)"),
    Benign('strip-all-else-clean-spaces', SGF, "        if self.config['clean_spaces']:\n            cleaned = re.sub", "        elif self.config['clean_spaces']:\n            cleaned = re.sub"),
    Benign('nonempty-by-max', SGF, "        if self.config['accept_nonempty'] and min_length == 0:\n            min_length = 1\n",
           "        if self.config['accept_nonempty']:\n            min_length = max(min_length, 1)\n"),
    Benign('case-fold-first', SGF, "        cleaned = str(input)\n", "        cleaned = str(input)\n        if not self.config['case_sensitive']:\n            cleaned = cleaned.lower()\n"),
    Benign('equality-positive-form', SGF, "            if student != expect:\n                return {'ok': False, 'grade_decimal': 0, 'msg': ''}",
           "            if not (student == expect):\n                return {'ok': False, 'grade_decimal': 0, 'msg': ''}"),
]
